/-
  C12 — the constraint matrix, limits and names stay aligned under add/remove/update, and the
  `Current` algebra yields the right coefficients.

  Property theorems only (helpers: `Lemmas/NetworkCurrent`, `Lemmas/NetworkAlign`,
  `Lemmas/NetworkQuery`).  Model: `AcnModel/Network.lean`, which follows current.py as REPAIRED by
  fix F8 (a scalar multiple of a `Current` is a `Current`).  Coefficient identities hold over any
  ring `K` (ℚ, ℝ and every ordered field included); alignment needs only a zero.
-/
import AcnModel.Network
import AcnProofs.Lemmas.NetworkCurrent
import AcnProofs.Lemmas.NetworkAlign
import AcnProofs.Lemmas.NetworkQuery
import AcnProofs.Lemmas.NetworkFeas
import AcnProofs.Lemmas.NetworkUse
import Mathlib.Tactic

set_option linter.unusedSectionVars false
set_option linter.unusedSimpArgs false

namespace Acn.C12
open Acn Acn.Network Acn.Network.Current

/-! ## 1. The `Current` algebra -/
section algebra
variable {K : Type} [Ring K]

/-- `(a + b)[s] = a[s] + b[s]`, a station missing on one side counting 0 -/
theorem coeff_add (a b : Current K) (s : String) : coeff (add a b) s = coeff a s + coeff b s :=
  coeff_add' a b s

theorem coeff_sub (a b : Current K) (s : String) : coeff (sub a b) s = coeff a s - coeff b s :=
  coeff_sub' a b s

/-- `(k * c)[s] = k * c[s]` -/
theorem coeff_smulL (k : K) (c : Current K) (s : String) : coeff (smulL k c) s = k * coeff c s :=
  coeff_smulL' k c s

/-- `(c * k)[s] = c[s] * k` -/
theorem coeff_smulR (c : Current K) (k : K) (s : String) : coeff (smulR c k) s = coeff c s * k :=
  coeff_smulR' c k s

theorem coeff_neg (c : Current K) (s : String) : coeff (neg c) s = - coeff c s :=
  coeff_neg' c s

/-- Composition: for EVERY expression tree over `+`, `−`, `k*·`, `·*k` (scalar multiples used as
    operands of `+`/`−` included) the coefficient of a station in the evaluated `Current` is the
    expression evaluated on that station's coefficients. -/
theorem coeff_eval (e : Expr K) (s : String) : coeff e.eval s = e.coeffAt s := by
  induction e with
  | lit c => rfl
  | add l r ihl ihr => simp only [Expr.eval, Expr.coeffAt, coeff_add', ihl, ihr]
  | sub l r ihl ihr => simp only [Expr.eval, Expr.coeffAt, coeff_sub', ihl, ihr]
  | lmul k e ih => simp only [Expr.eval, Expr.coeffAt, coeff_smulL', ih]
  | rmul e k ih => simp only [Expr.eval, Expr.coeffAt, coeff_smulR', ih]

example : coeff (Expr.eval (.add (.lit (ofList ["A", "B"]))
    (.lmul 2 (.lit (ofDict [("B", 2), ("C", 1)])))) : Current ℚ) "B" = 5 := by decide +kernel
example : Net.row ["C", "A", "B"] (Expr.eval (.sub (.lmul 2 (.lit (ofDict [("B", 2), ("C", 1)])))
    (.lit (ofList ["A", "B"]))) : Current ℚ) = [2, -1, 3] := by decide +kernel

/-- the constructors of the class produce distinct keys … -/
theorem constructors_keys_nodup (items : List (String × K)) (ids : List String) (s : String) :
    (ofDict items).keys.Nodup ∧ (ofList ids : Current K).keys.Nodup ∧
      (ofStr s : Current K).keys.Nodup ∧ (Current.empty : Current K).keys.Nodup :=
  ⟨nodup_ofDict items, nodup_ofDict _, by simp [ofStr, keys], by simp [Current.empty, keys]⟩

/-- … and the operators preserve them: every value of the algebra is a finite map. -/
theorem eval_keys_nodup (e : Expr K) (h : LitsNodup e) : e.eval.keys.Nodup := by
  induction e with
  | lit c => exact h
  | add l r ihl ihr => exact nodup_add _ _ (ihl h.1) (ihr h.2)
  | sub l r ihl ihr => exact nodup_sub _ _ (ihl h.1) (ihr h.2)
  | lmul k e ih => exact nodup_smulL k _ (ih h)
  | rmul e k ih => exact nodup_smulR _ k (ih h)

example : LitsNodup (.add (.lit (ofList ["A", "B", "A"])) (.lmul 2 (.lit (ofDict [("B", 2), ("C", 1)]))) :
    Expr ℚ) := by
  refine ⟨?_, ?_⟩
  · show (ofList ["A", "B", "A"] : Current ℚ).keys.Nodup
    decide +kernel
  · show (ofDict [("B", 2), ("C", 1)] : Current ℚ).keys.Nodup
    decide +kernel

end algebra

/-! ## 2. Rows -/
section rows
variable {K : Type} [Zero K]

/-- The stored row does not depend on the order in which the `Current` lists its stations
    (pandas returns the key union of `a + b` in an order of its own choosing). -/
theorem row_indep_of_listing_order (stations : List String) (c c' : Current K)
    (hn : c.keys.Nodup) (hp : c.Perm c') : Net.row stations c = Net.row stations c' := by
  have hn' : c'.keys.Nodup := (hp.map Prod.fst).nodup_iff.mp hn
  have hc : ∀ s, coeff c s = coeff c' s := by
    intro s
    by_cases hs : s ∈ c.keys
    · obtain ⟨⟨k, v⟩, hm, hk⟩ := List.mem_map.mp hs
      simp only at hk; subst hk
      rw [coeff_of_mem c hn k v hm, coeff_of_mem c' hn' k v (hp.mem_iff.mp hm)]
    · have hs' : s ∉ c'.keys := fun h => hs ((hp.map Prod.fst).mem_iff.mpr h)
      rw [coeff_of_not_mem c s hs, coeff_of_not_mem c' s hs']
  unfold Net.row
  exact List.map_congr_left (fun s _ => hc s)

example : Net.row ["C", "A", "B"] ([("B", 2), ("C", 1)] : Current ℚ) =
    Net.row ["C", "A", "B"] [("C", 1), ("B", 2)] := by decide +kernel

/-- entry `j` of a row is the coefficient of the `j`-th registered station, whatever the
    registration order was -/
theorem row_entry (stations : List String) (c : Current K) (j : Nat) (hj : j < stations.length) :
    (Net.row stations c)[j]? = some (coeff c stations[j]) := by
  simp [Net.row, hj]

end rows

/-! ## 3. Alignment of matrix / magnitudes / index with a plain list of constraints -/
section align
variable {K : Type} [Zero K]

/-- **Refinement.**  After ANY history of register / add / remove / update operations (failing
    ones included) on a fresh network, the code's three containers are the images of ONE list of
    constraints `(current, limit, name)` — the specification's — and the code raised exactly where
    the specification refuses. -/
theorem align_refines (ops : List (Op K)) :
    (Net.init : Net K).trace ops = (Spec.init : Spec K).trace ops ∧
      Refines ((Net.init : Net K).run ops) ((Spec.init : Spec K).run ops) :=
  run_refines refines_init ops

/-- The same, entry by entry: equal lengths; `matrix[i][j] = coeff currentᵢ stations[j]`;
    `magnitudes[i] = limitᵢ`; `index[i] = nameᵢ`. -/
theorem align_pointwise (ops : List (Op K)) :
    let n := (Net.init : Net K).run ops
    let sp := (Spec.init : Spec K).run ops
    n.stations = sp.stations ∧
    (n.matrix.getD []).length = sp.cons.length ∧ n.magnitudes.length = sp.cons.length ∧
    n.index.length = sp.cons.length ∧
    ∀ i (hi : i < sp.cons.length),
      n.index[i]? = some sp.cons[i].name ∧ n.magnitudes[i]? = some sp.cons[i].limit ∧
      ∀ j (hj : j < sp.stations.length),
        ((n.matrix.getD [])[i]?.bind (·[j]?)) = some (coeff sp.cons[i].cur sp.stations[j]) := by
  intro n sp
  have h : Refines n sp := (align_refines ops).2
  refine ⟨h.stations, by rw [h.rows]; simp, by rw [h.mags]; simp, by rw [h.index]; simp, ?_⟩
  intro i hi
  refine ⟨by rw [h.index]; simp [hi], by rw [h.mags]; simp [hi], ?_⟩
  intro j hj
  rw [h.rows]
  simp [hi, Net.row, hj]

def exHistory : List (Op ℚ) :=
  [.register "C", .register "A", .register "B",
   .add [("B", 2), ("C", 1)] 7 none, .add [("A", 1), ("Z", 1)] 3 (some "bad"),
   .add (Current.sub [("A", 1), ("B", 1)] [("B", 2), ("C", 1)]) 8 (some "_const_0"),
   .remove "_const_0", .register "D", .update "nope" [] 1 none,
   .update "_const_0_v2" [("A", 4)] 9 none]

example : (Net.init.run exHistory).matrix = some [[0, 4, 0]] ∧
    (Net.init.run exHistory).magnitudes = [9] ∧ (Net.init.run exHistory).index = ["_const_0_v2"] ∧
    (Net.init.run exHistory).stations = ["C", "A", "B"] ∧
    Net.init.trace exHistory = [none, none, none, none, some .keyError, none, none,
      some .registration, some .keyError, none] := by decide +kernel

/-- A raising operation changes nothing — with the one exception the code has:
    `update_constraint` of an EXISTING name (see `update_failure_is_removal`). -/
theorem failed_op_changes_nothing (ops : List (Op K)) (o : Op K) (e : Err) :
    let n := (Net.init : Net K).run ops
    (n.step o).2 = some e → (∀ nm c l nn, o = .update nm c l nn → nm ∉ n.index) →
      (n.step o).1 = n := by
  intro n he hu
  have h : Refines n ((Spec.init : Spec K).run ops) := (align_refines ops).2
  have hlen : (n.matrix.getD []).length = n.index.length := by rw [h.rows, h.index]; simp
  cases o with
  | register s =>
    simp only [Net.step, Net.register] at he ⊢
    split at he
    · rename_i hs; rw [if_pos hs]
    · cases he
  | add c l nm =>
    simp only [Net.step, Net.addConstraint] at he ⊢
    by_cases hk : c.keys.all (fun k => decide (k ∈ n.stations)) = true
    · rw [if_pos hk] at he
      rw [if_neg (by simpa using hlen)] at he
      split at he <;> cases he
    · rw [if_neg hk]
  | remove nm =>
    simp only [Net.step, Net.removeConstraint] at he ⊢
    by_cases hin : nm ∈ n.index
    · rw [if_pos hin] at he ⊢
      cases hm : n.matrix with
      | none => rfl
      | some rows => rw [hm] at he; cases he
    · rw [if_neg hin]
  | update nm c l nn =>
    have := hu nm c l nn rfl
    simp only [Net.step, Net.updateConstraint, this, if_false]

/-- `update_constraint` is remove-then-add in the code (charging_network.py:321-322): with an
    existing name and a `Current` over an unregistered station it raises `KeyError` AFTER the
    removal.  The three containers stay aligned (`align_refines` covers this history too). -/
theorem update_failure_is_removal (n : Net K) (nm : String) (c : Current K) (l : K)
    (nn : Option String) (hin : nm ∈ n.index) (hm : n.matrix.isSome = true)
    (hk : ¬ ∀ k ∈ c.keys, k ∈ n.stations) :
    n.updateConstraint nm c l nn = ((n.removeConstraint nm).1, some .keyError) := by
  unfold Net.updateConstraint
  rw [if_pos hin]
  have hr : n.removeConstraint nm =
      ((n.removeConstraint nm).1, none) := by
    unfold Net.removeConstraint
    rw [if_pos hin]
    cases hmm : n.matrix with
    | none => rw [hmm] at hm; cases hm
    | some rows => rfl
  have hst : (n.removeConstraint nm).1.stations = n.stations := by
    unfold Net.removeConstraint
    rw [if_pos hin]
    cases hmm : n.matrix <;> rfl
  rw [hr]
  simp only
  unfold Net.addConstraint
  have : ¬ (c.keys.all (fun k => decide (k ∈ (n.removeConstraint nm).1.stations)) = true) := by
    rw [hst, keys_all_iff]; exact hk
  rw [if_neg this]

example : (((Net.init : Net ℚ).run [.register "A", .add [("A", 1)] 5 (some "x")]).updateConstraint
    "x" [("Z", 1)] 6 none).2 = some .keyError ∧
    (((Net.init : Net ℚ).run [.register "A", .add [("A", 1)] 5 (some "x")]).updateConstraint
    "x" [("Z", 1)] 6 none).1.index = [] := by decide +kernel

/-- Stations cannot be registered once a constraint was added — not even after every
    constraint has been removed again. -/
theorem register_refused_after_constraint (n : Net K) (c : Current K) (l : K)
    (nm : Option String) (hadd : (n.addConstraint c l nm).2 = none) (ops : List (Op K))
    (s : String) :
    let n' := (n.addConstraint c l nm).1.run ops
    n'.register s = (n', some .registration) := by
  intro n'
  have : n'.matrix.isSome = true := run_isSome _ ops (addConstraint_isSome n c l nm hadd)
  unfold Net.register
  rw [if_pos this]

example : ((Net.init : Net ℚ).addConstraint [] 1 none).2 = none := by decide +kernel
example : (((Net.init : Net ℚ).run [.register "A", .add [("A", 1)] 5 none, .remove "_const_0"]).register
    "B").2 = some .registration := by decide +kernel

/-- Names stay distinct under `add_constraint` PROVIDED the `_v2` variant of a taken name is
    itself free.  (Without the proviso the code produces a duplicate — see the example below; the
    theorem deliberately claims no more than the code does.) -/
theorem names_nodup_add (n : Net K) (c : Current K) (l : K) (name : Option String)
    (hn : n.index.Nodup)
    (hv : (name.getD ("_const_" ++ toString n.index.length)) ∈ n.index →
      (name.getD ("_const_" ++ toString n.index.length)) ++ "_v2" ∉ n.index) :
    (n.addConstraint c l name).1.index.Nodup := by
  have hres : Net.resolveName n.index name ∉ n.index := by
    have hb : Net.resolveName n.index name =
        if name.getD ("_const_" ++ toString n.index.length) ∈ n.index then
          name.getD ("_const_" ++ toString n.index.length) ++ "_v2"
        else name.getD ("_const_" ++ toString n.index.length) := by
      cases name <;> rfl
    rw [hb]
    by_cases hm : name.getD ("_const_" ++ toString n.index.length) ∈ n.index
    · rw [if_pos hm]; exact hv hm
    · rw [if_neg hm]; exact hm
  unfold Net.addConstraint
  by_cases hk : c.keys.all (fun k => decide (k ∈ n.stations)) = true
  · rw [if_pos hk]
    by_cases hl : (n.matrix.getD []).length ≠ n.index.length
    · rw [if_pos hl]; exact hn
    · rw [if_neg hl]
      split
      · simp
      · exact List.nodup_append.mpr ⟨hn, by simp, by
          intro a ha b hb
          simp only [List.mem_singleton] at hb
          subst hb
          exact fun e => hres (e ▸ ha)⟩
  · rw [if_neg hk]; exact hn

/-- the `_v2` corner (DESIGN §8): a third use of a name duplicates `<name>_v2` -/
example : ((Net.init : Net ℚ).run [.add [] 1 (some "c"), .add [] 2 (some "c"),
    .add [] 3 (some "c")]).index = ["c", "c_v2", "c_v2"] := by decide +kernel

theorem names_nodup_remove (n : Net K) (name : String) (hn : n.index.Nodup) :
    (n.removeConstraint name).1.index.Nodup := by
  unfold Net.removeConstraint
  by_cases hin : name ∈ n.index
  · rw [if_pos hin]
    cases n.matrix with
    | none => exact hn
    | some rows => exact hn.erase name
  · rw [if_neg hin]; exact hn

end align

/-! ## 4. Subset queries -/
section query
variable {K : Type} [Ring K]

/-- `constraint_current(schedule, constraints=names, time_indices=times)` on any reachable
    network with at least one constraint ever added: the rows of the NAMED constraints, in network
    order (whatever the order / repetitions in `names`), by the REQUESTED columns in the requested
    order; entry = Σⱼ coeff(currentᵢ, stationⱼ) · schedule[j][τ].  `none` selects everything. -/
theorem subset_query (ops : List (Op K)) (sched : List (List K)) (T : Nat)
    (names : Option (List String)) (times : Option (List Int)) (cols : List Nat) :
    let n := (Net.init : Net K).run ops
    let sp := (Spec.init : Spec K).run ops
    sp.frozen = true → sched.length = sp.stations.length → Net.selTimes T times = some cols →
    n.constraintCurrent sched T names times =
      .ok ((sp.cons.filter (selName names)).map (fun t =>
        cols.map (fun τ => dotK (sp.stations.map (coeff t.cur)) (Net.column sched τ)))) := by
  intro n sp hf hs ht
  have h : Refines n sp := (align_refines ops).2
  unfold Net.constraintCurrent
  simp only [ht]
  rw [if_neg (by rw [h.stations]; simpa using hs)]
  have hsome := h.frozen
  rw [hf] at hsome
  cases hm : n.matrix with
  | none => rw [hm] at hsome; cases hsome
  | some rows =>
    have hr : rows = sp.cons.map (fun t => Net.row sp.stations t.cur) := by
      have := h.rows; rw [hm] at this; exact this
    simp only
    rw [h.index, hr, select_rows]
    simp [List.map_map, Net.row, Function.comp_def]

example : ((Net.init : Net ℚ).run
      [.register "C", .register "A", .register "B",
       .add [("B", 2), ("C", 1)] 7 (some "x"), .add [("A", 1)] 3 (some "y"),
       .add [("A", -1), ("C", 1)] 3 (some "z")]).constraintCurrent
      [[1, 2], [3, 4], [5, 6]] 2 (some ["z", "nope", "x", "z"]) (some [-1, 0]) =
    .ok [[14, 11], [-2, -2]] := by decide +kernel

end query

/-! ## 5. Phase-angle / voltage vectors, and the link to C06 -/
section feas
variable {K : Type} [Field K] [LinearOrder K] [IsStrictOrderedRing K]

/-- The network with its `_phase_angles` / `_voltages` vectors runs the SAME constraint
    bookkeeping: every alignment theorem above applies to its `base`. -/
theorem full_net_projects (ops : List (FOp K)) :
    ((FullNet.init : FullNet K).run ops).base = (Net.init : Net K).run (ops.map FOp.toOp) ∧
      (FullNet.init : FullNet K).trace ops = (Net.init : Net K).trace (ops.map FOp.toOp) :=
  ⟨FullNet.run_base _ ops, FullNet.trace_base _ ops⟩

/-- **C12 → C06.**  The network reached by ANY history of register / add / remove / update
    operations in which no station id is registered twice, viewed as the object the feasibility
    checks read, satisfies `Feas.Net.WF` — the hypothesis of C06's agreement theorems. -/
theorem reachable_feas_wf (ops : List (FOp K)) (hf : FullNet.FreshRun (FullNet.init : FullNet K) ops)
    (vt rt : K) : (((FullNet.init : FullNet K).run ops).toFeas vt rt).WF := by
  have hr : Refines ((FullNet.init : FullNet K).run ops).base
      ((Spec.init : Spec K).run (ops.map FOp.toOp)) := by
    rw [FullNet.run_base]; exact (run_refines refines_init _).2
  exact toFeas_wf hr (run_vecInv vecInv_init ops hf) vt rt

/-- … hence, for every network a user can build that way: `infrastructure_info()` validates, and
    `ChargingNetwork.is_feasible` equals `infrastructure_constraints_feasible` on that view, in
    both modes, for every schedule matrix and any tolerances. -/
theorem reachable_three_agree (ops : List (FOp K))
    (hf : FullNet.FreshRun (FullNet.init : FullNet K) ops) (vt rt : K) (S : List (List K))
    (linear : Bool) (vt? rt? : Option K) :
    let net := ((FullNet.init : FullNet K).run ops).toFeas vt rt
    net.infraInfo = .ok net.view ∧
      net.isFeasible S linear vt? rt? =
        .ok (net.view.feasible2 S linear (vt?.getD net.vt) (rt?.getD net.rt)) :=
  ⟨Feas.Net.infra_ok (reachable_feas_wf ops hf vt rt),
    Feas.Net.isFeasible_eq_view _ (reachable_feas_wf ops hf vt rt) S linear vt? rt?⟩

def exFull : List (FOp ℚ) :=
  [.register "C" 1 0 208, .register "A" 0 1 208, .register "B" (3/5) (4/5) 240,
   .add [("B", 2), ("C", 1)] 7 none, .add [("Z", 1)] 3 (some "bad"), .remove "_const_0",
   .register "D" 1 0 208, .add [("A", 1), ("B", -1)] 9 (some "x")]

example : FullNet.FreshRun FullNet.init exFull := by
  simp only [exFull, FullNet.FreshRun, FullNet.FreshOp, and_true, true_and]
  refine ⟨?_, ?_, ?_, ?_⟩ <;> decide +kernel

/-- Registering a registered id again (before any constraint) appends a phase angle and a
    voltage but not a station: the vectors get out of step and the shape invariant is lost. -/
theorem reregistration_breaks_wf (f : FullNet K) (hv : VecInv f) (hm : f.base.matrix = none)
    (id : String) (hid : id ∈ f.base.stations) (c s v vt rt : K) :
    ¬ ((f.step (.register id c s v)).1.toFeas vt rt).WF := by
  intro h
  have h1 := h.hc
  simp only [FullNet.step, FullNet.register, hm, Option.isSome_none, Bool.false_eq_true, if_false,
    FullNet.toFeas, Net.register, hid, if_true, List.length_append, List.length_singleton] at h1
  have := hv.hc
  omega

example : VecInv (FullNet.init.run [FOp.register "A" (1 : ℚ) 0 208]) ∧
    "A" ∈ (FullNet.init.run [FOp.register "A" (1 : ℚ) 0 208]).base.stations :=
  ⟨⟨by decide +kernel, by decide +kernel, by decide +kernel⟩, by decide +kernel⟩

/-- `constraint_current` with the network's own phase angles (charging_network.py:476-484) on a
    network without re-registration: real and imaginary parts of the named rows, in network order,
    by the requested columns; entry = Σⱼ coeff(currentᵢ, stationⱼ)·(schedule[j][τ]·cos/sin φⱼ). -/
theorem full_query (ops : List (FOp K)) (hfr : FullNet.FreshRun (FullNet.init : FullNet K) ops)
    (sched : List (List K)) (T : Nat) (names : Option (List String)) (times : Option (List Int))
    (cols : List Nat) :
    let f := (FullNet.init : FullNet K).run ops
    let sp := (Spec.init : Spec K).run (ops.map FOp.toOp)
    sp.frozen = true → sched.length = sp.stations.length → Net.selTimes T times = some cols →
    f.constraintCurrent sched T names times =
      .ok ((sp.cons.filter (selName names)).map (fun t => cols.map (fun τ =>
              dotK (sp.stations.map (coeff t.cur))
                ((List.range sp.stations.length).map (fun j => FullNet.phasorEntry sched f.c j τ)))),
           (sp.cons.filter (selName names)).map (fun t => cols.map (fun τ =>
              dotK (sp.stations.map (coeff t.cur))
                ((List.range sp.stations.length).map (fun j => FullNet.phasorEntry sched f.s j τ))))) := by
  intro f sp hf hs ht
  have h : Refines f.base sp := by
    show Refines ((FullNet.init : FullNet K).run ops).base _
    rw [FullNet.run_base]; exact (run_refines refines_init _).2
  have hv : VecInv f := run_vecInv vecInv_init ops hfr
  unfold FullNet.constraintCurrent
  simp only [ht]
  have hw : FullNet.broadcastWidth sched.length f.c.length = some sp.stations.length := by
    unfold FullNet.broadcastWidth
    rw [if_pos (by rw [hv.hc, h.stations]; exact hs), hs]
  simp only [hw]
  have hsome := h.frozen
  rw [hf] at hsome
  cases hm : f.base.matrix with
  | none => rw [hm] at hsome; cases hsome
  | some rows =>
    have hr : rows = sp.cons.map (fun t => Net.row sp.stations t.cur) := by
      have := h.rows; rw [hm] at this; exact this
    simp only
    rw [if_neg (by rw [h.stations]; simp)]
    rw [h.index, hr, select_rows]
    simp [List.map_map, Net.row, Function.comp_def]

/-- After an id was registered twice, EVERY correctly shaped aggregate-current query raises
    (IndexError for a bad time index, else ValueError from numpy's broadcasting / matrix product,
    TypeError on a one-station network without constraints): the network is unusable, it does not
    return wrong numbers. -/
theorem reregistered_query_fails (f : FullNet K) (hlt : f.base.stations.length < f.c.length)
    (hpos : 0 < f.base.stations.length) (sched : List (List K))
    (hs : sched.length = f.base.stations.length) (T : Nat) (names : Option (List String))
    (times : Option (List Int)) : ∃ e, f.constraintCurrent sched T names times = .error e := by
  unfold FullNet.constraintCurrent
  cases Net.selTimes T times with
  | none => exact ⟨_, rfl⟩
  | some cols =>
    simp only
    unfold FullNet.broadcastWidth
    rw [hs]
    by_cases h1 : f.base.stations.length = 1
    · rw [if_neg (by omega), if_pos h1]
      simp only
      cases f.base.matrix with
      | none => exact ⟨_, rfl⟩
      | some rows =>
        simp only
        rw [if_pos (by omega)]
        exact ⟨_, rfl⟩
    · rw [if_neg (by omega), if_neg h1, if_neg (by omega)]
      exact ⟨_, rfl⟩

example : ∃ e, (FullNet.init.run [FOp.register "A" (1 : ℚ) 0 208, .register "B" 1 0 208,
    .register "A" 1 0 208, .add [("A", 1)] 5 none]).constraintCurrent [[1], [2]] 1 none none
      = .error e := ⟨.valueError, by decide +kernel⟩

end feas

/-! ## 6. The network in use: reads and save/resume between the edits -/
section use
variable {K : Type} [Field K] [LinearOrder K] [IsStrictOrderedRing K]

/-- `ChargingNetwork.from_json(net.to_json())` is the network that was saved: same stations in the
    same order, same matrix, limits, names, phase angles, voltages and tolerances (the station order
    travels ONLY as the key order of the `_EVSEs` dictionary). -/
theorem resume_eq (ids : String → Nat) (u : UNet K) : u.resume ids = u := UNet.resume_eq' ids u

example : (((UNet.init (1 : ℚ) 0).run [.edit (.register "s9" 1 0 208), .edit (.register "A" 0 1 240),
    .edit (.add [("A", 2)] 5 none)]).toDict (fun st => st.length)).evses = [("s9", 2), ("A", 1)] := by
  decide +kernel

/-- **Uses change nothing.**  For EVERY history that interleaves the edits with any number of
    feasibility questions (network / Interface / algorithm side, any mode and tolerances),
    aggregate-current queries, views, simulations and save/resume round trips: the object at the
    end is the one the edits alone produce, and the tolerances are the constructor's. -/
theorem history_with_uses (u : UNet K) (h : List (HOp K)) :
    (u.run h).full = u.full.run (edits h) ∧ (u.run h).vt = u.vt ∧ (u.run h).rt = u.rt :=
  UNet.run_full u h

/-- … hence the alignment theorem holds for histories with uses: after ANY such history on a fresh
    network the three containers are the images of the specification's constraint list run over the
    edits alone, and the edits raised exactly where the specification refuses. -/
theorem history_with_uses_aligned (vt rt : K) (h : List (HOp K)) :
    editErrs ((UNet.init vt rt).answers h) = (Spec.init : Spec K).trace ((edits h).map FOp.toOp) ∧
      Refines ((UNet.init vt rt).run h).full.base ((Spec.init : Spec K).run ((edits h).map FOp.toOp)) := by
  have h1 := UNet.editErrs_answers (UNet.init vt rt) h
  have h2 := (UNet.run_full (UNet.init vt rt) h).1
  have ha := align_refines (K := K) ((edits h).map FOp.toOp)
  refine ⟨?_, ?_⟩
  · rw [h1]
    show (FullNet.init : FullNet K).trace (edits h) = _
    rw [FullNet.trace_base]; exact ha.1
  · rw [h2]
    show Refines ((FullNet.init : FullNet K).run (edits h)).base _
    rw [FullNet.run_base]; exact ha.2

def exUse : List (HOp ℚ) :=
  [.edit (.register "C" 1 0 208), .edit (.register "A" 0 1 208),
   .edit (.add [("A", 2), ("C", 1)] 7 none), .use (.feasible [[1], [2]] false none none),
   .use (.resume (fun _ => 0)), .edit (.add [("Z", 1)] 3 (some "bad")), .use .view,
   .use (.simulate [[[1], [1]]]), .edit (.update "_const_0" [("C", 3)] 9 (some "x")),
   .use (.query [[1], [2]] 1 none none true)]

example : edits exUse = [.register "C" 1 0 208, .register "A" 0 1 208,
    .add [("A", 2), ("C", 1)] 7 none, .add [("Z", 1)] 3 (some "bad"),
    .update "_const_0" [("C", 3)] 9 (some "x")] := rfl

example : ((UNet.init (0 : ℚ) 0).run exUse).full.base.matrix = some [[3, 0]] ∧
    ((UNet.init (0 : ℚ) 0).run exUse).full.base.magnitudes = [9] ∧
    ((UNet.init (0 : ℚ) 0).run exUse).full.base.index = ["x"] := by
  refine ⟨?_, ?_, ?_⟩ <;> decide +kernel

/-- **The model's `is_feasible` is C06's.**  On the network reached by any history of edits without
    re-registration, for a schedule with one row per station, the answer of
    `FullNet.isFeasible` (the entry point the correspondence of C12 exercises between the edits,
    with numpy's shape failures) is the answer of `Feas.Net.isFeasible` on the projected object —
    the function C06's theorems are about. -/
theorem use_feasible_eq_feas (ops : List (FOp K))
    (hfr : FullNet.FreshRun (FullNet.init : FullNet K) ops) (vt rt : K) (S : List (List K))
    (linear : Bool) (vt? rt? : Option K) (b : Bool) :
    let f := (FullNet.init : FullNet K).run ops
    S.length = f.base.stations.length →
    (f.isFeasible vt rt S linear vt? rt? = .ok b ↔
      (f.toFeas vt rt).isFeasible S linear vt? rt? = .ok b) := by
  intro f hS
  have hv : VecInv f := run_vecInv vecInv_init ops hfr
  unfold FullNet.isFeasible Feas.Net.isFeasible
  simp only [FullNet.toFeas]
  by_cases he : f.base.magnitudes.isEmpty = true
  · simp [he]
  · simp only [he, Bool.false_eq_true, if_false]
    cases hm : f.base.matrix with
    | none => simp
    | some rows =>
      simp only [Option.map_some]
      cases linear with
      | true => simp [hS]
      | false =>
        have hw : FullNet.broadcastWidth S.length f.c.length = some f.base.stations.length := by
          unfold FullNet.broadcastWidth
          rw [if_pos (by rw [hv.hc]; exact hS), hS]
        simp only [hw, Bool.false_eq_true, if_false, ne_eq, not_true_eq_false]
        rw [bcast_of_length hv.hc, bcast_of_length hv.hs, bcast_of_length hS]
        simp only [Except.ok.injEq]

example : FullNet.isFeasible ((FullNet.init : FullNet ℚ).run exFull) 0 0 [[1], [1], [9]] true none none
    = .ok false := by decide +kernel

end use

end Acn.C12
