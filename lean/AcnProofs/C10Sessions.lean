/-
  C10 — results are independent of the listing order of the sessions / recompute events: RAISING runs
  (the main file proves `run_perm_sessions` for runs that complete and compares only the cores of two
  completing runs otherwise, "NOT PROVED" of relation (3)).

  On a `Valid` scenario (C01) the events of a period never raise, so a run can only be aborted by the
  scheduler stage (`SessionInfo` guards, the algorithm, `_update_schedules`) or by the pilot application
  (`update_pilots`, `_store_actual_charging_rates`).  None of them reads the listing order — the station
  loop of `update_pilots` runs in REGISTRATION order, which is the same in both runs, so even the partial
  application before an offending station is the same.  `run_perm_sessions_raise`: the run over the permuted
  listing raises THE SAME ERROR IN THE SAME PERIOD, and the states at the abort are related exactly as two
  such runs are related in the middle of any period: `CoreEquiv` cores (iteration, occupancy, flags,
  `_last_schedule_update`, invocation periods equal; queue and histories equal as multisets) and `Mid`
  (pilot matrix, rate matrix, peak, draw counter, occupancy log EQUAL; EV records equal per session id).
  `EVSE.current_pilot` is related only at loop heads (`run_perm_sessions`): in the middle of a period it is
  whatever the unplugs of that period and the stations served so far have left.
-/
import AcnProofs.C10
import AcnProofs.Lemmas.EquivSimSessionsRaise

set_option linter.unusedSectionVars false

namespace Acn.C10
open Acn Acn.EventCore Acn.Sim Acn.SimPerm

section sessions_raise
variable {K : Type} [Field K] [LinearOrder K] [IsStrictOrderedRing K] [HasExp K]

/-- CAPSTONE (sessions, RAISING runs).  List the sessions and the recompute events in any other order.  For
    every Valid scenario, every fuel, every scheduler that does not read `EVSE.current_pilot`: a run of the
    FULL simulator that is aborted with error `e` on the original listing is aborted with the SAME error on
    the permuted one, in states with `CoreEquiv` cores (in particular: in the same period, after the same
    scheduler invocations) and `Mid` non-core parts (pilots, rates, peak, draws, occupancy log equal; EV
    records equal per session id). -/
theorem run_perm_sessions_raise (cfg : Cfg K) (evs' : List (Evse.Ev K)) (recs' : List (Int × String))
    (hv : Valid cfg.core) (he : evs'.Perm cfg.evs) (hrc : recs'.Perm cfg.recomputes)
    {sched : View K → Except EventCore.Err (Schedule K)} (hsch : SchedIgnoresEvsePilot sched)
    (n : Nat) (r : State K) (e : EventCore.Err) (hrun : Sim.run cfg sched n (Sim.init cfg) = (r, some e)) :
    ∃ r', Sim.run { cfg with evs := evs', recomputes := recs' } sched n
        (Sim.init { cfg with evs := evs', recomputes := recs' }) = (r', some e) ∧
      CoreEquiv r.core r'.core ∧ Mid r r' := by
  have hp : CfgPerm cfg.core ({ cfg with evs := evs', recomputes := recs' } : Cfg K).core :=
    ⟨he.map _, hrc, fun _ => Iff.rfl, rfl⟩
  have hrel : Rel cfg.core 0 (Sim.init cfg).core (Sim.init ({ cfg with evs := evs', recomputes := recs' } : Cfg K)).core :=
    ⟨init_inv hv, (init_inv (hv.of_perm hp)).of_perm hp, rfl, rfl⟩
  have hpend := hrel.equiv.pending
  have hlt' : lastTs (EventCore.init ({ cfg with evs := evs', recomputes := recs' } : Cfg K).core).pending =
      lastTs (EventCore.init cfg.core).pending := lastTs_perm hpend.symm
  have hnc : NC (Sim.init cfg) (Sim.init ({ cfg with evs := evs', recomputes := recs' } : Cfg K)) := by
    refine ⟨?_, ?_, rfl, ⟨he, ?_⟩, rfl, rfl, rfl⟩
    · simp only [Sim.init, hlt']
    · simp only [Sim.init, hlt']
    · have h1 : (cfg.evs.map (·.session)) = cfg.core.sessions.map (·.id) := by
        simp only [Cfg.core, List.map_map]
        rfl
      show (cfg.evs.map (·.session)).Nodup
      rw [h1]
      exact hv.ids_nodup
  obtain ⟨r', hr', hce, hm⟩ := run_perm_sim_err hv hsch n 0 hrel hnc (by simp [Sim.init]) hrun
  exact ⟨r', by rw [run_cfg_perm_sim cfg evs' recs' hv hp]; exact hr', hce, hm⟩

/-- … with the sorting-based algorithms or uncontrolled charging as the scheduler (built from the permuted
    configuration): a `ValueError` of the algorithm (lower bounds infeasible, …), an `InvalidRateError` of
    `update_pilots`, … come out the same whatever the listing order -/
theorem run_perm_sessions_sorted_raise [Acn.Sorted.HasCeilNat K] (cfg : Cfg K) (evs' : List (Evse.Ev K))
    (recs' : List (Int × String)) (hv : Valid cfg.core) (he : evs'.Perm cfg.evs) (hrc : recs'.Perm cfg.recomputes)
    (mk : Cfg K → View K → Except EventCore.Err (Schedule K))
    (hmk : (∃ net inf scfg, mk = fun c => Acn.SimSorted.sortedSched net inf c scfg) ∨
      (∃ inf, mk = fun c => Acn.SimSorted.uncontrolledSched inf c))
    (n : Nat) (r : State K) (e : EventCore.Err) (hrun : Sim.run cfg (mk cfg) n (Sim.init cfg) = (r, some e)) :
    ∃ r', Sim.run { cfg with evs := evs', recomputes := recs' } (mk { cfg with evs := evs', recomputes := recs' }) n
        (Sim.init { cfg with evs := evs', recomputes := recs' }) = (r', some e) ∧
      CoreEquiv r.core r'.core ∧ Mid r r' := by
  rcases hmk with ⟨net, inf, scfg, rfl⟩ | ⟨inf, rfl⟩
  · exact run_perm_sessions_raise cfg evs' recs' hv he hrc (Acn.SimSorted.sortedSched_ignoresEvsePilot net inf cfg scfg)
      n r e hrun
  · exact run_perm_sessions_raise cfg evs' recs' hv he hrc (Acn.SimSorted.uncontrolledSched_ignoresEvsePilot inf cfg)
      n r e hrun

end sessions_raise

section sessions_raise_example

local instance : HasExp ℚ := ⟨fun x => x⟩

/-- station B is sent 5 A, which it does not allow, in period 2: `update_pilots` raises `InvalidRateError`
    after station A has been served -/
def exScriptBadS : List (Nat × Option (Schedule ℚ)) :=
  [(1, some [("A", [16])]), (2, some [("A", [10]), ("B", [5])])]

/-- the hypotheses of `run_perm_sessions_raise` are satisfiable: the two sessions listed the other way round,
    the run is aborted by `update_pilots` in period 2 on both listings, station A (registered first) has
    been sent its 10 A in both -/
example :
    (Sim.run exSimLate (scripted exScriptBadS []) 9 (Sim.init exSimLate)).2 = some .invalidRate ∧
    (∃ r', Sim.run { exSimLate with evs := exSimLate.evs.reverse, recomputes := [] } (scripted exScriptBadS []) 9
        (Sim.init { exSimLate with evs := exSimLate.evs.reverse, recomputes := [] }) = (r', some .invalidRate) ∧
      CoreEquiv (Sim.run exSimLate (scripted exScriptBadS []) 9 (Sim.init exSimLate)).1.core r'.core ∧
      Mid (Sim.run exSimLate (scripted exScriptBadS []) 9 (Sim.init exSimLate)).1 r') ∧
    (Sim.run exSimLate (scripted exScriptBadS []) 9 (Sim.init exSimLate)).1.core.iter = 2 ∧
    (Sim.run exSimLate (scripted exScriptBadS []) 9 (Sim.init exSimLate)).1.evsePilot = [10, 0] := by
  have hrun : (Sim.run exSimLate (scripted exScriptBadS []) 9 (Sim.init exSimLate)).2 = some .invalidRate := by
    decide +kernel
  refine ⟨hrun, ?_, by decide +kernel, by decide +kernel⟩
  exact run_perm_sessions_raise exSimLate exSimLate.evs.reverse [] exSimLate_valid (List.reverse_perm _) (List.Perm.refl _)
    (scripted_ignoresEvsePilot exScriptBadS []).1 9 _ _ (Prod.ext rfl hrun)

local instance : Acn.Sorted.HasCeilNat ℚ := ⟨fun x => (Rat.ceil x).toNat⟩

/-- station A is a DeadbandEVSE (no pilot strictly between 0 and 6 A) behind a 4 A limit: the greedy algorithm
    hands x its 4 A in period 1 and `update_pilots` raises `InvalidRateError` -/
def exSimDb : Sim.Cfg ℚ :=
  { exSimLate with stations := [⟨"A", .deadband 6 (some 32), 208⟩, ⟨"B", .finite [0, 8, 16], 240⟩] }

def exNetDb : Acn.SimSorted.NetInfo ℚ := ⟨[[1, 0]], [4], [1, 1], [0, 0], 1 / 10000, 1 / 10000000⟩

/-- the hypotheses of `run_perm_sessions_sorted_raise` are satisfiable: a REAL algorithm (EDF greedy) whose run is
    aborted by `update_pilots`, the sessions listed the other way round -/
example :
    (Sim.run exSimDb (Acn.SimSorted.sortedSched exNetDb 1000000 exSimDb exGreedy) 9 (Sim.init exSimDb)).2 = some .invalidRate ∧
    ∃ r', Sim.run { exSimDb with evs := exSimDb.evs.reverse, recomputes := [] }
        (Acn.SimSorted.sortedSched exNetDb 1000000 { exSimDb with evs := exSimDb.evs.reverse, recomputes := [] } exGreedy) 9
        (Sim.init { exSimDb with evs := exSimDb.evs.reverse, recomputes := [] }) = (r', some .invalidRate) ∧
      CoreEquiv (Sim.run exSimDb (Acn.SimSorted.sortedSched exNetDb 1000000 exSimDb exGreedy) 9 (Sim.init exSimDb)).1.core r'.core ∧
      Mid (Sim.run exSimDb (Acn.SimSorted.sortedSched exNetDb 1000000 exSimDb exGreedy) 9 (Sim.init exSimDb)).1 r' := by
  have hrun : (Sim.run exSimDb (Acn.SimSorted.sortedSched exNetDb 1000000 exSimDb exGreedy) 9 (Sim.init exSimDb)).2 =
      some .invalidRate := by decide +kernel
  refine ⟨hrun, ?_⟩
  exact run_perm_sessions_sorted_raise exSimDb exSimDb.evs.reverse [] exSimLate_valid (List.reverse_perm _) (List.Perm.refl _)
    (fun c => Acn.SimSorted.sortedSched exNetDb 1000000 c exGreedy) (Or.inl ⟨exNetDb, 1000000, exGreedy, rfl⟩) 9 _ _
    (Prod.ext rfl hrun)

end sessions_raise_example
end Acn.C10
