/-
  C16 — the predefined site networks never admit more power than the transformer ratings.

  Property theorems only.  Carrier: any linear ordered field `K` with an element `r`, `r * r = 3`
  (√3; ℝ is an instance).  The site data (`Gen.Sites`) are regenerated from the working tree on
  every run — by EXECUTING the factories: rows, angles, voltages, limits, and the dependence of every limit on
  the capacity arguments (fitted by probing and normalised to `cap · N/D [· √3]`), so they are the same for every
  spelling of the source; `site_structure_*` / `site_instances` / `site_default_ratings` are re-decided on them by
  the kernel.  `simple_acn`: `AcnProofs/C16Simple.lean`.
  `vt`, `rt` are the network's tolerances (`violation_tolerance = 1e-5`, `relative_tolerance = 1e-7`):
  the network accepts `limit + max(vt, rt·limit)` per line, and that tolerance term is explicit below.
  Exact arithmetic; that the doubles stay within 1e-9 of it is validated by correspondence (partial).
-/
import AcnProofs.Lemmas.SitesPrimary
import Mathlib.Analysis.Real.Sqrt

namespace Acn.C16
open Acn Acn.Feas Acn.Sites Acn.Gen.Sites Acn.SitesFeas Acn.SitesTopo Acn.SitesMain Acn.SitesXfmr Acn.SitesPrimary

/-! ## T1 obligations on the regenerated data -/

/-- the topologies of site `s` built with the default `voltage=208` -/
def siteTopos (s : String) : List Topo := topos.filter fun T => T.site == s && T.nominalV == (208, 1)

/-- (name, number of EVSEs, rating) of the pods -/
def podTable (T : Topo) : List (String × Nat × Option (Int × Nat)) :=
  T.pods.map fun p => (p.name, p.evses.length, podRating T p)

def panelTable (T : Topo) : List (String × Nat × Option (Int × Nat)) :=
  T.panels.map fun p => (p.name, p.lines.evses.length, panelRating T p)

/-- (name, number of EVSEs, capacity parameter) of the transformers -/
def xfmrTable (T : Topo) : List (String × Nat × Option Nat) :=
  T.xfmrs.map fun x => (x.name, x.sec.evses.length, (xfmrCap T x).map (·.1))

/-- the site has exactly one topology in the dump, it passes `topoOk`, and its documented sizes and
    ratings are as given -/
def structureOk (s : String) (n : Nat) (xt : List (String × Nat × Option Nat))
    (pt pdt : List (String × Nat × Option (Int × Nat))) : Bool :=
  match siteTopos s with
  | [T] => topoOk T && decide (nStations T = n) && decide (xfmrTable T = xt) &&
      decide (panelTable T = pt) && decide (podTable T = pdt)
  | _ => false

/-- Caltech: 54 EVSEs, each with a line-to-line angle and under the one transformer whose secondary
    rows are `1_AB − 1_CA`, `1_BC − 1_AB`, `1_CA − 1_BC` with limit `cap·1000/3/120`; two 80 A pods of
    eight same-angle EVSEs (full list of checks: `Sites.topoOk`). -/
theorem site_structure_caltech :
    structureOk "caltech" 54 [("", 54, some 0)] []
      [("CC Pod", 8, some (80, 1)), ("AV Pod", 8, some (80, 1))] = true := by
  decide +kernel

/-- JPL: 52 EVSEs; two transformers (14 EVSEs on capacity 0, 38 on capacity 1); sub-panels at
    100 A / 225 A per line. -/
theorem site_structure_jpl :
    structureOk "jpl" 52
      [("First Floor Transformer", 14, some 0), ("Third/Fourth Floor Transformer", 38, some 1)]
      [("First Floor SP1", 4, some (100, 1)), ("First Floor SP2", 6, some (100, 1)),
        ("Third Floor Panel", 19, some (225, 1)), ("Fourth Floor Panel", 19, some (225, 1))] [] = true := by
  decide +kernel

/-- Office001: 8 EVSEs under one transformer. -/
theorem site_structure_office001 :
    structureOk "office001" 8 [("", 8, some 0)] [] [] = true := by
  decide +kernel

/-- every executed factory call (3 sites × basic/real EVSEs × 3 capacity settings at 208 V and one at
    240 V, plus the deprecated `CaltechACN` wrapper called by keyword and positionally): the limits the
    object carries equal the fitted formulas (`cap · N/D [· √3]`, fitted by probing the factory) at the capacities passed (2⁻⁴⁰ relative for the double
    rounding; `√3` formulas compared in squared form), literal ratings exactly; the wrapper's networks
    have the same topology as `caltech_acn`'s (a swapped positional argument would create a new one). -/
theorem site_instances :
    insts.length = 26 ∧ insts.all instOk = true ∧
    (insts.map fun I => (I.topo, I.basic)).eraseDups.length = 12 ∧
    (insts.filter (·.factory == "CaltechACN")).length = 2 ∧
    ((insts.filter (·.factory == "CaltechACN")).all fun I =>
      insts.any fun J => J.factory == "caltech_acn" && J.topo == I.topo) = true := by
  decide +kernel

/-- **The documented default ratings.**  Every factory (and the deprecated wrapper) called with NO arguments at
    all — the defaults are those of the live signatures: Caltech 150 kW, JPL 45 kW / 150 kW, Office001 50 kW,
    real (non-BASIC) EVSEs, and the 208 V topology of the site (`topo0/1/2`; another default voltage would be a
    new topology).  The limits these objects carry equal the fitted formulas at those capacities (`instOk`), and
    limits, EVSE maximum rates and continuity are identical to those of the same factory called with the
    documented values passed explicitly.  (Pods 80 A, panels 100 / 225 A: `site_structure_*`.) -/
theorem site_default_ratings :
    (defaultInsts.map fun I => (I.factory, I.topo, I.basic, I.caps)) =
      [("caltech_acn", 0, false, [(150, 1)]), ("jpl_acn", 1, false, [(45, 1), (150, 1)]),
       ("office001_acn", 2, false, [(50, 1)]), ("CaltechACN", 0, false, [(150, 1)])] ∧
    ((topos.take 3).map fun T => (T.site, T.nominalV)) =
      [("caltech", (208, 1)), ("jpl", (208, 1)), ("office001", (208, 1))] ∧
    defaultInsts.all instOk = true ∧
    (defaultInsts.all fun I => insts.any fun J =>
      J.topo == I.topo && J.basic == I.basic && J.caps == I.caps && J.limits == I.limits &&
      J.maxRates == I.maxRates && J.continuous == I.continuous) = true := by
  decide +kernel

/-- the `voltage` argument only changes the EVSE voltages: six topologies (3 sites × {208, 240} V), all
    pass `topoOk` (every EVSE carries exactly the requested voltage), and erasing the voltages leaves
    three. -/
theorem site_structure_all_voltages :
    topos.length = 6 ∧ topos.all topoOk = true ∧
    (topos.map fun T => { T with nominalV := (0, 1), voltages := [] }).eraseDups.length = 3 := by
  decide +kernel

/-! ## the algebraic core -/

section
variable {K : Type} [Field K] [LinearOrder K] [IsStrictOrderedRing K]

/-- three line currents of magnitude ≤ m ⇒ (x + y + z)² ≤ 3 m²  (`x, y, z` the per-line-pair sums;
    their signs do not matter) -/
theorem wye_power (x y z m : K)
    (ha : x * x + x * z + z * z ≤ m * m) (hb : x * x + x * y + y * y ≤ m * m)
    (hc : y * y + y * z + z * z ≤ m * m) :
    (x + y + z) * (x + y + z) ≤ 3 * (m * m) :=
  SitesAlg.wye_sq x y z m ha hb hc

example : (86 : ℚ) * 86 + 86 * 86 + 86 * 86 ≤ 150 * 150 ∧ ¬ ((3 * 86 : ℚ) * (3 * 86) ≤ 1 * (150 * 150)) := by
  decide +kernel

/-- The squared phasor magnitudes of the three rows of a line triple (transformer secondary or
    panel) ARE the 120° quadratics of the per-line-pair sums `X, Y, Z` — for every topology that
    passes `topoOk`, every current vector of the right length, with cos/sin of 30°, −90°, 150°
    written through `r`, `r·r = 3`. -/
theorem line_current_sq (T : Topo) (hT : topoOk T = true) (tr : Triple) (htr : tripleOk T tr = true)
    (r : K) (hr : r * r = 3) (caps x : List K) (hx : x.length = nStations T) :
    let X := gsum T tr.evses angAB x
    let Y := gsum T tr.evses angBC x
    let Z := gsum T tr.evses angCA x
    aggSq T r caps tr.a x = X * X + X * Z + Z * Z ∧
    aggSq T r caps tr.b x = X * X + X * Y + Y * Y ∧
    aggSq T r caps tr.c x = Y * Y + Y * Z + Z * Z ∧
    groupSum tr.evses x = X + Y + Z := by
  intro X Y Z
  have G := topoFacts_of T hT
  have F := tripleFacts_of T tr htr
  refine ⟨?_, ?_, ?_, groupSum_split T tr F G x hx⟩
  · rw [aggSq_eq T r caps x _ F.ha, aggA_re T tr F G r x hx, aggA_im T tr F G x hx, SitesAlg.lineA_sq r _ _ hr]
  · rw [aggSq_eq T r caps x _ F.hb, aggB_re T tr F G r x hx, aggB_im T tr F G x hx, SitesAlg.lineB_sq r _ _ hr]
  · rw [aggSq_eq T r caps x _ F.hc, aggC_re T tr F G r x hx, aggC_im T tr F G x hx, SitesAlg.lineC_sq r _ _ hr]

/-! ## the power bound -/

/-- **C16, power.**  For EVERY topology accepted by `topoOk` (the three sites are, by
    `site_structure_*`), EVERY capacity vector, EVERY schedule with one row per station that
    `is_feasible` accepts (tolerances `vt`, `rt`), EVERY transformer `x` and period `t`:
        V_LL · Σ_{j∈x} S_j(t)  ≤  cap·1000 + 3·V_LN·max(vt, rt·cap·1000/360)
    with V_LN = 120, V_LL = 120·r, r·r = 3, and `cap` the transformer's capacity parameter [kW].
    (No sign condition on the schedule is needed; non-negative schedules are a special case.) -/
theorem site_power_bound (T : Topo) (hT : topoOk T = true) (x : Xfmr) (hx : x ∈ T.xfmrs)
    (r vt rt : K) (hr : r * r = 3) (caps : List K) (S : List (List K))
    (hlen : S.length = nStations T) (hfeas : feasible T r vt rt caps S = true)
    (t : Nat) (ht : t < periods S) :
    ∃ k ops, xfmrCap T x = some (k, ops) ∧
      120 * r * groupSum x.sec.evses (period S t)
        ≤ caps.getD k 0 * 1000 + 360 * tolOf vt rt (caps.getD k 0 * 1000 / 360) := by
  have G := topoFacts_of T hT
  obtain ⟨htri, k, ops, N, D, hcap, hla, hlb, hlc, hn, hD, hN⟩ := xfmrFacts_of T x (G.xf x hx)
  have F := tripleFacts_of T x.sec htri
  refine ⟨k, ops, hcap, ?_⟩
  have hL := limK_secondary r hr caps k ops N D hn hN
  have hb : ∀ i, limOf T i = .ofCap k ops →
      boundOf T r vt rt caps i = caps.getD k 0 * 1000 / 360 + tolOf vt rt (caps.getD k 0 * 1000 / 360) := by
    intro i hi; unfold boundOf; simp only [hi, hL]
  obtain ⟨⟨h0, ha⟩, ⟨_, hb'⟩, ⟨_, hc⟩⟩ := triple_bounds T G x.sec F r vt rt hr caps S hlen hfeas t ht
  rw [hb _ hla] at ha h0
  rw [hb _ hlb] at hb'
  rw [hb _ hlc] at hc
  have hx' : (col S t).length = nStations T := by rw [length_col]; exact hlen
  have hw := SitesAlg.wye_sq _ _ _ _ ha hb' hc
  have hp := SitesAlg.power_of_wye r _ _ hr h0 hw
  unfold period
  rw [groupSum_split T x.sec F G (col S t) hx']
  calc 120 * r * _ ≤ 360 * (caps.getD k 0 * 1000 / 360 + tolOf vt rt (caps.getD k 0 * 1000 / 360)) := hp
    _ = _ := by ring

/-- non-vacuity (Office001 as generated, 50 kW, √3 ∈ ℝ): a non-negative three-phase schedule drawing
    220 A (45.7 kW at 120√3 V) satisfies every hypothesis of `site_power_bound` -/
example : ∃ (r : ℝ) (S : List (List ℝ)), r * r = 3 ∧ topoOk topo2 = true ∧ S.length = nStations topo2 ∧
    (∀ row ∈ S, ∀ v ∈ row, 0 ≤ v) ∧ feasible topo2 r (1 / 100000) (1 / 10000000) [50] S = true ∧
    0 < periods S ∧ (topo2.xfmrs.map fun x => groupSum x.sec.evses (period S 0)) = [220] := by
  have h3 : Real.sqrt 3 * Real.sqrt 3 = 3 := Real.mul_self_sqrt (by norm_num)
  refine ⟨Real.sqrt 3, [[26],[26],[26],[26],[26],[26],[32],[32]], h3, by decide +kernel, by decide, ?_, ?_,
    by decide, ?_⟩
  · intro row hrow v hv
    simp only [List.mem_cons, List.not_mem_nil, or_false] at hrow
    rcases hrow with rfl | rfl | rfl | rfl | rfl | rfl | rfl | rfl <;> simp at hv <;> rw [hv] <;> norm_num
  · simp [feasible, netOf, netFeasible, periods, col, rowOk, magLe, aggRe, aggIm, dotK, sumK, tolOf, pyMax,
      denseRow, coeff, topo2, limK, evalOps, evalOp, ratK, ofIntK, cosK, sinK, nStations, List.range_succ,
      List.lookup, angAB, angBC, angCA, List.range_zero]
    norm_num
    constructorm* _ ∧ _ <;> nlinarith [h3, Real.sqrt_nonneg 3]
  · simp [topo2, groupSum, sumK, period, col]
    norm_num

/-- the same with the tolerance spelled out: `≤ cap·1000·(1 + rt) + 360·vt` for non-negative
    capacity and tolerances -/
theorem site_power_bound_explicit (T : Topo) (hT : topoOk T = true) (x : Xfmr) (hx : x ∈ T.xfmrs)
    (r vt rt : K) (hr : r * r = 3) (hvt : 0 ≤ vt) (hrt : 0 ≤ rt) (caps : List K) (hcaps : ∀ c ∈ caps, 0 ≤ c)
    (S : List (List K)) (hlen : S.length = nStations T) (hfeas : feasible T r vt rt caps S = true)
    (t : Nat) (ht : t < periods S) :
    ∃ k ops, xfmrCap T x = some (k, ops) ∧
      120 * r * groupSum x.sec.evses (period S t) ≤ caps.getD k 0 * 1000 * (1 + rt) + 360 * vt := by
  obtain ⟨k, ops, hc, h⟩ := site_power_bound T hT x hx r vt rt hr caps S hlen hfeas t ht
  refine ⟨k, ops, hc, le_trans h ?_⟩
  have hc0 : 0 ≤ caps.getD k 0 := by
    by_cases hk : k < caps.length
    · rw [getD_of_lt _ _ _ hk]; exact hcaps _ (List.getElem_mem hk)
    · rw [getD_of_ge _ _ _ (by omega)]
  have hmax : tolOf vt rt (caps.getD k 0 * 1000 / 360) ≤ vt + rt * (caps.getD k 0 * 1000 / 360) := by
    unfold tolOf; rw [pyMax_eq_max]
    have : 0 ≤ rt * (caps.getD k 0 * 1000 / 360) := by positivity
    exact max_le (by linarith) (by linarith)
  calc _ ≤ caps.getD k 0 * 1000 + 360 * (vt + rt * (caps.getD k 0 * 1000 / 360)) := by linarith
    _ = _ := by ring

/-- nominal form: at 208 V (`kv = 208/(120·√3)`, i.e. `kv · (120·r) = 208`) the feasible power is at
    most `kv` times the 120√3-volt allowance — the 0.074 % of DESIGN §8 and nothing more -/
theorem site_power_bound_nominal208 (T : Topo) (hT : topoOk T = true) (x : Xfmr) (hx : x ∈ T.xfmrs)
    (r kv vt rt : K) (hr : r * r = 3) (hkv0 : 0 ≤ kv) (hkv : kv * (120 * r) = 208)
    (caps : List K) (S : List (List K))
    (hlen : S.length = nStations T) (hfeas : feasible T r vt rt caps S = true)
    (t : Nat) (ht : t < periods S) :
    ∃ k ops, xfmrCap T x = some (k, ops) ∧
      208 * groupSum x.sec.evses (period S t)
        ≤ kv * (caps.getD k 0 * 1000 + 360 * tolOf vt rt (caps.getD k 0 * 1000 / 360)) := by
  obtain ⟨k, ops, hc, h⟩ := site_power_bound T hT x hx r vt rt hr caps S hlen hfeas t ht
  refine ⟨k, ops, hc, ?_⟩
  have := mul_le_mul_of_nonneg_left h hkv0
  calc 208 * groupSum x.sec.evses (period S t)
      = kv * (120 * r * groupSum x.sec.evses (period S t)) := by rw [← hkv]; ring
    _ ≤ _ := this

/-- **C16, pods and sub-panels.**  For an accepted schedule: every pod's summed current is at most
    its literal rating plus the declared tolerance (same line pair ⇒ magnitude = sum), and for every
    panel the three squared line currents (exact 120° algebra of the panel's per-line-pair sums) are
    at most (rating + tolerance)². -/
theorem pod_panel_within_rating (T : Topo) (hT : topoOk T = true)
    (r vt rt : K) (hr : r * r = 3) (caps : List K) (S : List (List K))
    (hlen : S.length = nStations T) (hfeas : feasible T r vt rt caps S = true)
    (t : Nat) (ht : t < periods S) :
    (∀ p ∈ T.pods, ∃ n d, podRating T p = some (n, d) ∧
      groupSum p.evses (period S t) ≤ ratK n d + tolOf vt rt (ratK n d)) ∧
    (∀ p ∈ T.panels, ∃ n d, panelRating T p = some (n, d) ∧
      let X := gsum T p.lines.evses angAB (period S t)
      let Y := gsum T p.lines.evses angBC (period S t)
      let Z := gsum T p.lines.evses angCA (period S t)
      let b : K := ratK n d + tolOf vt rt (ratK n d)
      0 ≤ b ∧ X * X + X * Z + Z * Z ≤ b * b ∧ X * X + X * Y + Y * Y ≤ b * b ∧ Y * Y + Y * Z + Z * Z ≤ b * b) := by
  have G := topoFacts_of T hT
  constructor
  · intro p hp
    have P := podFacts_of T G p (G.pd p hp)
    obtain ⟨n, d, hl⟩ := P.rating
    refine ⟨n, d, by simp [podRating, constLim, hl], ?_⟩
    have := pod_bound T G p P r vt rt hr caps S hlen hfeas t ht
    unfold boundOf at this
    simpa [hl, limK, period] using this
  · intro p hp
    obtain ⟨htri, n, d, hr', hla, hlb, hlc⟩ := panelFacts_of T p (G.pn p hp)
    have F := tripleFacts_of T p.lines htri
    refine ⟨n, d, hr', ?_⟩
    obtain ⟨⟨h0, ha⟩, ⟨_, hb⟩, ⟨_, hc⟩⟩ := triple_bounds T G p.lines F r vt rt hr caps S hlen hfeas t ht
    unfold boundOf at ha hb hc h0
    simp only [hla, hlb, hlc, limK] at ha hb hc h0
    exact ⟨h0, ha, hb, hc⟩

set_option maxHeartbeats 4000000 in
set_option maxRecDepth 100000 in
/-- non-vacuity (Caltech as generated, 150 kW): the CC pod at its 80 A rating together with BC and CA
    load is accepted, so the hypotheses of `pod_panel_within_rating` hold with a pod exactly at its rating -/
example : ∃ (r : ℝ) (S : List (List ℝ)), r * r = 3 ∧ topoOk topo0 = true ∧ S.length = nStations topo0 ∧
    feasible topo0 r (1 / 100000) (1 / 10000000) [150] S = true ∧ 0 < periods S ∧
    (topo0.pods.map fun p => groupSum p.evses (period S 0)) = [80, 0] := by
  have h3 : Real.sqrt 3 * Real.sqrt 3 = 3 := Real.mul_self_sqrt (by norm_num)
  refine ⟨Real.sqrt 3, [[0],[0],[0],[0],[0],[0],[0],[0],[0],[0],[0],[0],[0],[0],[0],[0],[0],[0],[10],[10],[10],[10],[10],[10],[10],[10],[0],[0],[30],[30],[0],[0],[0],[0],[0],[0],[0],[0],[0],[0],[0],[0],[16],[16],[0],[0],[0],[0],[0],[0],[0],[0],[0],[0]], h3, by decide +kernel, by decide, ?_, by decide, ?_⟩
  · simp [feasible, netOf, netFeasible, periods, col, rowOk, magLe, aggRe, aggIm, dotK, sumK, tolOf, pyMax,
      denseRow, coeff, topo0, limK, evalOps, evalOp, ratK, ofIntK, cosK, sinK, nStations, List.range_succ,
      List.lookup, angAB, angBC, angCA, List.range_zero]
    norm_num
    constructorm* _ ∧ _ <;> nlinarith [h3, Real.sqrt_nonneg 3]
  · simp [topo0, groupSum, sumK, period, col]
    norm_num

/-! ## converse and tightness -/

/-- **Feasibility is exactly the conjunction over periods and constraint rows** of
    `0 ≤ bound ∧ |aggregate|² ≤ bound²` (`bound = limit + max(vt, rt·limit)`), for every topology that
    passes `topoOk`.  With `line_current_sq` the secondary / panel rows are the 120° quadratics. -/
theorem feasible_iff (T : Topo) (hT : topoOk T = true) (r vt rt : K) (caps : List K) (S : List (List K)) :
    feasible T r vt rt caps S = true ↔
      ∀ t, t < periods S → ∀ i, i < T.rows.length →
        0 ≤ boundOf T r vt rt caps i ∧
        aggSq T r caps i (period S t) ≤ boundOf T r vt rt caps i * boundOf T r vt rt caps i :=
  feasible_iff_rows T (topoFacts_of T hT) r vt rt caps S

/-- the three secondary rows of a transformer accept a current vector **iff** the three quadratics of
    its per-line-pair sums are at most `m²`, `m = cap·1000/360 + max(vt, rt·cap·1000/360)` — nothing else
    about the vector matters -/
theorem secondary_feasible_iff (T : Topo) (hT : topoOk T = true) (x : Xfmr) (hx : x ∈ T.xfmrs)
    (r vt rt : K) (hr : r * r = 3) (caps v : List K) (hv : v.length = nStations T) :
    ∃ k ops, xfmrCap T x = some (k, ops) ∧
      let m := caps.getD k 0 * 1000 / 360 + tolOf vt rt (caps.getD k 0 * 1000 / 360)
      let X := gsum T x.sec.evses angAB v
      let Y := gsum T x.sec.evses angBC v
      let Z := gsum T x.sec.evses angCA v
      ((∀ i ∈ [x.sec.a, x.sec.b, x.sec.c], 0 ≤ boundOf T r vt rt caps i ∧
          aggSq T r caps i v ≤ boundOf T r vt rt caps i * boundOf T r vt rt caps i) ↔
        (0 ≤ m ∧ X * X + X * Z + Z * Z ≤ m * m ∧ X * X + X * Y + Y * Y ≤ m * m ∧ Y * Y + Y * Z + Z * Z ≤ m * m)) := by
  have G := topoFacts_of T hT
  obtain ⟨htri, k, ops, N, D, hcap, hla, hlb, hlc, hn, hD, hN⟩ := xfmrFacts_of T x (G.xf x hx)
  refine ⟨k, ops, hcap, ?_⟩
  intro m X Y Z
  have hL := limK_secondary r hr caps k ops N D hn hN
  have hb : ∀ i, limOf T i = .ofCap k ops → boundOf T r vt rt caps i = m := by
    intro i hi; unfold boundOf; simp only [hi, hL]; rfl
  obtain ⟨ea, eb, ec, _⟩ := line_current_sq T hT x.sec htri r hr caps v hv
  simp only [List.mem_cons, List.not_mem_nil, or_false, forall_eq_or_imp, forall_eq]
  rw [hb _ hla, hb _ hlb, hb _ hlc, ea, eb, ec]
  tauto

/-- the wye bound is attained: balanced line-pair sums `x = y = z = m·r/3` put all three line currents
    exactly at `m` and draw exactly `120·r·(x+y+z) = 360·m` -/
theorem wye_power_attained (r m : K) (hr : r * r = 3) :
    let s := m * r / 3
    s * s + s * s + s * s = m * m ∧ 120 * r * (s + s + s) = 360 * m := by
  constructor
  · linear_combination (m * m / 3) * hr
  · linear_combination (120 * m) * hr

/-- **Tightness, any site / capacity / tolerance.**  A current vector whose three line-pair sums under
    transformer `x` are balanced at `m·r/3` sits exactly ON the three secondary bounds and draws exactly
    `cap·1000 + 360·max(vt, rt·cap·1000/360)` at 120√3 V: the allowance of `site_power_bound` (and of the
    oracle) cannot be lowered. -/
theorem balanced_draws_full_allowance (T : Topo) (hT : topoOk T = true) (x : Xfmr) (hx : x ∈ T.xfmrs)
    (r vt rt : K) (hr : r * r = 3) (caps v : List K) (hv : v.length = nStations T) :
    ∃ k ops, xfmrCap T x = some (k, ops) ∧
      let m := caps.getD k 0 * 1000 / 360 + tolOf vt rt (caps.getD k 0 * 1000 / 360)
      (gsum T x.sec.evses angAB v = m * r / 3 → gsum T x.sec.evses angBC v = m * r / 3 →
       gsum T x.sec.evses angCA v = m * r / 3 →
        aggSq T r caps x.sec.a v = m * m ∧ aggSq T r caps x.sec.b v = m * m ∧ aggSq T r caps x.sec.c v = m * m ∧
        120 * r * groupSum x.sec.evses v
          = caps.getD k 0 * 1000 + 360 * tolOf vt rt (caps.getD k 0 * 1000 / 360)) := by
  have G := topoFacts_of T hT
  obtain ⟨htri, k, ops, N, D, hcap, _, _, _, _, _, _⟩ := xfmrFacts_of T x (G.xf x hx)
  refine ⟨k, ops, hcap, ?_⟩
  intro m h1 h2 h3
  obtain ⟨ea, eb, ec, es⟩ := line_current_sq T hT x.sec htri r hr caps v hv
  obtain ⟨w1, w2⟩ := wye_power_attained r m hr
  rw [ea, eb, ec, es, h1, h2, h3]
  refine ⟨w1, w1, w1, ?_⟩
  rw [w2]; ring

/-- … and such a schedule exists and is ACCEPTED by the whole network (primary rows included):
    Office001 as generated, 50 kW, default tolerances, √3 ∈ ℝ — a non-negative schedule that
    `is_feasible` accepts and that draws exactly `50·1000 + 360·max(1e-5, 1e-7·50000/360)` W. -/
theorem office001_bound_attained :
    ∃ (r : ℝ) (S : List (List ℝ)), r * r = 3 ∧ S.length = nStations topo2 ∧
      (∀ row ∈ S, ∀ v ∈ row, 0 ≤ v) ∧ feasible topo2 r (1 / 100000) (1 / 10000000) [50] S = true ∧
      0 < periods S ∧
      (topo2.xfmrs.map fun x => 120 * r * groupSum x.sec.evses (period S 0))
        = [50 * 1000 + 360 * tolOf (1 / 100000) (1 / 10000000) ((50 : ℝ) * 1000 / 360)] := by
  have h3 : Real.sqrt 3 * Real.sqrt 3 = 3 := Real.mul_self_sqrt (by norm_num)
  have h0 : 0 ≤ Real.sqrt 3 := Real.sqrt_nonneg 3
  refine ⟨Real.sqrt 3,
    [[10000001 / 648000 * Real.sqrt 3], [10000001 / 648000 * Real.sqrt 3], [10000001 / 648000 * Real.sqrt 3],
     [10000001 / 648000 * Real.sqrt 3], [10000001 / 648000 * Real.sqrt 3], [10000001 / 648000 * Real.sqrt 3],
     [10000001 / 432000 * Real.sqrt 3], [10000001 / 432000 * Real.sqrt 3]], h3, by decide, ?_, ?_, by decide, ?_⟩
  · intro row hrow v hv
    simp only [List.mem_cons, List.not_mem_nil, or_false] at hrow
    rcases hrow with rfl | rfl | rfl | rfl | rfl | rfl | rfl | rfl <;> simp at hv <;> rw [hv] <;> positivity
  · simp [feasible, netOf, netFeasible, periods, col, rowOk, magLe, aggRe, aggIm, dotK, sumK, tolOf, pyMax,
      denseRow, coeff, topo2, limK, evalOps, evalOp, ratK, ofIntK, cosK, sinK, nStations, List.range_succ,
      List.lookup, angAB, angBC, angCA, List.range_zero]
    norm_num
    constructorm* _ ∧ _ <;> nlinarith [h3, h0]
  · simp [topo2, groupSum, sumK, period, col, tolOf, pyMax]
    norm_num
    nlinarith [h3]

set_option maxHeartbeats 8000000 in
set_option maxRecDepth 100000 in
/-- DESIGN §8's example as a theorem: Caltech as generated, 150 kW, default tolerances — a balanced
    schedule (AB on the ten non-pod EVSEs) that the whole network accepts (pods, primary rows included)
    and that draws exactly `150·1000 + 360·max(1e-5, 1e-7·150000/360)` W at 120√3 V (150.11 kW at 208 V). -/
theorem caltech_bound_attained :
    ∃ (r : ℝ) (S : List (List ℝ)), r * r = 3 ∧ S.length = nStations topo0 ∧
      feasible topo0 r (1 / 100000) (1 / 10000000) [150] S = true ∧ 0 < periods S ∧
      (topo0.xfmrs.map fun x => 120 * r * groupSum x.sec.evses (period S 0))
        = [150 * 1000 + 360 * tolOf (1 / 100000) (1 / 10000000) ((150 : ℝ) * 1000 / 360)] := by
  have h3 : Real.sqrt 3 * Real.sqrt 3 = 3 := Real.mul_self_sqrt (by norm_num)
  have h0 : 0 ≤ Real.sqrt 3 := Real.sqrt_nonneg 3
  refine ⟨Real.sqrt 3, [[10000001 / 720000 * Real.sqrt 3], [10000001 / 720000 * Real.sqrt 3], [10000001 / 720000 * Real.sqrt 3], [10000001 / 720000 * Real.sqrt 3], [10000001 / 720000 * Real.sqrt 3], [10000001 / 720000 * Real.sqrt 3], [10000001 / 720000 * Real.sqrt 3], [10000001 / 720000 * Real.sqrt 3], [10000001 / 720000 * Real.sqrt 3], [10000001 / 720000 * Real.sqrt 3], [0], [0], [0], [0], [0], [0], [0], [0], [0], [0], [0], [0], [0], [0], [0], [0], [10000001 / 1008000 * Real.sqrt 3], [10000001 / 1008000 * Real.sqrt 3], [10000001 / 1008000 * Real.sqrt 3], [10000001 / 1008000 * Real.sqrt 3], [10000001 / 1008000 * Real.sqrt 3], [10000001 / 1008000 * Real.sqrt 3], [10000001 / 1008000 * Real.sqrt 3], [10000001 / 1008000 * Real.sqrt 3], [10000001 / 1008000 * Real.sqrt 3], [10000001 / 1008000 * Real.sqrt 3], [10000001 / 1008000 * Real.sqrt 3], [10000001 / 1008000 * Real.sqrt 3], [10000001 / 1008000 * Real.sqrt 3], [10000001 / 1008000 * Real.sqrt 3], [10000001 / 1008000 * Real.sqrt 3], [10000001 / 1008000 * Real.sqrt 3], [10000001 / 1008000 * Real.sqrt 3], [10000001 / 1008000 * Real.sqrt 3], [10000001 / 1008000 * Real.sqrt 3], [10000001 / 1008000 * Real.sqrt 3], [10000001 / 1008000 * Real.sqrt 3], [10000001 / 1008000 * Real.sqrt 3], [10000001 / 1008000 * Real.sqrt 3], [10000001 / 1008000 * Real.sqrt 3], [10000001 / 1008000 * Real.sqrt 3], [10000001 / 1008000 * Real.sqrt 3], [10000001 / 1008000 * Real.sqrt 3], [10000001 / 1008000 * Real.sqrt 3]], h3, by decide, ?_, by decide, ?_⟩
  · simp [feasible, netOf, netFeasible, periods, col, rowOk, magLe, aggRe, aggIm, dotK, sumK, tolOf, pyMax,
      denseRow, coeff, topo0, limK, evalOps, evalOp, ratK, ofIntK, cosK, sinK, nStations, List.range_succ,
      List.lookup, angAB, angBC, angCA, List.range_zero]
    norm_num
    constructorm* _ ∧ _ <;> nlinarith [h3, h0]
  · simp [topo0, groupSum, sumK, period, col, tolOf, pyMax]
    norm_num
    nlinarith [h3]

/-! ## primary side -/

/-- **Primary rows are implied bounds.**  Each primary row is ¼ of the difference of two secondary rows
    (checked column by column by `topoOk`), so whenever the two secondary magnitudes are ≤ m the primary
    magnitude is ≤ m/2 (`4·|I_p|² ≤ m²`).  Hence a primary limit ≥ half the secondary bound (JPL:
    `√3·` the secondary limit) never binds, and a smaller one (Caltech / Office001: `cap·1000/3/277`) only
    removes schedules — it cannot admit more power. -/
theorem primary_implied (T : Topo) (hT : topoOk T = true) (x : Xfmr) (hx : x ∈ T.xfmrs)
    (r : K) (caps v : List K) (hv : v.length = nStations T) (m : K)
    (ha : aggSq T r caps x.sec.a v ≤ m * m) (hb : aggSq T r caps x.sec.b v ≤ m * m)
    (hc : aggSq T r caps x.sec.c v ≤ m * m) :
    4 * aggSq T r caps x.pa v ≤ m * m ∧ 4 * aggSq T r caps x.pb v ≤ m * m ∧
    4 * aggSq T r caps x.pc v ≤ m * m := by
  have G := topoFacts_of T hT
  have hxo := G.xf x hx
  have F := tripleFacts_of T x.sec (xfmrFacts_of T x hxo).tri
  obtain ⟨p1, p2, p3⟩ := xfmr_primaryOk T x hxo
  have d := triple_den T x.sec F
  exact ⟨primary_implied_row T G _ _ _ p1 F.ha F.hc (fun j hj => ⟨(d j hj).1, (d j hj).2.2⟩) r caps v hv m ha hc,
    primary_implied_row T G _ _ _ p2 F.hb F.ha (fun j hj => ⟨(d j hj).2.1, (d j hj).1⟩) r caps v hv m hb ha,
    primary_implied_row T G _ _ _ p3 F.hc F.hb (fun j hj => ⟨(d j hj).2.2, (d j hj).2.1⟩) r caps v hv m hc hb⟩

/-- non-vacuity of `primary_implied`, and the bound ¼·2² is reached when the two secondary phasors are
    opposite: ra = m, rc = −m -/
example : (4 : ℚ) * (((1 - (-1)) / 4) * ((1 - (-1)) / 4) + ((0 - 0) / 4) * ((0 - 0) / 4)) = 1 * 1 := by
  norm_num

/-- the three sites as they are in the working tree: the power bound holds for each of their
    transformers, for every capacity vector and every accepted schedule -/
theorem generated_sites_power_bound (T : Topo) (hmem : T ∈ topos) (x : Xfmr) (hx : x ∈ T.xfmrs)
    (r vt rt : K) (hr : r * r = 3) (caps : List K) (S : List (List K))
    (hlen : S.length = nStations T) (hfeas : feasible T r vt rt caps S = true)
    (t : Nat) (ht : t < periods S) :
    ∃ k ops, xfmrCap T x = some (k, ops) ∧
      120 * r * groupSum x.sec.evses (period S t)
        ≤ caps.getD k 0 * 1000 + 360 * tolOf vt rt (caps.getD k 0 * 1000 / 360) := by
  exact site_power_bound T (List.all_eq_true.mp site_structure_all_voltages.2.1 T hmem) x hx r vt rt hr caps S hlen hfeas t ht

end
end Acn.C16
