/-
  C06 — the feasibility check matches the phasor definition; the network-side, interface-side
  and algorithm-side checks agree; the linear relaxation is conservative.

  Property theorems only (helpers: `Lemmas/FeasSums.lean`, `Lemmas/FeasAgree.lean`).
  Carrier: any linear ordered field `K` (ℚ and ℝ included).  Stations carry unit phasors
  `(c_j, s_j)`; `c_j² + s_j² = 1` is used only by `linear_conservative*`.
  `wsum row x z = Σ_j row_j · (x_j · z_j)` and `lsum row x = Σ_j |row_j| · x_j` are `List.sum`s
  (the model's left folds are related to them once, in `FeasSums`).
  The linear modes and the infrastructure view follow the REPAIRED code (fixes/F3–F5.diff).
-/
import AcnModel.Feas
import AcnModel.Gen.Consts
import AcnProofs.Lemmas.FeasSums
import AcnProofs.Lemmas.FeasAgree
import AcnProofs.Lemmas.FeasComplex
import AcnProofs.Lemmas.FeasCurrent
import AcnProofs.Lemmas.FeasRestore
import Mathlib.Tactic

namespace Acn.C06
open Acn Acn.Feas

set_option linter.unusedSectionVars false

variable {K : Type} [Field K] [LinearOrder K] [IsStrictOrderedRing K]

/-! ### 1. the network check is the phasor definition -/

/-- `netFeasible` ⇔ for every constraint row `i` (with its limit) and every period `t`,
    the bound `lim_i + max vt (rt·lim_i)` is non-negative and
    `(Σ_j M_ij S_jt c_j)² + (Σ_j M_ij S_jt s_j)² ≤ (lim_i + max vt (rt·lim_i))²`.
    Any matrix, any limits (negative ones included), any tolerances, any number of stations,
    constraints and periods. -/
theorem net_feasible_iff (M : List (List K)) (lims c s : List K) (vt rt : K) (S : List (List K))
    (hne : lims ≠ []) :
    netFeasible M lims c s vt rt S = true ↔
      ∀ t < periods S, ∀ p ∈ List.zip M lims,
        0 ≤ p.2 + max vt (rt * p.2) ∧
        wsum p.1 (col S t) c ^ 2 + wsum p.1 (col S t) s ^ 2 ≤ (p.2 + max vt (rt * p.2)) ^ 2 := by
  have he : lims.isEmpty = false := by simpa using hne
  unfold netFeasible
  rw [he]
  simp only [Bool.false_eq_true, if_false, List.all_eq_true, List.mem_range, rowOk, magLe_iff,
    aggRe_eq, aggIm_eq, tolOf_eq]

example : netFeasible [[(1 : ℚ), 1, 0], [0, 1, -1]] [5, 4] [1, 0, 3/5] [0, 1, 4/5] (1/100) (1/1000)
    [[3, 4], [4, 3], [1, 0]] = true := by decide +kernel
example : netFeasible [[(1 : ℚ), 1, 0], [0, 1, -1]] [5, 4] [1, 0, 3/5] [0, 1, 4/5] (1/100) (1/1000)
    [[3, 4], [4, 3.1], [1, 0]] = false := by decide +kernel

/-- the other case spelled out: a constraint whose bound `lim + tol` is negative makes every
    schedule with at least one period infeasible. -/
theorem net_infeasible_of_neg_bound (M : List (List K)) (lims c s : List K) (vt rt : K)
    (S : List (List K)) (hT : 0 < periods S) (p : List K × K) (hp : p ∈ List.zip M lims)
    (hneg : p.2 + max vt (rt * p.2) < 0) :
    netFeasible M lims c s vt rt S = false := by
  have hne : lims ≠ [] := by
    rintro rfl; simp at hp
  rw [Bool.eq_false_iff]
  intro h
  have := ((net_feasible_iff M lims c s vt rt S hne).mp h 0 hT p hp).1
  exact absurd this (not_le.mpr hneg)

example : netFeasible [[(1 : ℚ)]] [-1] [1] [0] (1/100) (1/1000) [[0]] = false := by decide +kernel

/-- index form of `net_feasible_iff` for an `m × n` matrix, `n` stations and `T` periods given
    as functions: feasible ⇔ `∀ i t`, `0 ≤ b_i` and
    `(Σ_j M i j · S j t · c j)² + (Σ_j M i j · S j t · s j)² ≤ b_i²`, `b_i = lim i + max vt (rt · lim i)`. -/
theorem net_feasible_iff_fin {m n T : Nat} (M : Fin m → Fin n → K) (lim : Fin m → K)
    (c s : Fin n → K) (vt rt : K) (S : Fin n → Fin T → K) (hm : 0 < m) (hn : 0 < n) :
    netFeasible (List.ofFn fun i => List.ofFn (M i)) (List.ofFn lim) (List.ofFn c) (List.ofFn s)
        vt rt (List.ofFn fun j => List.ofFn (S j)) = true ↔
      ∀ (i : Fin m) (t : Fin T),
        0 ≤ lim i + max vt (rt * lim i) ∧
        (∑ j, M i j * (S j t * c j)) ^ 2 + (∑ j, M i j * (S j t * s j)) ^ 2
          ≤ (lim i + max vt (rt * lim i)) ^ 2 := by
  have hne : List.ofFn lim ≠ [] := by
    intro h
    have := congrArg List.length h
    simp at this; omega
  rw [net_feasible_iff _ _ _ _ _ _ _ hne]
  have hper : periods (List.ofFn fun j => List.ofFn (S j)) = T := by
    obtain ⟨n', rfl⟩ : ∃ n', n = n' + 1 := ⟨n - 1, by omega⟩
    simp [periods, List.ofFn_succ]
  have hcol : ∀ t : Fin T, col (List.ofFn fun j => List.ofFn (S j)) t = List.ofFn fun j => S j t := by
    intro t
    simp only [col, List.map_ofFn]
    congr 1
    funext j
    simp [Function.comp, List.getD_eq_getElem?_getD]
  have hw : ∀ (i : Fin m) (z x : Fin n → K),
      wsum (List.ofFn (M i)) (List.ofFn x) (List.ofFn z) = ∑ j, M i j * (x j * z j) := by
    intro i z x
    unfold wsum
    rw [← List.sum_ofFn]
    congr 1
    apply List.ext_getElem
    · simp
    · intro k h1 h2
      simp
  rw [hper]
  constructor
  · intro h i t
    have hmem : (List.ofFn (M i), lim i) ∈ List.zip (List.ofFn fun i => List.ofFn (M i)) (List.ofFn lim) := by
      rw [List.mem_iff_getElem]
      refine ⟨i.1, by simp, by simp⟩
    have := h t.1 t.2 _ hmem
    simpa only [hcol t, hw] using this
  · intro h t ht p hp
    rw [List.mem_iff_getElem] at hp
    obtain ⟨k, hk, rfl⟩ := hp
    have hk' : k < m := by simpa using hk
    have := h ⟨k, hk'⟩ ⟨t, ht⟩
    simp only [List.getElem_zip, List.getElem_ofFn]
    have hc := hcol ⟨t, ht⟩
    simp only at hc
    rw [hc, hw, hw]
    exact this

/-- instance at `m = 1, n = 2, T = 1`: orthogonal phasors, currents 3 and 4 against the limit 5
    (`3² + 4² = 5²`: the edge itself is feasible) -/
example : netFeasible (List.ofFn fun i : Fin 1 => List.ofFn (![![(1 : ℚ), -1]] i)) (List.ofFn ![(5 : ℚ)])
    (List.ofFn ![(1 : ℚ), 0]) (List.ofFn ![(0 : ℚ), 1]) 0 0
    (List.ofFn fun j : Fin 2 => List.ofFn (![![(3 : ℚ)], ![4]] j)) = true := by decide +kernel

/-- **the phasor definition itself**, over ℝ with `c_j = cos φ_j`, `s_j = sin φ_j`: feasible ⇔ for
    every constraint `i` and period `t`, `‖Σ_j M i j · S j t · e^{iφ_j}‖ ≤ lim i + max vt (rt · lim i)`
    (a negative bound is never met, so that case needs no separate clause). -/
theorem net_feasible_iff_phasor {m n T : Nat} (M : Fin m → Fin n → ℝ) (lim : Fin m → ℝ)
    (φ : Fin n → ℝ) (vt rt : ℝ) (S : Fin n → Fin T → ℝ) (hm : 0 < m) (hn : 0 < n) :
    netFeasible (List.ofFn fun i => List.ofFn (M i)) (List.ofFn lim)
        (List.ofFn fun j => Real.cos (φ j)) (List.ofFn fun j => Real.sin (φ j))
        vt rt (List.ofFn fun j => List.ofFn (S j)) = true ↔
      ∀ (i : Fin m) (t : Fin T),
        ‖∑ j, ((M i j * S j t : ℝ) : ℂ) * Complex.exp ((φ j : ℂ) * Complex.I)‖
          ≤ lim i + max vt (rt * lim i) := by
  rw [net_feasible_iff_fin M lim _ _ vt rt S hm hn]
  refine forall_congr' fun i => forall_congr' fun t => ?_
  rw [norm_le_iff_sq, phasor_sum_re, phasor_sum_im]
  simp only [mul_assoc]

/-- `constraint_current(S, constraints=names, time_indices=ts)`: selecting rows (matrix order) and
    periods (request order, repeats allowed) commutes with computing the aggregate currents; an
    index beyond the schedule is an `IndexError`. -/
theorem constraint_current_select (cids : List String) (M : List (List K)) (c s : List K)
    (S : List (List K)) (names : Option (List String)) (ts : List Nat) :
    (constraintCurrentSq cids M c s S names (some ts)
      = if ∀ t ∈ ts, t < periods S then
          .ok ((selectRows cids M names).map fun row => ts.map fun t => sqMag row c s (col S t))
        else .error .indexError) ∧
    (cids.length = M.length → selectRows cids M none = M) := by
  refine ⟨?_, selectRows_all cids M⟩
  split
  · exact constraintCurrentSq_select cids M c s S names ts ‹_›
  · rename_i h
    simp only [not_forall, not_lt] at h
    obtain ⟨t, ht, hle⟩ := h
    exact constraintCurrentSq_oob cids M c s S names ts ⟨t, ht, hle⟩

/-- rows `q` only (the unknown name is ignored), periods 1, 1, 0 -/
example : constraintCurrentSq ["p", "q"] [[(1 : ℚ), 1, 0], [0, 1, -1]] [1, 0, 3/5] [0, 1, 4/5]
    [[3, 4], [4, 3], [1, 0]] (some ["q", "zz"]) (some [1, 1, 0])
      = .ok [[9, 9, 53/5]] := by decide +kernel

/-! ### 2. the three checkers agree -/

/-- network / interface∘densify / algorithm side give the same Boolean for equal tolerances:
    every matrix, any number of stations, constraints and periods (phase-aware mode).
    `sched` is any non-empty mapping whose rows have the common length `len`. -/
theorem three_agree (stations : List String) (M : List (List K)) (lims c s : List K) (vt rt : K)
    (sched : List (String × List K)) (len : Nat) (hne : sched ≠ [])
    (hlen : ∀ p ∈ sched, p.2.length = len) :
    ifaceFeasibleE stations M lims c s vt rt false sched
      = .ok (netFeasible M lims c s vt rt (densify stations sched len)) ∧
    ifaceFeasible stations M lims c s vt rt sched
      = netFeasible M lims c s vt rt (densify stations sched len) ∧
    (∀ S, algFeasible2 M lims c s vt rt S = netFeasible M lims c s vt rt S) ∧
    (∀ x, x ≠ [] → algFeasible M lims c s vt rt x
            = netFeasible M lims c s vt rt (x.map fun v => [v])) := by
  refine ⟨?_, (iface_total_eq stations M lims c s vt rt sched len hne hlen).1,
    fun S => (net_eq_alg2 M lims c s vt rt S).symm, fun x hx => alg1_eq_net M lims c s vt rt x hx⟩
  simpa using ifaceE_ok stations M lims c s vt rt false sched len hne hlen

/-- agreement of the three LINEAR modes (repaired code), same generality -/
theorem linear_modes_agree (stations : List String) (M : List (List K)) (lims c s : List K)
    (vt rt : K) (sched : List (String × List K)) (len : Nat) (hne : sched ≠ [])
    (hlen : ∀ p ∈ sched, p.2.length = len) :
    ifaceFeasibleE stations M lims c s vt rt true sched
      = .ok (netLinear M lims vt rt (densify stations sched len)) ∧
    ifaceLinear stations M lims vt rt sched = netLinear M lims vt rt (densify stations sched len) ∧
    (∀ S, algLinear2 M lims vt rt S = netLinear M lims vt rt S) := by
  refine ⟨?_, (iface_total_eq stations M lims c s vt rt sched len hne hlen).2,
    fun S => (netLinear_eq_alg2 M lims vt rt S).symm⟩
  simpa using ifaceE_ok stations M lims c s vt rt true sched len hne hlen

example : ifaceFeasibleE ["A", "B", "C"] [[(1 : ℚ), -1, 0]] [20] [1, 0, 3/5] [0, 1, 4/5] (1/100) 0 true
      [("B", [12, 1]), ("A", [9, 1])] = .ok false ∧
    algLinear2 [[(1 : ℚ), -1, 0]] [20] (1/100) 0 [[9, 1], [12, 1], [0, 0]] = false ∧
    ifaceFeasibleE ["A", "B", "C"] [[(1 : ℚ), -1, 0]] [20] [1, 0, 3/5] [0, 1, 4/5] (1/100) 0 false
      [("B", [12, 1]), ("A", [9, 1])] = .ok true := by decide +kernel

/-- rows of different lengths are refused by the interface side (and only those) -/
theorem iface_rejects_ragged (stations : List String) (M : List (List K)) (lims c s : List K)
    (vt rt : K) (linear : Bool) (k : String) (r : List K) (rest : List (String × List K)) :
    ifaceFeasibleE stations M lims c s vt rt linear ((k, r) :: rest) = .error .invalidSchedule
      ↔ ∃ q ∈ rest, q.2.length ≠ r.length := by
  constructor
  · intro h
    by_contra hcon
    simp only [not_exists, not_and, not_not] at hcon
    have hlen : ∀ p ∈ (k, r) :: rest, p.2.length = r.length := by
      intro p hp
      rcases List.mem_cons.mp hp with rfl | hp
      · rfl
      · exact hcon p hp
    rw [ifaceE_ok stations M lims c s vt rt linear _ r.length (by simp) hlen] at h
    cases h
  · exact ifaceE_err stations M lims c s vt rt linear k r rest

/-- the same agreement on the objects the entry points live on: for a network whose arrays
    satisfy the shape invariant, `Interface.is_feasible(mapping)`, `ChargingNetwork.is_feasible`
    on the dense matrix and `infrastructure_constraints_feasible` on `infrastructure_info()`
    return the same answer — both modes, default (`None`) or explicit tolerances, with or without
    constraints — and building the infrastructure view succeeds. -/
theorem three_agree_entry (net : Net K) (hwf : net.WF) (sched : List (String × List K)) (len : Nat)
    (hne : sched ≠ []) (hlen : ∀ p ∈ sched, p.2.length = len) (linear : Bool)
    (vt? rt? : Option K) :
    net.infraInfo = .ok net.view ∧
    net.ifaceIsFeasible sched linear vt? rt?
      = net.isFeasible (densify net.stations sched len) linear vt? rt? ∧
    net.isFeasible (densify net.stations sched len) linear vt? rt?
      = .ok (net.view.feasible2 (densify net.stations sched len) linear
              (vt?.getD net.vt) (rt?.getD net.rt)) :=
  ⟨Net.infra_ok hwf, Net.iface_eq_net net sched len hne hlen linear vt? rt?,
    Net.isFeasible_eq_view net hwf _ linear vt? rt?⟩

/-- a concrete well-formed network (phasors (1,0), (0,1), (3/5,4/5); mixed-sign rows) -/
def exNet : Net ℚ :=
  { stations := ["A", "B", "C"], c := [1, 0, 3/5], s := [0, 1, 4/5], voltages := [208, 208, 208],
    matrix := some { cols := 3, rows := [[1, 1, 0], [0, 1, -1]] }, lims := [5, 4],
    cids := ["p", "q"], vt := 1/100, rt := 1/1000 }

/-- the hypotheses of `three_agree_entry` are satisfiable -/
example : exNet.WF :=
  ⟨rfl, rfl, rfl, rfl, (by intro h; cases h), (by intro M h; cases h; exact ⟨rfl, rfl⟩)⟩

example : exNet.ifaceIsFeasible [("C", [1, 0]), ("A", [3, 4]), ("B", [4, 3])] false none none
    = .ok true := by decide +kernel
example : exNet.ifaceIsFeasible [("C", [1, 0]), ("A", [3, 4]), ("B", [4, 31/10])] false none none
    = .ok false := by decide +kernel
example : exNet.ifaceIsFeasible [("C", [1, 0]), ("A", [3, 4]), ("B", [4, 31/10])] false
    (some 1) none = .ok true := by decide +kernel
example : exNet.ifaceIsFeasible [("C", [1]), ("A", [3, 4])] false none none
    = .error .invalidSchedule := by decide +kernel

/-! ### 3. no constraints -/

/-- a network without constraints accepts every schedule, through all three entry points and
    in both modes -/
theorem no_constraints_feasible (M : List (List K)) (c s : List K) (vt rt : K)
    (S : List (List K)) (stations : List String) (sched : List (String × List K)) :
    netFeasible M [] c s vt rt S = true ∧ netLinear M [] vt rt S = true ∧
    algFeasible2 M [] c s vt rt S = true ∧ algLinear2 M [] vt rt S = true ∧
    (∀ x, algFeasible M [] c s vt rt x = true ∧ algLinear M [] vt rt x = true) ∧
    ifaceFeasible stations M [] c s vt rt sched = true ∧
    ifaceLinear stations M [] vt rt sched = true := by
  refine ⟨by simp [netFeasible], by simp [netLinear, netFeasibleLinear],
    by simp [algFeasible2, algFeasible], by simp [algLinear2, algLinear],
    fun x => ⟨by simp [algFeasible], by simp [algLinear]⟩, ?_, ?_⟩
  · cases sched with
    | nil => rfl
    | cons p rest => simp [ifaceFeasible, netFeasible]
  · cases sched with
    | nil => rfl
    | cons p rest => simp [ifaceLinear, netLinear, netFeasibleLinear]

/-- a constraint-free network is usable by schedulers: building the infrastructure view of a
    network with `N` registered stations and no constraint succeeds, it is a `0 × N` matrix,
    and the algorithm-side check accepts every schedule on it (finding F3 on the unrepaired
    tree: `AttributeError`). -/
theorem infra_of_unconstrained_ok (net : Net K) (hc : net.c.length = net.stations.length)
    (hs : net.s.length = net.stations.length) (hv : net.voltages.length = net.stations.length)
    (hm : net.matrix = none) (hl : net.lims = []) (hi : net.cids = []) :
    ∃ info, net.infraInfo = .ok info ∧ info.nCons = 0 ∧ info.nCols = net.stations.length ∧
      info.matrix = [] ∧ info.stations = net.stations ∧
      ∀ S linear vt rt, info.feasible2 S linear vt rt = true ∧
        ∀ x, info.feasible1 x linear vt rt = true := by
  have hwf : net.WF :=
    ⟨hc, hs, hv, (by simp [hi, hl]), (fun _ => hl), (by intro M h; rw [hm] at h; cases h)⟩
  refine ⟨net.view, Net.infra_ok hwf, ?_, ?_, ?_, rfl, ?_⟩
  · simp [Net.view, Net.mat, hm]
  · simp [Net.view, Net.mat, hm]
  · simp [Net.view, Net.mat, hm]
  · intro S linear vt rt
    have hmat : net.view.matrix = [] := by simp [Net.view, Net.mat, hm]
    constructor
    · cases linear <;>
        simp [Infra.feasible2, hmat, algFeasible2, algFeasible, algLinear2, algLinear]
    · intro x
      cases linear <;> simp [Infra.feasible1, hmat, algFeasible, algLinear]

/-- two registered stations, no constraint -/
def exNet0 : Net ℚ :=
  { stations := ["A", "B"], c := [1, 0], s := [0, 1], voltages := [208, 240],
    matrix := none, lims := [], cids := [], vt := 1/100, rt := 0 }

example : (exNet0.infraInfo.toOption.map fun i => (i.nCons, i.nCols)) = some (0, 2) := by
  decide +kernel

/-! ### 4. the linear relaxation is conservative -/

/-- **`S ≥ 0 → linear-feasible → phase-aware feasible`** for unit phasors: every matrix
    (mixed signs), any number of stations / constraints / periods, any limits and tolerances.
    Induction over stations with the 2-D triangle step `cs_step`. -/
theorem linear_conservative (M : List (List K)) (lims c s : List K) (vt rt : K)
    (S : List (List K)) (hu : UnitPhasors c s) (hS : ∀ row ∈ S, ∀ v ∈ row, 0 ≤ v)
    (h : netLinear M lims vt rt S = true) : netFeasible M lims c s vt rt S = true := by
  unfold netLinear netFeasibleLinear at h
  unfold netFeasible
  by_cases he : lims.isEmpty = true
  · simp [he]
  · simp only [he, if_false, Bool.false_eq_true, List.all_eq_true, List.mem_range,
      decide_eq_true_eq] at h ⊢
    intro t ht p hp
    have hx : ∀ v ∈ col S t, 0 ≤ v := by
      intro v hv
      simp only [col, List.mem_map] at hv
      obtain ⟨row, hrow, rfl⟩ := hv
      rw [List.getD_eq_getElem?_getD]
      cases hg : row[t]? with
      | none => simp
      | some w => simpa using hS row hrow w (List.mem_of_getElem? hg)
    exact rowOk_of_linear p.1 p.2 vt rt c s (col S t) hu hx (h t ht p hp)

example : netLinear [[(1 : ℚ), -1, 0]] [20] (1/100) 0 [[8], [12], [3]] = true ∧
    netFeasible [[(1 : ℚ), -1, 0]] [20] [1, 0, 3/5] [0, 1, 4/5] (1/100) 0 [[8], [12], [3]] = true ∧
    UnitPhasors [(1 : ℚ), 0, 3/5] [0, 1, 4/5] := by
  refine ⟨by decide +kernel, by decide +kernel, rfl, ?_⟩
  intro p hp
  simp [List.zip] at hp
  rcases hp with rfl | rfl | rfl <;> norm_num

/-- conservativeness through the entry points: a non-negative mapping accepted by
    `Interface.is_feasible(linear=True)` is accepted by `Interface.is_feasible`, by
    `ChargingNetwork.is_feasible` and by the algorithm-side check (same tolerances). -/
theorem linear_conservative_entry (net : Net K) (hwf : net.WF) (hu : UnitPhasors net.c net.s)
    (sched : List (String × List K)) (len : Nat) (hne : sched ≠ [])
    (hlen : ∀ p ∈ sched, p.2.length = len) (hS : ∀ p ∈ sched, ∀ v ∈ p.2, 0 ≤ v)
    (vt? rt? : Option K) (h : net.ifaceIsFeasible sched true vt? rt? = .ok true) :
    net.ifaceIsFeasible sched false vt? rt? = .ok true ∧
    net.isFeasible (densify net.stations sched len) false vt? rt? = .ok true ∧
    net.view.feasible2 (densify net.stations sched len) false (vt?.getD net.vt) (rt?.getD net.rt)
      = true := by
  have key : net.isFeasible (densify net.stations sched len) false vt? rt? = .ok true := by
    rw [Net.iface_eq_net net sched len hne hlen] at h
    unfold Net.isFeasible at h ⊢
    by_cases he : net.lims.isEmpty = true
    · simp [he]
    · simp only [he, Bool.false_eq_true, if_false] at h ⊢
      cases hm : net.matrix with
      | none => rw [hm] at h; cases h
      | some M =>
        rw [hm] at h
        simp only [if_true, Except.ok.injEq] at h
        simp only [Except.ok.injEq]
        exact linear_conservative _ _ _ _ _ _ _ hu (densify_nonneg _ _ _ hS) h
  refine ⟨by rw [Net.iface_eq_net net sched len hne hlen]; exact key, key, ?_⟩
  have := Net.isFeasible_eq_view net hwf (densify net.stations sched len) false vt? rt?
  rw [key] at this
  simpa using this.symm

example : exNet.ifaceIsFeasible [("A", [1]), ("C", [2]), ("B", [1])] true none none = .ok true ∧
    exNet.ifaceIsFeasible [("A", [1]), ("C", [2]), ("B", [1])] false none none = .ok true ∧
    UnitPhasors exNet.c exNet.s := by
  refine ⟨by decide +kernel, by decide +kernel, rfl, ?_⟩
  intro p hp
  simp [exNet, List.zip] at hp
  rcases hp with rfl | rfl | rfl <;> norm_num

/-! ### 5. regenerated constants (T1) -/

/-- the default tolerances of the algorithm-side check equal the network's defaults, and are
    non-negative (re-extracted from the working tree on every run) -/
theorem gen_tolerances :
    Acn.Gen.algAbsTol = Acn.Gen.netAbsTol ∧ Acn.Gen.algRelTol = Acn.Gen.netRelTol ∧
    0 < Acn.Gen.netAbsTol ∧ 0 ≤ Acn.Gen.netRelTol := by decide +kernel

/-! ### 6. save / restore -/

/-- a network whose arrays have the shape numpy gives them answers every feasibility query the
    same after any number of `from_json(to_json())` round trips (of the network, or of the
    simulator that owns it): the restored object IS the saved one — station order, phasors,
    voltages, matrix (also one without rows), limits, names and tolerances — hence
    `Interface.is_feasible` on every mapping, `ChargingNetwork.is_feasible` on every matrix and
    the infrastructure view (on which the algorithm side decides) are unchanged, in both modes,
    with default or explicit tolerances.  Any number of stations, constraints and periods. -/
theorem restore_preserves_checks (net : Net K) (hrow : net.RowsWF) (n : Nat) :
    net.restoreN n = net ∧
    (∀ (sched : List (String × List K)) (linear : Bool) (vt? rt? : Option K),
      (net.restoreN n).ifaceIsFeasible sched linear vt? rt? = net.ifaceIsFeasible sched linear vt? rt?) ∧
    (∀ (S : List (List K)) (linear : Bool) (vt? rt? : Option K),
      (net.restoreN n).isFeasible S linear vt? rt? = net.isFeasible S linear vt? rt?) ∧
    (net.restoreN n).infraInfo = net.infraInfo := by
  have h := Net.restoreN_eq net hrow n
  refine ⟨h, ?_, ?_, ?_⟩ <;> simp [h]

/-- the hypothesis is satisfiable, also by a network whose constraints have all been removed -/
example : exNet.RowsWF := by
  intro M h; cases h; exact ⟨rfl, by intro r hr; simp at hr; rcases hr with rfl | rfl <;> rfl⟩
example : (({ exNet with matrix := some { cols := 3, rows := [] }, lims := [], cids := [] } : Net ℚ).restore.matrix.map
    fun M => (M.cols, M.rows.length)) = some (3, 0) := by decide +kernel

/-- the station ORDER travels only as the key order of the `_EVSEs` object: a document with the
    same content whose keys come in another order (here: sorted) restores to a network that gives a
    different verdict on the same `{station: rates}` mapping — which is why the check compares
    restored objects per station id with the case, never with themselves. -/
def exNetCAB : Net ℚ := { exNet with stations := ["C", "A", "B"] }
example : exNetCAB.restore.ifaceIsFeasible [("C", [5])] false none none = .ok true ∧
    ({ exNetCAB.toDoc with evses := ["A", "B", "C"] } : NetDoc ℚ).toNet.ifaceIsFeasible
      [("C", [5])] false none none = .ok false := by
  constructor <;> decide +kernel

end Acn.C06
