/-
  C19 — stochastic space assignment never loses, duplicates or starves a session.

  Property theorems only (helpers: AcnProofs/Lemmas/Stochastic*.lean).  The state theorems take
  `Good s hist` (invariant + flags agree with the processed history `hist`), which holds
  (`reached_inv`) in every state `s` REACHED by the model of `StochasticNetwork` inside the simulator's event loop:
  from the empty network over any duplicate-free list of stations, after ANY list of steps
  (events interleaved arbitrarily with `post_charging_update` calls, any `fully_charged`
  inputs, early departure on or off) whose events form a well-formed history, under ANY stream
  of random choices `cs`.  Well-formedness (`WFHist`) says: no session is plugged in twice or
  unplugged twice and every unplug follows the plug-in of its session; `wellFormed_protocol`
  derives it from the simulator's protocol (distinct session ids, arrival < departure, events
  in any key-sorted order — the order among equal keys is left open).
-/
import AcnProofs.Lemmas.StochasticProto
import AcnProofs.Lemmas.StochasticDet
import AcnProofs.Lemmas.StochasticStarve
import AcnProofs.Lemmas.StochasticEventCore
import AcnProofs.Lemmas.StochasticLoopInst
import AcnProofs.Lemmas.SimStochastic
import AcnProofs.Lemmas.SimStochasticLedger

namespace Acn.C19
open Acn Acn.Stoch

/-- `s` is the state after processing exactly the (well-formed) history `hist` -/
def Reached (s : Net) (hist : List Event) : Prop :=
  ∃ (stations : List Station) (early : Bool) (st0 : Sess → Option Station) (cs : Nat → Nat)
    (steps : List Step),
    stations.Nodup ∧ WFHist hist ∧ evProj steps = hist ∧
      (Net.init stations early st0).run cs steps = .ok s

/-- an EV that is physically at the site: arrived, not yet departed, did not leave early -/
def Present (s : Net) (x : Sess) : Prop :=
  (s.ev x).arrived = true ∧ (s.ev x).departed = false ∧ (s.ev x).early = false

/-- what every theorem below needs of a state: the invariant of the network model (`Inv`,
    AcnProofs/Lemmas/StochasticInv.lean) and the ghost flags agreeing with the processed events.
    It holds in every `Reached` state (`reached_inv`) and at every loop head of the composed run
    loop (`end_to_end`). -/
def Good (s : Net) (hist : List Event) : Prop := Inv s ∧ Track hist s

theorem reached_inv {s : Net} {hist : List Event} (h : Reached s hist) : Good s hist := by
  obtain ⟨stations, early, st0, cs, steps, hn, hwf, hp, hr⟩ := h
  obtain ⟨s', hs', hi, tr⟩ := run_good cs steps [] _ (Inv.init stations early st0 hn)
    (Track.init stations early st0) (by simpa [hp] using hwf)
  rw [hr] at hs'; cases hs'
  exact ⟨hi, by simpa [hp] using tr⟩

/-- For well-formed histories the run never raises: the `KeyError` branch of `unplug`
    (`station_id` None and not in the queue) and `StationOccupiedError` are unreachable. -/
theorem no_error (stations : List Station) (early : Bool) (st0 : Sess → Option Station)
    (cs : Nat → Nat) (steps : List Step) (hn : stations.Nodup) (hwf : WFHist (evProj steps)) :
    ∃ s, (Net.init stations early st0).run cs steps = .ok s ∧ Reached s (evProj steps) := by
  obtain ⟨s', hs', _, _⟩ := run_good cs steps [] _ (Inv.init stations early st0 hn)
    (Track.init stations early st0) (by simpa using hwf)
  exact ⟨s', hs', stations, early, st0, cs, steps, hn, hwf, rfl, hs'⟩

/-- The simulator's protocol gives well-formed histories: for sessions with distinct ids and
    arrival < departure, ANY key-sorted order `h` of their plug-in / unplug events, any number
    of simulated periods `n`, any inputs: the run does not raise and ends in a `Reached` state;
    when `n` covers the last timestamp, the whole of `h` has been processed. -/
theorem wellFormed_protocol (ss : List Session) (h : List Event) (hw : wellFormedB ss h = true)
    (stations : List Station) (hn : stations.Nodup) (early : Bool) (st0 : Sess → Option Station)
    (cs : Nat → Nat) (full : Nat → Sess → Bool) (n : Nat) :
    ∃ s, (Net.init stations early st0).run cs (simSteps full 0 n h) = .ok s ∧
      Reached s (evProj (simSteps full 0 n h)) ∧
      ((h = [] ∨ 0 < n) → (∀ e ∈ h, e.ts < (n : Int)) → evProj (simSteps full 0 n h) = h) := by
  have hwf := wellFormedB_WFHist hw
  obtain ⟨rest, hr⟩ := evProj_simSteps_prefix full n 0 h
  have hwf' : WFHist (evProj (simSteps full 0 n h)) := by
    rw [hr] at hwf; exact hwf.of_append
  obtain ⟨s, hs, hreach⟩ := no_error stations early st0 cs _ hn hwf'
  exact ⟨s, hs, hreach, fun h0 hts => evProj_simSteps full n 0 h h0 (by simpa using hts)⟩

/-- a concrete well-formed history: one station's worth of contention, ties at 0 and 2 -/
example : wellFormedB [⟨"a", 0, 2⟩, ⟨"b", 0, 2⟩, ⟨"c", 1, 3⟩]
    [⟨0, .plugin, "b"⟩, ⟨0, .plugin, "a"⟩, ⟨1, .plugin, "c"⟩, ⟨2, .unplug, "a"⟩, ⟨2, .unplug, "b"⟩,
     ⟨3, .unplug, "c"⟩] = true := by decide

/-- … so `Reached` states with waiting EVs exist (one station, three overlapping sessions) -/
example : ∃ s, Reached s [⟨0, .plugin, "b"⟩, ⟨0, .plugin, "a"⟩, ⟨1, .plugin, "c"⟩, ⟨2, .unplug, "a"⟩] := by
  have hw : wellFormedB [⟨"a", 0, 2⟩, ⟨"b", 0, 2⟩, ⟨"c", 1, 3⟩]
    [⟨0, .plugin, "b"⟩, ⟨0, .plugin, "a"⟩, ⟨1, .plugin, "c"⟩, ⟨2, .unplug, "a"⟩, ⟨2, .unplug, "b"⟩,
     ⟨3, .unplug, "c"⟩] = true := by decide
  have hwf := wellFormedB_WFHist hw
  have hwf' : WFHist [⟨0, .plugin, "b"⟩, ⟨0, .plugin, "a"⟩, ⟨1, .plugin, "c"⟩, ⟨2, .unplug, "a"⟩] :=
    WFHist.of_append (b := [⟨2, .unplug, "b"⟩, ⟨3, .unplug, "c"⟩]) hwf
  obtain ⟨s, _, hr⟩ := no_error ["A"] true (fun _ => none) (fun _ => 0)
    [.ev ⟨0, .plugin, "b"⟩, .ev ⟨0, .plugin, "a"⟩, .post (fun _ => true), .ev ⟨1, .plugin, "c"⟩,
     .post (fun _ => true), .ev ⟨2, .unplug, "a"⟩] (by decide) (by simpa [evProj] using hwf')
  exact ⟨s, by simpa [evProj] using hr⟩

/-- Every present EV is in exactly one place — on exactly one station or in the waiting queue,
    never both; no station holds two EVs (an EV occupies at most one station); no EV is twice
    in the queue; and only present EVs are anywhere. -/
theorem place_unique {s : Net} {hist : List Event} (h : Good s hist) :
    (∀ x, Present s x →
      (x ∈ s.waiting ∧ ∀ st, s.occ st ≠ some x) ∨
      (x ∉ s.waiting ∧ ∃ st, st ∈ s.stations ∧ s.occ st = some x ∧ ∀ st', s.occ st' = some x → st' = st)) ∧
    (∀ st st' x, s.occ st = some x → s.occ st' = some x → st = st') ∧
    s.waiting.Nodup ∧
    (∀ x, (x ∈ s.waiting ∨ ∃ st, s.occ st = some x) → Present s x) := by
  obtain ⟨hi, _⟩ := h
  have hw := hi.mem_waiting
  have ho := hi.occ_iff
  refine ⟨?_, ?_, hi.waiting_nodup, ?_⟩
  · intro x ⟨ha, hd, he⟩
    cases hst : (s.ev x).station with
    | none =>
      left
      refine ⟨(hw x).2 ⟨ha, hd, hst⟩, fun st hc => ?_⟩
      have := ((ho st x).1 hc).2.1; rw [hst] at this; cases this
    | some st =>
      right
      have hm := hi.st_mem x st ha hst
      refine ⟨fun hc => ?_, st, hm, (ho st x).2 ⟨hm, hst, ha, hd, he⟩, fun st' hc => ?_⟩
      · have := ((hw x).1 hc).2.2; rw [hst] at this; cases this
      · have := ((ho st' x).1 hc).2.1; rw [hst] at this; exact (Option.some.inj this).symm
  · intro st st' x h1 h2
    have a := ((ho st x).1 h1).2.1
    have b := ((ho st' x).1 h2).2.1
    exact Option.some.inj (a.symm.trans b)
  · intro x hx
    rcases hx with hx | ⟨st, hx⟩
    · obtain ⟨ha, hd, hst⟩ := (hw x).1 hx
      refine ⟨ha, hd, ?_⟩
      by_contra hc
      have := (hi.early_imp x (by simpa using hc)).2
      rw [hst] at this; simp at this
    · obtain ⟨_, _, ha, hd, he⟩ := (ho st x).1 hx
      exact ⟨ha, hd, he⟩

/-- Nobody waits while a station is free — after every step of every history, in particular
    after each unplug and each early departure (where the code re-admits). -/
theorem no_wait_while_free {s : Net} {hist : List Event} (h : Good s hist)
    (hw : s.waiting ≠ []) : s.free = [] := by
  obtain ⟨hi, _⟩ := h
  simp only [Net.free, List.filter_eq_nil_iff]
  intro st hst
  have := hi.no_wait_free hw st hst
  cases ho : s.occ st <;> simp_all

/-- FIFO.  (1) The queue always is the list of EVs without a station in ARRIVAL order
    (`arrivals` = order of `ev_history`).  (2) Whenever the occupant `x` of a station leaves
    (departure or early departure) while somebody waits, the unplug succeeds, exactly the HEAD
    of the queue — the earliest arrival still waiting — gets that station and the rest of the
    queue keeps its order.  (Nobody else is ever admitted from the queue: `plugin` only
    appends, and arrivals find a free station only when the queue is empty, by
    `no_wait_while_free`.) -/
theorem fifo_admission {s : Net} {hist : List Event} (h : Good s hist) :
    s.waiting = s.arrivals.filter s.waits ∧
    ∀ x y w st, s.occ st = some x → s.waiting = y :: w →
      ∃ s1, s.unplug (s.ev x).station x = .ok s1 ∧ s1.waiting = w ∧ s1.occ st = some y ∧
        (s1.ev y).station = some st ∧ s1.swaps = s.swaps + 1 := by
  obtain ⟨hi, _⟩ := h
  refine ⟨hi.fifo, ?_⟩
  intro x y w st ho hwq
  refine ⟨_, hi.unplug_swap x y w st ho hwq, rfl, by simp, by simp, rfl⟩

/-- For an EV whose unplug event is still to come, `station_id is None` exactly when it is in
    the waiting queue, and otherwise its station id is a registered station: so the simulator's
    `unplug(ev.station_id, ev.session_id)` never reaches the `KeyError` branch (see `no_error`). -/
theorem waiting_iff_station_none {s : Net} {hist : List Event} (h : Good s hist) (x : Sess)
    (ha : (s.ev x).arrived = true) (hd : (s.ev x).departed = false) :
    (x ∈ s.waiting ↔ (s.ev x).station = none) ∧
    (∀ st, (s.ev x).station = some st → st ∈ s.stations) := by
  obtain ⟨hi, _⟩ := h
  refine ⟨⟨fun hx => ((hi.mem_waiting x).1 hx).2.2, fun hst => (hi.mem_waiting x).2 ⟨ha, hd, hst⟩⟩,
    fun st hst => hi.st_mem x st ha hst⟩

/-- The counters count what they say, over the EVs that arrived: `never_charged` = EVs that
    departed without ever having been attached to a station (i.e. that left from the queue);
    `swaps` = EVs that were queued and later got a station; `early_unplug` = EVs unplugged by
    post_charging_update; and the number of random draws = arrivals that were not queued. -/
theorem never_charged_counts {s : Net} {hist : List Event} (h : Good s hist) :
    s.neverCharged = s.arrivals.countP (fun x => (s.ev x).departed && !(s.ev x).plugged) ∧
    s.swaps = s.arrivals.countP (fun x => (s.ev x).queued && (s.ev x).plugged) ∧
    s.earlyUnplug = s.arrivals.countP (fun x => (s.ev x).early) ∧
    s.draws = s.arrivals.countP (fun x => !(s.ev x).queued) ∧
    s.arrivals.Nodup ∧
    (∀ x, x ∈ s.arrivals ↔ ∃ e ∈ hist, e.kind = .plugin ∧ e.sess = x) ∧
    (∀ x, (s.ev x).plugged = false ↔ ((s.ev x).arrived = false ∨ (s.ev x).station = none)) := by
  obtain ⟨hi, tr⟩ := h
  refine ⟨hi.never_eq, hi.swaps_eq, hi.early_eq, hi.draws_eq, hi.arr_nodup,
    fun x => (hi.arr_iff x).trans (tr.arrived_iff x), fun x => ?_⟩
  have := hi.plugged_iff x
  cases hp : (s.ev x).plugged <;> cases ha : (s.ev x).arrived <;> cases hs : (s.ev x).station <;>
    simp_all

/-- When every plugged-in session of the history has also been unplugged (the end of a run),
    no station is occupied and nobody waits. -/
theorem all_gone_at_end {s : Net} {hist : List Event} (h : Good s hist)
    (hall : ∀ e ∈ hist, e.kind = .plugin → ∃ u ∈ hist, u.kind = .unplug ∧ u.sess = e.sess) :
    s.waiting = [] ∧ ∀ st, s.occ st = none := by
  obtain ⟨hi, tr⟩ := h
  have gone : ∀ x, (s.ev x).arrived = true → (s.ev x).departed = true := by
    intro x ha
    obtain ⟨e, he, hk, hs⟩ := (tr.arrived_iff x).1 ha
    obtain ⟨u, hu, huk, hus⟩ := hall e he hk
    exact (tr.departed_iff x).2 ⟨u, hu, huk, hus.trans hs⟩
  constructor
  · rw [List.eq_nil_iff_forall_not_mem]
    intro x hx
    obtain ⟨ha, hd, _⟩ := (hi.mem_waiting x).1 hx
    rw [gone x ha] at hd; cases hd
  · intro st
    cases ho : s.occ st with
    | none => rfl
    | some x =>
      obtain ⟨_, _, ha, hd, _⟩ := (hi.occ_iff st x).1 ho
      rw [gone x ha] at hd; cases hd

/-- The later unplug event of an EV that already left early changes nothing in the network
    (whether its old station is empty or meanwhile taken by somebody else). -/
theorem stale_unplug_noop {s : Net} {hist : List Event} (h : Good s hist) (x : Sess)
    (he : (s.ev x).early = true) : s.unplug (s.ev x).station x = .ok s := by
  obtain ⟨hi, _⟩ := h
  obtain ⟨ha, hsome⟩ := hi.early_imp x he
  have hxw : x ∉ s.waiting := by
    intro hc; have := ((hi.mem_waiting x).1 hc).2.2; rw [this] at hsome; simp at hsome
  cases hst : (s.ev x).station with
  | none => rw [hst] at hsome; simp at hsome
  | some st =>
    have hm := hi.st_mem x st ha hst
    unfold Net.unplug
    rw [if_neg hxw]
    simp only [if_pos hm]
    cases ho : s.occ st with
    | none => rfl
    | some z =>
      simp only
      have hxz : x ≠ z := by
        intro e; subst e
        have := ((hi.occ_iff st x).1 ho).2.2.2.2
        rw [he] at this; cases this
      rw [if_neg hxz]

/-- Reproducibility: the result of a run depends on the stream of random choices only through
    the draws actually made.  `draws` never decreases, and two streams that agree on the first
    `s'.draws` entries give the same run (same final state, hence — applied to every prefix of
    the steps — the same trace).  With `random.seed` fixed the draws are fixed. -/
theorem deterministic_given_choices (cs cs' : Nat → Nat) (s s' : Net) (steps : List Step)
    (hrun : s.run cs steps = .ok s') (hagree : ∀ k, s.draws ≤ k → k < s'.draws → cs k = cs' k) :
    s.run cs' steps = .ok s' ∧ s.draws ≤ s'.draws :=
  ⟨run_det cs cs' steps s s' hrun hagree, run_draws_mono cs steps s s' hrun⟩

/-- the hypothesis is satisfiable non-trivially: streams that differ beyond the draws made -/
example : ∃ cs cs' : Nat → Nat, cs ≠ cs' ∧ ∀ k, 0 ≤ k → k < 2 → cs k = cs' k :=
  ⟨fun _ => 0, fun k => if k < 2 then 0 else 1, by
    intro h; have := congrFun h 5; simp at this, by intro k _ hk; simp [hk]⟩

/-- Starvation freedom.  Let `y` wait at position `i = s.waiting.idxOf y` in a reached state and
    let the run continue with ANY steps (well-formed continuation).  (1) While `y` is still
    waiting its position has dropped by at least the number of vacating events so far
    (`vacCount`: unplug events of EVs that hold a station, and early departures).  (2) So after
    `i + 1` vacating events `y` is no longer waiting; and if its own unplug event is not among
    the steps (it did not depart first), it has been attached to a station. -/
theorem starvation_free {s s' : Net} {hist : List Event} (h : Good s hist) (cs : Nat → Nat)
    (steps : List Step) (hwf : WFHist (hist ++ evProj steps)) (y : Sess) (hy : y ∈ s.waiting)
    (hrun : s.run cs steps = .ok s') :
    (y ∈ s'.waiting → s'.waiting.idxOf y + vacCount cs s steps ≤ s.waiting.idxOf y) ∧
    (s.waiting.idxOf y + 1 ≤ vacCount cs s steps → y ∉ s'.waiting ∧
      ((∀ e ∈ evProj steps, ¬(e.kind = .unplug ∧ e.sess = y)) → (s'.ev y).plugged = true)) := by
  obtain ⟨hi, tr⟩ := h
  have hadv := run_advance cs y steps hist s s' hi tr hwf hy hrun
  refine ⟨hadv, fun hv => ?_⟩
  have hnw : y ∉ s'.waiting := fun hc => by have := hadv hc; omega
  refine ⟨hnw, fun hstay => ?_⟩
  obtain ⟨s'', hs'', hi', tr'⟩ := run_good cs steps hist s hi tr hwf
  rw [hrun] at hs''; cases hs''
  obtain ⟨ha, hd, _⟩ := (hi.mem_waiting y).1 hy
  have ha' : (s'.ev y).arrived = true := by
    rw [tr'.arrived_iff]
    obtain ⟨a, ha1, hk⟩ := (tr.arrived_iff y).1 ha
    exact ⟨a, List.mem_append_left _ ha1, hk⟩
  have hd' : (s'.ev y).departed = false := by
    by_contra hc
    obtain ⟨a, ha1, hk, hs1⟩ := (tr'.departed_iff y).1 (by simpa using hc)
    rcases List.mem_append.1 ha1 with ha1 | ha1
    · have := (tr.departed_iff y).2 ⟨a, ha1, hk, hs1⟩
      rw [hd] at this; cases this
    · exact hstay a ha1 ⟨hk, hs1⟩
  rw [hi'.plugged_iff]
  refine ⟨ha', ?_⟩
  cases hst : (s'.ev y).station with
  | none => exact absurd ((hi'.mem_waiting y).2 ⟨ha', hd', hst⟩) hnw
  | some st => rfl

/-- a vacating event, concretely: the unplug of an EV that sits on the station named by its id -/
example : vacOf { Net.init ["A"] true (fun _ => none) with
      occ := fun _ => some "a", ev := fun _ => { station := some "A" }, waiting := ["b"] }
    (.ev ⟨2, .unplug, "a"⟩) = 1 := by decide

/-- End of a simulator run: for sessions with distinct ids, 0 ≤ arrival < departure and ANY
    key-sorted processing order, after `horizon` (or more) periods of `simSteps` — every choice
    stream, every `fully_charged` input, early departure on or off — the run has not raised,
    nobody is waiting and no station is occupied. -/
theorem all_gone_after_horizon (ss : List Session) (h : List Event) (hw : wellFormedB ss h = true)
    (hpos : ∀ e ∈ h, 0 ≤ e.ts) (stations : List Station) (hn : stations.Nodup) (early : Bool)
    (st0 : Sess → Option Station) (cs : Nat → Nat) (full : Nat → Sess → Bool) (n : Nat)
    (hhor : horizon h ≤ n) :
    ∃ s, (Net.init stations early st0).run cs (simSteps full 0 n h) = .ok s ∧
      s.waiting = [] ∧ ∀ st, s.occ st = none := by
  obtain ⟨s, hs, hreach, hev⟩ := wellFormed_protocol ss h hw stations hn early st0 cs full n
  have hts : ∀ e ∈ h, e.ts < (n : Int) := by
    intro e he; have := ts_lt_horizon h e he; omega
  have h0 : h = [] ∨ 0 < n := by
    cases h with
    | nil => exact Or.inl rfl
    | cons a t =>
      right
      have := hts a (by simp); have := hpos a (by simp); omega
  rw [hev h0 hts] at hreach
  exact ⟨s, hs, all_gone_at_end (reached_inv hreach) (wellFormedB_complete hw)⟩

/-- Tie to C01: what `Acn.C01.history_sorted` / `history_complete` prove about `event_history`
    of the event loop (key-sorted; a permutation of the scenario's plug-in, unplug and recompute
    events) implies C19's history hypothesis — using distinct ids and arrival < departure only,
    not the per-station non-overlap clause of C01's `Valid`. -/
theorem eventCore_history_wellFormed (cfg : EventCore.Cfg) (h : List Event)
    (ids : (cfg.sessions.map (·.id)).Nodup) (ad : ∀ x ∈ cfg.sessions, x.arrival < x.departure)
    (hsorted : h.Pairwise (fun a b => a.keyLe b = true))
    (hcomplete : h.Perm (cfg.sessions.map EventCore.plugEv ++ cfg.sessions.map EventCore.unplugEv ++
      cfg.recomputes.map EventCore.recEv)) : WFHist h :=
  wfHist_of_eventCore cfg h ids ad hsorted hcomplete

example : WFHist [⟨0, .plugin, "a"⟩, ⟨0, .recompute, "r"⟩, ⟨1, .plugin, "b"⟩, ⟨2, .unplug, "a"⟩,
    ⟨2, .unplug, "b"⟩] :=
  eventCore_history_wellFormed
    { stations := ["S"], sessions := [⟨"a", "S", 0, 2⟩, ⟨"b", "S", 1, 2⟩], recomputes := [(0, "r")],
      maxRecompute := none } _ (by decide) (by decide) (by decide) (by decide)

/-! ### end to end: the whole run loop, real heap tie order, stochastic network -/

open Acn.EventCore in
/-- END TO END.  For every scenario with distinct session ids and `0 ≤ arrival < departure`
    (`ValidQ`: no pre-assigned-station clauses), duplicate-free stations, every choice stream
    `cs`, every `fully_charged` input, early departure on or off, any scheduler / pilot
    application that does not raise: the run loop of `Simulator.run` — sim-core's `runG` with
    CPython's array heap `heapQ` (the REAL order among equal-key events) and the StochasticNetwork
    model, `post_charging_update` once per period (`runGP`) — after ANY number `n` of iterations
    (i.e. at every loop head, and at the end)
      * has raised nothing; the iteration counter is `min n horizon`;
      * the network state is `Good` for the `event_history` so far, so `place_unique`,
        `no_wait_while_free`, `fifo_admission`, `waiting_iff_station_none`,
        `never_charged_counts`, `stale_unplug_noop` apply verbatim (spelled out in
        `end_to_end_properties`); the history is key-sorted;
      * once `n ≥ horizon`: the queue is empty, the loop has stopped at `horizon`, every
        plugged-in session has been unplugged, nobody waits and no station is occupied. -/
theorem end_to_end (cfg : Cfg) (hq : ValidQ cfg) (hst : cfg.stations.Nodup) (early : Bool)
    (cs : Nat → Nat) (full : Nat → Sess → Bool) {sched apply : CoreG Net → Option EventCore.Err}
    (hs : ∀ g, sched g = none) (ha : ∀ g, apply g = none) (n : Nat) :
    ∃ g, runGP heapQ (stochasticNet cs) (stochasticPost full) cfg sched apply n
        (initG heapQ cfg (net0 cfg early)) = (g, none) ∧
      g.core.iter = min n (EventCore.horizon cfg) ∧
      Good g.net g.core.eventHist ∧
      g.core.eventHist.Pairwise (fun a b => a.keyLe b = true) ∧
      (EventCore.horizon cfg ≤ n →
        g.core.pending = [] ∧ g.core.resolve = false ∧
        (∀ e ∈ g.core.eventHist, e.kind = .plugin →
          ∃ u ∈ g.core.eventHist, u.kind = .unplug ∧ u.sess = e.sess) ∧
        g.net.waiting = [] ∧ ∀ st, g.net.occ st = none) := by
  obtain ⟨h0, g0⟩ := initG_inv (σ := Net) hq heapQ_ok (net0 cfg early)
  obtain ⟨g, hr, hI, hP⟩ := runGP_spec hq heapQ_ok (stochastic_noFail cfg hq cs full) hs ha n 0
    (initG heapQ cfg (net0 cfg early)) h0 g0 (loopInv_init cfg hst early) (Nat.zero_le _)
  have hgood : Good g.net g.core.eventHist := ⟨hP.inv, hP.track⟩
  refine ⟨g, hr, by simpa using hI.iter, hgood, hI.hist_sorted, fun hn => ?_⟩
  rw [Nat.zero_add, Nat.min_eq_right hn] at hI
  have hp : g.core.pending = [] := by
    by_contra h
    exact absurd ((pendingG_ne_nil_iff hq hI).1 h) (lt_irrefl _)
  have hall := hist_complete_at_horizon hq hI
  exact ⟨hp, hI.resolve, hall, all_gone_at_end hgood hall⟩

open Acn.EventCore in
/-- the C19 conclusions at every loop head of the composed run loop, spelled out -/
theorem end_to_end_properties (cfg : Cfg) (hq : ValidQ cfg) (hst : cfg.stations.Nodup) (early : Bool)
    (cs : Nat → Nat) (full : Nat → Sess → Bool) {sched apply : CoreG Net → Option EventCore.Err}
    (hs : ∀ g, sched g = none) (ha : ∀ g, apply g = none) (n : Nat) :
    ∃ g, runGP heapQ (stochasticNet cs) (stochasticPost full) cfg sched apply n
        (initG heapQ cfg (net0 cfg early)) = (g, none) ∧
      -- no station holds an EV that is elsewhere; nobody queued twice; nobody queued AND plugged
      (∀ st st' x, g.net.occ st = some x → g.net.occ st' = some x → st = st') ∧
      g.net.waiting.Nodup ∧
      (∀ x, x ∈ g.net.waiting → ∀ st, g.net.occ st ≠ some x) ∧
      -- every present EV is somewhere
      (∀ x, Present g.net x → x ∈ g.net.waiting ∨ ∃ st ∈ g.net.stations, g.net.occ st = some x) ∧
      -- nobody waits while a station is free; the queue is in arrival order
      (g.net.waiting ≠ [] → g.net.free = []) ∧
      g.net.waiting = g.net.arrivals.filter g.net.waits ∧
      -- the counter counts the EVs that departed without ever being attached
      g.net.neverCharged =
        g.net.arrivals.countP (fun x => (g.net.ev x).departed && !(g.net.ev x).plugged) := by
  obtain ⟨g, hr, _, hgood, _, _⟩ := end_to_end cfg hq hst early cs full hs ha n
  obtain ⟨hpu1, hpu2, hpu3, hpu4⟩ := place_unique hgood
  refine ⟨g, hr, hpu2, hpu3, ?_, ?_, no_wait_while_free hgood, (fifo_admission hgood).1,
    (never_charged_counts hgood).1⟩
  · intro x hx st hc
    rcases hpu1 x (hpu4 x (Or.inl hx)) with ⟨_, h2⟩ | ⟨h1, _⟩
    · exact h2 st hc
    · exact h1 hx
  · intro x hx
    rcases hpu1 x hx with ⟨h1, _⟩ | ⟨_, st, hm, ho, _⟩
    · exact Or.inl h1
    · exact Or.inr ⟨st, hm, ho⟩

/-
  FULL STATEMENT: `end_to_end` for the full simulator model `Acn.Sim` (pilot matrix, EVSEs,
  batteries, rates) with `StochasticNetwork` in place of `ChargingNetwork` — PROVED below as
  `end_to_end_sim` (model `AcnModel/SimStochastic.lean`, loop `runGM` with mutating, possibly raising
  scheduler / apply stages).  What follows here is the intermediate statement that is still in use
  (driver `loop_ledger`): `fully_charged` is not an input, the charging stage of every period is
  modelled inside the loop as ANY function `led.charge t net ledger` of the period, of who is
  plugged where, and of the ledger so far (any scheduler, any pilots, any battery law), and
  `fully_charged` is read off the ledger (`led.full`); e.g. `energyLedger requested rate eps`:
  delivered energy per session, full when `requested - delivered ≤ eps` (ev.py:100-112).  It keeps
  its name `_partial` because a `Ledger` cannot raise and does not see `_resolve`, i.e. it cannot
  express the scheduler stage of the real loop; `end_to_end_sim` has no such restriction.
-/
open Acn.EventCore in
theorem end_to_end_ledger_partial {L : Type} (led : Ledger L) (l0 : L) (cfg : Cfg) (hq : ValidQ cfg)
    (hst : cfg.stations.Nodup) (early : Bool) (cs : Nat → Nat)
    {sched apply : CoreG (Net × L) → Option EventCore.Err}
    (hs : ∀ g, sched g = none) (ha : ∀ g, apply g = none) (n : Nat) :
    ∃ g, runGP heapQ (stochasticNetL cs) (stochasticPostL led) cfg sched apply n
        (initG heapQ cfg (net0 cfg early, l0)) = (g, none) ∧
      g.core.iter = min n (EventCore.horizon cfg) ∧
      Good g.net.1 g.core.eventHist ∧
      g.core.eventHist.Pairwise (fun a b => a.keyLe b = true) ∧
      (EventCore.horizon cfg ≤ n →
        g.core.pending = [] ∧ g.core.resolve = false ∧
        (∀ e ∈ g.core.eventHist, e.kind = .plugin →
          ∃ u ∈ g.core.eventHist, u.kind = .unplug ∧ u.sess = e.sess) ∧
        g.net.1.waiting = [] ∧ ∀ st, g.net.1.occ st = none) := by
  obtain ⟨h0, g0⟩ := initG_inv (σ := Net × L) hq heapQ_ok (net0 cfg early, l0)
  obtain ⟨g, hr, hI, hP⟩ := runGP_spec hq heapQ_ok (stochastic_noFailL cfg hq cs led) hs ha n 0
    (initG heapQ cfg (net0 cfg early, l0)) h0 g0 (loopInv_init cfg hst early) (Nat.zero_le _)
  have hgood : Good g.net.1 g.core.eventHist := ⟨hP.inv, hP.track⟩
  refine ⟨g, hr, by simpa using hI.iter, hgood, hI.hist_sorted, fun hn => ?_⟩
  rw [Nat.zero_add, Nat.min_eq_right hn] at hI
  have hp : g.core.pending = [] := by
    by_contra h
    exact absurd ((pendingG_ne_nil_iff hq hI).1 h) (lt_irrefl _)
  have hall := hist_complete_at_horizon hq hI
  exact ⟨hp, hI.resolve, hall, all_gone_at_end hgood hall⟩

/-- a concrete ledger: requests in ℚ, a constant 0.55 kWh per period for whoever is plugged in -/
example : Ledger (Sess → Rat) :=
  energyLedger (fun x => if x = "a" then (3 : Rat) / 10 else 60) (fun _ _ _ _ => (11 : Rat) / 20)
    ((1 : Rat) / 1000)

/-- the hypotheses are satisfiable: three overlapping sessions, all pre-assigned to the one station -/
example : EventCore.ValidQ
    { stations := ["S0"], sessions := [⟨"a", "S0", 0, 4⟩, ⟨"b", "S0", 1, 3⟩, ⟨"c", "S0", 1, 4⟩],
      recomputes := [(1, "r0")], maxRecompute := none } := by
  constructor <;> simp

/-! ### end to end, FULL simulator: pilots, EVSEs, batteries, energies on the stochastic network -/

section sim
variable {K : Type} [Add K] [Sub K] [Mul K] [Div K] [Neg K] [LT K] [LE K]
  [DecidableLT K] [DecidableLE K] [OfNat K 0] [OfNat K 1] [NatCast K] [HasExp K]

open Acn.EventCore in
/-- END TO END, FULL SIMULATOR.  `SimSt.run` is `Simulator.run` with a `StochasticNetwork`: sim-core's
    loop with CPython's heap, the scheduler stage and the apply stage of `Acn.Sim` themselves
    (`Sim.schedStage`; `Sim.applyStage` = `_increase_width`, `update_pilots` over the stations in order
    with the EV that the stochastic network has plugged in THERE, `_store_actual_charging_rates`),
    `EVSE.unplug` resetting the pilot, and `post_charging_update` with `EV.fully_charged` COMPUTED from
    the energy the model itself has delivered (`SimSt.fullOf`, threshold `cfg.fullEps`).
    For EVERY configuration with distinct session ids, `0 ≤ arrival < departure` (`ValidQ`) and
    duplicate-free station ids — any EVSE kinds, voltages, batteries (ideal / two-stage, any noise
    stream), requests, period, tolerances, over any carrier `K` —, every choice stream `cs`, early
    departure on or off, EVERY scheduler `sched` (it may look at the whole `View`, return anything,
    raise), after ANY number `n` of iterations:
      * the network state is `Good` for the `event_history` so far (so `place_unique`,
        `no_wait_while_free`, `fifo_admission`, `waiting_iff_station_none`, `never_charged_counts`,
        `stale_unplug_noop` apply; spelled out in `end_to_end_sim_properties`) — also in the state a
        raising run leaves behind;
      * if nothing was raised (`r = none`): the iteration counter is `min n horizon`, the history is
        key-sorted, and once `n ≥ horizon` the queue is empty, the loop has stopped at `horizon`, every
        plugged-in session has been unplugged, nobody waits and no station is occupied;
      * if something was raised, it was raised by the scheduler stage or by the apply stage (a failing
        scheduler, an invalid schedule, `InvalidRateError`, a battery guard) before the horizon —
        NEVER by the network: no `KeyError` from `unplug`, no `StationOccupiedError`, whatever the
        energies make `fully_charged` say. -/
theorem end_to_end_sim (cfg : Sim.Cfg K) (hq : ValidQ cfg.core) (hst : (cfg.stations.map (·.id)).Nodup)
    (early : Bool) (cs : Nat → Nat) (sched : Sim.View K → Except EventCore.Err (Sim.Schedule K)) (n : Nat) :
    ∃ g r, SimSt.run cs cfg sched n (SimSt.init cfg early) = (g, r) ∧
      Good g.net.1 g.core.eventHist ∧
      (r = none →
        g.core.iter = min n (EventCore.horizon cfg.core) ∧
        g.core.eventHist.Pairwise (fun a b => a.keyLe b = true) ∧
        (EventCore.horizon cfg.core ≤ n →
          g.core.pending = [] ∧ g.core.resolve = false ∧
          (∀ e ∈ g.core.eventHist, e.kind = .plugin →
            ∃ u ∈ g.core.eventHist, u.kind = .unplug ∧ u.sess = e.sess) ∧
          g.net.1.waiting = [] ∧ ∀ st, g.net.1.occ st = none)) ∧
      (∀ e, r = some e → g.core.iter < min n (EventCore.horizon cfg.core) ∧
        (RaisedBy (SimSt.schedS cfg sched) e ∨ RaisedBy (SimSt.applyS cfg) e)) := by
  obtain ⟨h0, g0⟩ := initG_inv (σ := SimSt.St K) hq heapQ_ok (net0 cfg.core early, SimSt.numOf (Sim.init cfg))
  obtain ⟨g, r, hr, hP, hI, hE⟩ := runGM_spec hq heapQ_ok (SimSt.sim_noFail cfg hq cs)
    (SimSt.schedS_keeps cfg sched (LoopInv cfg.core)) (SimSt.applyS_keeps cfg (LoopInv cfg.core)) n 0
    (SimSt.init cfg early) h0 g0 (loopInv_init cfg.core hst early) (Nat.zero_le _)
  have hgood : Good g.net.1 g.core.eventHist := ⟨hP.inv, hP.track⟩
  refine ⟨g, r, hr, hgood, fun hn => ?_, fun e he => by simpa using hE e he⟩
  have hI := hI hn
  refine ⟨by simpa using hI.iter, hI.hist_sorted, fun hh => ?_⟩
  rw [Nat.zero_add, Nat.min_eq_right hh] at hI
  have hp : g.core.pending = [] := by
    by_contra h
    exact absurd ((pendingG_ne_nil_iff hq hI).1 h) (lt_irrefl _)
  have hall := hist_complete_at_horizon hq hI
  exact ⟨hp, hI.resolve, hall, all_gone_at_end hgood hall⟩

/-- the C19 conclusions in every state the full simulator reaches (every loop head, and the state
    in which a raising scheduler / pilot stage stops the run), spelled out -/
theorem end_to_end_sim_properties (cfg : Sim.Cfg K) (hq : EventCore.ValidQ cfg.core)
    (hst : (cfg.stations.map (·.id)).Nodup) (early : Bool) (cs : Nat → Nat)
    (sched : Sim.View K → Except EventCore.Err (Sim.Schedule K)) (n : Nat) :
    ∃ g r, SimSt.run cs cfg sched n (SimSt.init cfg early) = (g, r) ∧
      (∀ st st' x, g.net.1.occ st = some x → g.net.1.occ st' = some x → st = st') ∧
      g.net.1.waiting.Nodup ∧
      (∀ x, x ∈ g.net.1.waiting → ∀ st, g.net.1.occ st ≠ some x) ∧
      (∀ x, Present g.net.1 x → x ∈ g.net.1.waiting ∨ ∃ st ∈ g.net.1.stations, g.net.1.occ st = some x) ∧
      (g.net.1.waiting ≠ [] → g.net.1.free = []) ∧
      g.net.1.waiting = g.net.1.arrivals.filter g.net.1.waits ∧
      g.net.1.neverCharged =
        g.net.1.arrivals.countP (fun x => (g.net.1.ev x).departed && !(g.net.1.ev x).plugged) := by
  obtain ⟨g, r, hr, hgood, _, _⟩ := end_to_end_sim cfg hq hst early cs sched n
  obtain ⟨hpu1, hpu2, hpu3, hpu4⟩ := place_unique hgood
  refine ⟨g, r, hr, hpu2, hpu3, ?_, ?_, no_wait_while_free hgood, (fifo_admission hgood).1,
    (never_charged_counts hgood).1⟩
  · intro x hx st hc
    rcases hpu1 x (hpu4 x (Or.inl hx)) with ⟨_, h2⟩ | ⟨h1, _⟩
    · exact h2 st hc
    · exact h1 hx
  · intro x hx
    rcases hpu1 x hx with ⟨h1, _⟩ | ⟨_, st, hm, ho, _⟩
    · exact Or.inl h1
    · exact Or.inr ⟨st, hm, ho⟩

end sim

/-! ### the energy ledger of the stochastic run (C02's invariant on top of C19's) -/

section simenergy
variable {K : Type} [Field K] [LinearOrder K] [IsStrictOrderedRing K] [HasExp K]

open Acn.EventCore Acn.Ledger in
/-- ENERGY LEDGER of the full simulator on the stochastic network.  Over any linear ordered field,
    for every configuration as in `end_to_end_sim`, every choice stream, early departure on or off,
    every scheduler, after any number of iterations that raised nothing: with `occLog[τ][i]` the
    session the stochastic network had plugged in at station `i` while period `τ` was charged
    (written by `Sim.applyStage` from the network's occupancy),
      * every EV's delivered energy is Σ over the periods `τ < iteration` and the stations `i` WHERE
        IT SAT (wherever the random draws / the FIFO swaps put it, possibly nowhere: a waiting EV
        gets nothing) of `charging_rates[i, τ] · V_i / 1000 · period / 60`, and its battery gained
        exactly that;
      * a station that was vacant in period `τ` has `charging_rates[i, τ] = 0`; columns not yet
        simulated are 0; `peak` is the running maximum of the aggregate current. -/
theorem end_to_end_sim_energy (cfg : Sim.Cfg K) (hq : ValidQ cfg.core)
    (hst : (cfg.stations.map (·.id)).Nodup) (early : Bool) (cs : Nat → Nat)
    (sched : Sim.View K → Except EventCore.Err (Sim.Schedule K)) (n : Nat) :
    ∃ g r, SimSt.run cs cfg sched n (SimSt.init cfg early) = (g, r) ∧
      (r = none →
        g.net.2.occLog.length = g.core.iter ∧
        (∀ id e0 e, evIn cfg.evs id = some e0 → SimSt.evOf g id = some e →
          e.delivered - e0.delivered = sessionEnergy cfg g.net.2.rates g.net.2.occLog id g.core.iter ∧
          e.batt.charge - e0.batt.charge = e.delivered - e0.delivered) ∧
        (∀ τ i, τ < g.core.iter → i < cfg.stations.length → occAt g.net.2.occLog τ i = none →
          g.net.2.rates.get i τ = 0) ∧
        (∀ τ i, g.core.iter ≤ τ → g.net.2.rates.get i τ = 0) ∧
        g.net.2.peak = peakUpTo g.net.2.rates cfg.stations.length g.core.iter) := by
  obtain ⟨h0, g0⟩ := initG_inv (σ := SimSt.St K) hq heapQ_ok (net0 cfg.core early, SimSt.numOf (Sim.init cfg))
  obtain ⟨g, r, hr, _, hI, _⟩ := runGM_specJ hq heapQ_ok (SimSt.sim_noFail cfg hq cs)
    (SimSt.schedS_keeps cfg sched (LoopInv cfg.core)) (SimSt.applyS_keeps cfg (LoopInv cfg.core))
    (SimSt.ledger_keepsJ cfg hst cs sched) n 0
    (SimSt.init cfg early) h0 g0 (loopInv_init cfg.core hst early) (SimSt.ledgerJ_init cfg early) (Nat.zero_le _)
  refine ⟨g, r, hr, fun hn => ?_⟩
  have hL : LedgerQ cfg g.core.iter g.net.2.rates g.net.2.peak g.net.2.evs g.net.2.occLog := (hI hn).2
  exact ⟨hL.log_len, fun id e0 e h0 he => ⟨hL.sess id e0 e h0 he, (hL.gain id e0 e h0 he).symm⟩,
    hL.vacant, hL.future, hL.peak_eq⟩

end simenergy

section simex
local instance : HasExp ℚ := ⟨fun x => x⟩

/-- one station (1000 V, 60-minute periods, so 1 A for one period is 1 kWh), three overlapping
    sessions all carrying the station id "S0": `a` asks for 3 kWh and may draw 7 A, `b` leaves while it
    is still waiting, `c` takes over from `a` -/
def exSimCfg : Sim.Cfg ℚ :=
  { stations := [⟨"S0", .cont 0 (some 32), 1000⟩],
    evs := [{ session := "a", station := "S0", arrival := 0, departure := 4, estDeparture := 4, requested := 3,
              delivered := 0, rate := 0, batt := ⟨40, 5, 5, 7, 0, false, 0, 0, .continuous⟩ },
            { session := "b", station := "S0", arrival := 1, departure := 2, estDeparture := 2, requested := 9,
              delivered := 0, rate := 0, batt := ⟨10, 8, 8, 7, 0, false, 0, 0, .continuous⟩ },
            { session := "c", station := "S0", arrival := 1, departure := 4, estDeparture := 4, requested := 5,
              delivered := 0, rate := 0, batt := ⟨20, 2, 2, 4, 0, false, 0, 0, .continuous⟩ }],
    recomputes := [(1, "r0")], maxRecompute := some 1, period := 60, atolCont := 1 / 1000,
    atolDeadband := 1 / 1000, atolFinite := 1 / 1000, fullEps := 1 / 1000, noise := [] }

/-- 16 A for every active session, at the station where it sits NOW -/
def exSimSched : Sim.View ℚ → Except EventCore.Err (Sim.Schedule ℚ) :=
  fun v => .ok (v.active.map fun e => (e.station, [16]))

/-- the hypotheses of `end_to_end_sim` hold for it -/
example : EventCore.ValidQ exSimCfg.core ∧ (exSimCfg.stations.map (·.id)).Nodup := by
  refine ⟨?_, by decide +kernel⟩
  constructor <;> simp [exSimCfg, Sim.Cfg.core, Sim.sessionOf]

/-- … and the run is not trivial: with early departure, `a` has its 3 kWh after period 0
    (`fully_charged` computed: 3 - 7 ≤ 1/1000) but stays, because nobody waits; in period 1 `c` and `b`
    arrive (in the heap's order) and queue, `a` — no longer scheduled, 0 A — is unplugged early and `c`
    (FIFO) gets the station; `b` departs at 2 from the queue (never charged); the later unplug event of
    `a` is stale; nothing is raised, the loop stops at the horizon 5 with the site empty; the energies
    are the ones the batteries accept (7, 0, 4 + 4 kWh) -/
example :
    (SimSt.run (fun _ => 0) exSimCfg exSimSched 9 (SimSt.init exSimCfg true)).2 = none ∧
    (SimSt.run (fun _ => 0) exSimCfg exSimSched 9 (SimSt.init exSimCfg true)).1.core.iter = 5 ∧
    (SimSt.run (fun _ => 0) exSimCfg exSimSched 2 (SimSt.init exSimCfg true)).1.net.1.occ "S0" = some "c" ∧
    (SimSt.run (fun _ => 0) exSimCfg exSimSched 2 (SimSt.init exSimCfg true)).1.net.1.waiting = ["b"] ∧
    (SimSt.run (fun _ => 0) exSimCfg exSimSched 9 (SimSt.init exSimCfg true)).1.net.1.earlyUnplug = 1 ∧
    (SimSt.run (fun _ => 0) exSimCfg exSimSched 9 (SimSt.init exSimCfg true)).1.net.1.swaps = 1 ∧
    (SimSt.run (fun _ => 0) exSimCfg exSimSched 9 (SimSt.init exSimCfg true)).1.net.1.neverCharged = 1 ∧
    (SimSt.run (fun _ => 0) exSimCfg exSimSched 9 (SimSt.init exSimCfg true)).1.net.2.evs.map (·.delivered)
      = [7, 0, 8] ∧
    (SimSt.run (fun _ => 0) exSimCfg exSimSched 9 (SimSt.init exSimCfg true)).1.net.2.pilots.rows
      = [[16, 0, 16, 16, 0]] ∧
    (SimSt.run (fun _ => 0) exSimCfg exSimSched 9 (SimSt.init exSimCfg true)).1.net.2.rates.rows
      = [[7, 0, 4, 4, 0]] ∧
    -- the occupancy log `end_to_end_sim_energy` sums over: `a` sat on S0 in periods 0-1, `c` in 2-3
    (SimSt.run (fun _ => 0) exSimCfg exSimSched 9 (SimSt.init exSimCfg true)).1.net.2.occLog
      = [[some "a"], [some "a"], [some "c"], [some "c"], [none]] := by
  decide +kernel

/-- a raising scheduler stops the run in the period where it raises, with the network as it was -/
example :
    (SimSt.run (fun _ => 0) exSimCfg
      (fun v => if v.iter = 1 then .error .schedulerFailed else exSimSched v) 9 (SimSt.init exSimCfg true)).2
        = some .schedulerFailed ∧
    (SimSt.run (fun _ => 0) exSimCfg
      (fun v => if v.iter = 1 then .error .schedulerFailed else exSimSched v) 9 (SimSt.init exSimCfg true)).1.net.1.waiting
        = ["c", "b"] := by
  decide +kernel

end simex

end Acn.C19
