/-
  C15, end to end with C20: `acndata_events.generate_events` through the REAL client path
  (`DataClient.get_sessions_by_time` → pagination → `parse_dates` → `_convert_to_ev`).
  Property theorems only; helpers in `Lemmas/SessionsE2E.lean`.  The client side is C20's
  (`collect` over a page chain, `parse_dates_faithful`, `same_instant`), the converter side is
  C15's (`convertDoc`, `arrival_departure_spec`).  Carrier: any ordered field with a floor.
-/
import AcnModel.SessionsE2E
import AcnProofs.Lemmas.SessionsE2E
import AcnProofs.C15

namespace Acn.C15
open Acn Acn.HttpDate Acn.DataClient Acn.Sessions Acn.SessionsE2E Acn.SessionsL Acn.Evse

variable {K : Type} [Field K] [LinearOrder K] [IsStrictOrderedRing K] [FloorRing K]

/-- **End to end.**  Let the server answer the time-window query of `get_sessions_by_time(site,
    start, end)` by ANY finite chain of pages `ps` (any number of pages, any page sizes, empty
    pages included).  Whenever `generate_events` returns (i.e. builds its queue), then
    * it requested exactly the chain's URLs, starting with the time-window query, once each;
    * it produced exactly one EV — hence one `PluginEvent(ev.arrival, ev)` — per document the
      server sent, in server order;
    * each document carried a known `timezone`, RFC-1123 strings `connectionTime` /
      `disconnectTime` denoting instants `tc` / `td`, string ids, and its EV has those ids,
      `arrival = ⌊tc/(60·period)⌋ − ⌊start/(60·period)⌋` and
      `departure = ⌊td/(60·period)⌋ − ⌊start/(60·period)⌋` (after the `max_len` cap) — for
      every zone and offset rule (DST included), since the zone does not enter the instants. -/
theorem generate_events_end_to_end (zones : String → Option Zone) (base site : String)
    (start stop : Aware) (period V mp : K) (maxLen : Option Int) (bp : BattParams K) (ff : Bool)
    (fetch : String → Resp (RawSession K)) (fuel : Nat) (ps : List (Page (RawSession K)))
    (tr : Trace (Ev K)) (hp : 0 < period) (hs : 0 ≤ start.instant)
    (hchain : Chain base fetch
      (sessionsUrl base site (timeQuery (some start) (some stop) none false)) ps)
    (h : generateEvents zones base site start stop period V mp maxLen bp ff fetch fuel = .ok tr)
    (hstop : tr.stop = none) :
    validSite site = true ∧
    tr.urls = runUrls base (sessionsUrl base site (timeQuery (some start) (some stop) none false)) ps ∧
    List.Forall₂ (fun r e =>
      ∃ zname z sc tc sd td sid sp, Denotes zones r zname z sc tc sd td sid sp ∧
        e.session = sid ∧ e.station = sp ∧ e.estDeparture = e.departure ∧
        (0 ≤ tc → e.arrival =
          ⌊((tc : Int) : K) / (60 * period)⌋ - ⌊((start.instant : Int) : K) / (60 * period)⌋) ∧
        (0 ≤ td → e.departure = capDeparture e.arrival
          (⌊((td : Int) : K) / (60 * period)⌋ - ⌊((start.instant : Int) : K) / (60 * period)⌋) maxLen) ∧
        (tc ≤ td → (∀ L, maxLen = some L → 0 ≤ L) → e.arrival ≤ e.departure))
      (ps.flatMap (·.items)) tr.items ∧
    pluginEvents tr.items = tr.items.map (fun e => (e.arrival, e.session)) ∧
    (pluginEvents tr.items).length = (ps.flatMap (·.items)).length := by
  unfold generateEvents at h
  rw [periodIndex_pos hp] at h
  simp only at h
  unfold getSessions at h
  have h60 : (0 : K) < 60 * period := by positivity
  have hsK : (0 : K) ≤ ((start.instant : Int) : K) := by exact_mod_cast hs
  by_cases hv : validSite site = true
  · rw [if_pos hv] at h
    simp only at h
    injection h with h
    obtain ⟨hurls, hall⟩ := collect_ok_forall₂ _ hchain fuel tr h hstop
    refine ⟨hv, hurls, ?_, rfl, ?_⟩
    · refine hall.imp ?_
      intro r e hre
      obtain ⟨zname, z, sc, tc, sd, td, sid, sp, hden, hconv⟩ := convRaw_ok hre
      obtain ⟨ha, hd, he, hs1, hs2, -⟩ := convertDoc_ok hp hconv
      refine ⟨zname, z, sc, tc, sd, td, sid, sp, hden, hs1, hs2, he, ?_, ?_, ?_⟩
      · intro htc
        have : (0 : K) ≤ ((tc : Int) : K) := by exact_mod_cast htc
        rw [ha, pyTrunc_nonneg (div_nonneg this h60.le), pyTrunc_nonneg (div_nonneg hsK h60.le)]
      · intro htd
        have : (0 : K) ≤ ((td : Int) : K) := by exact_mod_cast htd
        rw [hd, pyTrunc_nonneg (div_nonneg this h60.le), pyTrunc_nonneg (div_nonneg hsK h60.le)]
      · intro hcd hL
        have hcd' : ((tc : Int) : K) ≤ ((td : Int) : K) := by exact_mod_cast hcd
        exact order_preserving _ _ period V mp maxLen bp ff e hp hL hcd' hconv
    · simp [pluginEvents, hall.length_eq]
  · rw [if_neg hv] at h
    simp at h

/-- what a well-formed ACN-Data session document is for the converter: a known zone, RFC-1123
    connection / disconnection strings with `connect ≤ disconnect`, a non-negative energy, ids that
    are not themselves dates, and no malformed time-series stamp -/
def WellFormedRaw (zones : String → Option Zone) (r : RawSession K) : Prop :=
  ∃ zname z sc tc sd td sid sp, Denotes zones r zname z sc tc sd td sid sp ∧ tc ≤ td ∧ 0 ≤ r.kWh ∧
    parseRfc1123 sid = none ∧ parseRfc1123 sp = none ∧
    ∀ k l, (k, Val.ts l) ∈ r.fields → ∀ s ∈ l, parseRfc1123 s ≠ none

/-- **End to end, total** (default batteries): for a valid site, ANY finite page chain of well-formed
    documents and enough fuel for its pages, `generate_events` does return — nothing on the way
    (site check, pagination, `parse_dates`, conversion, `Battery` constructor) raises — so the
    conclusions of `generate_events_end_to_end` hold for it unconditionally. -/
theorem generate_events_end_to_end_total (zones : String → Option Zone) (base site : String)
    (start stop : Aware) (period V mp : K) (maxLen : Option Int) (ff : Bool)
    (fetch : String → Resp (RawSession K)) (fuel : Nat) (ps : List (Page (RawSession K)))
    (hp : 0 < period) (hm : 0 ≤ mp) (hL : ∀ L, maxLen = some L → 0 ≤ L)
    (hsite : validSite site = true)
    (hchain : Chain base fetch
      (sessionsUrl base site (timeQuery (some start) (some stop) none false)) ps)
    (hfuel : ps.length ≤ fuel)
    (hdocs : ∀ p ∈ ps, ∀ r ∈ p.items, WellFormedRaw zones r) :
    ∃ tr, generateEvents zones base site start stop period V mp maxLen defaultParams ff fetch fuel
        = .ok tr ∧ tr.stop = none ∧ tr.items.length = (ps.flatMap (·.items)).length := by
  unfold generateEvents
  rw [periodIndex_pos hp]
  simp only
  unfold getSessions
  rw [if_pos hsite]
  simp only
  refine ⟨_, rfl, ?_⟩
  have htot : ∀ p ∈ ps, ∀ r ∈ p.items, ∃ e,
      convRaw zones (pyTrunc (((start.instant : Int) : K) / (60 * period))) period V mp maxLen
        defaultParams ff r = .ok e := by
    intro p hp' r hr
    obtain ⟨zname, z, sc, tc, sd, td, sid, sp, hden, hcd, hk, hsid, hsp, hts⟩ := hdocs p hp' r hr
    have hcd' : ((tc : Int) : K) ≤ ((td : Int) : K) := by exact_mod_cast hcd
    obtain ⟨e, he⟩ := default_conversion_total
      (⟨((tc : Int) : K), ((td : Int) : K), r.kWh, sid, sp⟩ : Sessions.Doc K)
      (pyTrunc (((start.instant : Int) : K) / (60 * period))) period V mp maxLen ff hp hk hm hL hcd'
    exact ⟨e, convRaw_of_denotes hden hsid hsp hts he⟩
  have hstop := collect_total _ hchain fuel hfuel htot
  refine ⟨hstop, ?_⟩
  exact ((collect_ok_forall₂ _ hchain fuel _ rfl hstop).2).length_eq.symm

/-! non-vacuity: a two-page server, a Los Angeles document across the 2019 spring-forward instant and
    a UTC document capped by `max_len = 12`, evaluated through the whole composed model over ℚ -/

def exZones : String → Option Zone := fun n =>
  if n == "America/Los_Angeles" then some { init := -28800, trans := [(1552212000, -25200)] }
  else if n == "UTC" then some { init := 0, trans := [] } else none

def exStart : Aware := toZone (fun _ => 0) 1552204800
def exStop : Aware := toZone (fun _ => 0) 1552291200
def exUrl : String := sessionsUrl "b/" "caltech" (timeQuery (some exStart) (some exStop) none false)

def exRaw (sid c d tz : String) (kwh : ℚ) : RawSession ℚ :=
  { fields := [("_id", .str "x"), ("connectionTime", .str c), ("disconnectTime", .str d),
               ("doneChargingTime", .other), ("kWhDelivered", .other), ("sessionID", .str sid),
               ("spaceID", .str "CA-319"), ("timezone", .str tz)], kWh := kwh }

def exP1 : Page (RawSession ℚ) :=
  ⟨[exRaw "s1" "Sun, 10 Mar 2019 09:59:59 GMT" "Sun, 10 Mar 2019 10:00:01 GMT" "America/Los_Angeles" 3], .next "p2"⟩
def exP2 : Page (RawSession ℚ) :=
  ⟨[exRaw "s2" "Sun, 10 Mar 2019 10:00:00 GMT" "Sun, 10 Mar 2019 18:30:00 GMT" "UTC" 12], .last⟩

def exFetch : String → Resp (RawSession ℚ) := fun u =>
  if u == exUrl then .page exP1 else if u == "b/p2" then .page exP2 else .fail .keyError

set_option maxRecDepth 4000 in
example :
    (match generateEvents exZones "b/" "caltech" exStart exStop (5 : ℚ) 208 7 (some 12)
        (defaultParams : BattParams ℚ) false exFetch 5 with
     | .ok tr => tr.stop.isNone && (tr.items.map (fun e => (e.session, e.arrival, e.departure))
          == [("s1", 23, 24), ("s2", 24, 36)]) && tr.urls == [exUrl, "b/p2"]
     | .error _ => false) = true := by
  decide +kernel

/-- the hypotheses of `generate_events_end_to_end` hold for this two-page server -/
example : Chain "b/" exFetch exUrl [exP1, exP2] :=
  Run.cons (h := "p2") (by unfold exFetch; rw [if_pos (by decide +kernel)]) rfl
    (Run.last (by unfold exFetch; rw [if_neg (by decide +kernel), if_pos (by decide +kernel)]) rfl)

/-- the documents of the example server are well-formed in the sense of the totality theorem -/
example : WellFormedRaw exZones
    (exRaw "s1" "Sun, 10 Mar 2019 09:59:59 GMT" "Sun, 10 Mar 2019 10:00:01 GMT" "America/Los_Angeles" 3) :=
  ⟨"America/Los_Angeles", { init := -28800, trans := [(1552212000, -25200)] },
   "Sun, 10 Mar 2019 09:59:59 GMT", 1552211999, "Sun, 10 Mar 2019 10:00:01 GMT", 1552212001, "s1", "CA-319",
   ⟨by rfl, by rfl, by rfl, by decide +kernel, by rfl, by decide +kernel, by rfl, by rfl⟩,
   by norm_num, by norm_num [exRaw], by decide +kernel, by decide +kernel,
   by intro k l h; simp [exRaw] at h⟩

end Acn.C15
