/-
  C10 — station registration order × the sorting-based algorithms WITH the rampdown estimator
  (`estimate_max_rate = True`): the last "NOT PROVED" of relation (1) in `AcnProofs/C10.lean`.

  The estimator (`SimpleRampdown`) is an object that lives across the whole `Simulator.run()`: the scheduler
  is a state machine, and the statement is about `SimSortedRd.runSt` (the simulator loop with the scheduler
  state threaded — `Sim.run` is its instance for a stateless scheduler) with
  `SimSortedRd.sortedSchedSt` (the estimator as the state).  The estimator keeps a dict
  `session id ↦ upper bound`; what depends on the registration order is only the LISTING order of that dict
  (sessions are visited in station order), which nothing reads.  `RdEquiv`: same thresholds, same entries.

  `runSt_equivariant_stations_rampdown`: from the same initial estimator, if every (estimator, view) pair
  of the original run is tie-free (`TieOKRd`: in the sort key resp. — with `uninterrupted_charging` — in
  `remaining_time`, on the sessions as `apply_upper_bound_estimate` leaves them), the two runs end alike:
  same error (or none), `StEquiv σ` simulator states and `RdEquiv` estimators — or both are aborted by
  `update_pilots` in `AbortEquiv σ` states (see `AcnProofs/C10Stations.lean`).  Greedy and round robin, all
  five sorts, both preprocessing modes, errors included, every fuel.
-/
import AcnProofs.C10Stations
import AcnProofs.Lemmas.EquivSimSortedRampdown

set_option linter.unusedSectionVars false

namespace Acn.C10
open Acn Acn.EventCore Acn.Sim Acn.SimEquiv Acn.SimSorted Acn.Sorted Acn.SimSortedRd

section rampdown
variable {K : Type} [Field K] [LinearOrder K] [IsStrictOrderedRing K] [HasExp K]

/-- CAPSTONE (stations × sorted algorithms × rampdown estimator, errors included). -/
theorem runSt_equivariant_stations_rampdown [HasCeilNat K] (σ : List Nat) (d : Station K) (cfg : Cfg K)
    (h : PermOK σ cfg) {net : NetInfo K} (hnet : NetOK cfg.stations.length net) (inf : K) (scfg : Config K)
    (he : scfg.estimate = true) (rd0 : Rampdown K) (n : Nat)
    (hties : ∀ p ∈ runViewsSt cfg (sortedSchedSt net inf cfg scfg) n rd0 (Sim.init cfg), TieOKRd inf cfg scfg p.1 p.2) :
    ((runSt (permCfg σ d cfg) (sortedSchedSt (reNet σ net) inf (permCfg σ d cfg) scfg) n rd0
        (Sim.init (permCfg σ d cfg))).1.2 = (runSt cfg (sortedSchedSt net inf cfg scfg) n rd0 (Sim.init cfg)).1.2 ∧
      StEquiv σ (runSt cfg (sortedSchedSt net inf cfg scfg) n rd0 (Sim.init cfg)).1.1
        (runSt (permCfg σ d cfg) (sortedSchedSt (reNet σ net) inf (permCfg σ d cfg) scfg) n rd0
          (Sim.init (permCfg σ d cfg))).1.1 ∧
      ((runSt cfg (sortedSchedSt net inf cfg scfg) n rd0 (Sim.init cfg)).1.2 = none →
        RdEquiv (runSt cfg (sortedSchedSt net inf cfg scfg) n rd0 (Sim.init cfg)).2
          (runSt (permCfg σ d cfg) (sortedSchedSt (reNet σ net) inf (permCfg σ d cfg) scfg) n rd0
            (Sim.init (permCfg σ d cfg))).2)) ∨
    (∃ e e', (runSt cfg (sortedSchedSt net inf cfg scfg) n rd0 (Sim.init cfg)).1.2 = some e ∧
      (runSt (permCfg σ d cfg) (sortedSchedSt (reNet σ net) inf (permCfg σ d cfg) scfg) n rd0
        (Sim.init (permCfg σ d cfg))).1.2 = some e' ∧
      IsPilotErr e ∧ IsPilotErr e' ∧
      AbortEquiv σ (runSt cfg (sortedSchedSt net inf cfg scfg) n rd0 (Sim.init cfg)).1.1
        (runSt (permCfg σ d cfg) (sortedSchedSt (reNet σ net) inf (permCfg σ d cfg) scfg) n rd0
          (Sim.init (permCfg σ d cfg))).1.1) := by
  obtain ⟨hi, hsh, ho⟩ := init_equiv (d := d) h
  exact runSt_equiv_E (d := d) h (sortedSchedSt_equivariantSt h hnet inf scfg he) n (RdEquiv.refl rd0) hi hsh ho hties

/-- the decidable form of `TieOKRd`: pairwise different keys / remaining times -/
theorem tieOKRd_of_pairwise (inf : K) (cfg : Cfg K) (scfg : Config K) (rd : Rampdown K) (v : View K)
    (h : if scfg.uninterrupted then
        (preOfE (infraOf inf cfg) cfg.period (prevOf v) rd (v.active.map (sessionOfEv inf v.iter))).Pairwise
          (fun a b => a.remainingTime ≠ b.remainingTime)
      else
        (preOfE (infraOf inf cfg) cfg.period (prevOf v) rd (v.active.map (sessionOfEv inf v.iter))).Pairwise
          (fun a b => Acn.C08.sameKey scfg.sort (infraOf inf cfg) cfg.period (v.iter : Int) a b = false)) :
    TieOKRd inf cfg scfg rd v := by
  unfold TieOKRd TieOKE
  by_cases hu : scfg.uninterrupted = true
  · rw [if_pos hu] at h ⊢
    intro a ha b hb hk
    by_contra hne
    exact pairwise_forall_ne (R := fun a b : Sorted.Session K => a.remainingTime ≠ b.remainingTime)
      (fun x y hxy => fun e => hxy e.symm) _ h a ha b hb hne hk
  · rw [if_neg hu] at h ⊢
    intro a ha b hb hk
    by_contra hne
    have := pairwise_forall_ne (R := fun a b : Sorted.Session K =>
        Acn.C08.sameKey scfg.sort (infraOf inf cfg) cfg.period (v.iter : Int) a b = false)
      (by
        intro x y hxy
        simp only [Acn.C08.sameKey] at hxy ⊢
        rw [Bool.and_comm]; exact hxy) _ h a ha b hb hne
    rw [hk] at this
    exact Bool.noConfusion this

end rampdown

section rampdown_example

local instance : HasExp ℚ := ⟨fun x => x⟩
local instance : HasCeilNat ℚ := ⟨fun x => (Rat.ceil x).toNat⟩

/-- `exSimLate` with a car x that cannot take more than 3 kW (14.4 A at 208 V): it is offered 30 A in period
    1, draws 375/26 A, and the estimator caps it at 375/26 + 1 A from then on — which frees 8 A for y -/
def exSimRd : Sim.Cfg ℚ :=
  { exSimLate with
    evs := [{ session := "x", station := "A", arrival := 1, departure := 4, estDeparture := 4, requested := 10,
              delivered := 0, rate := 0,
              batt := { capacity := 40, charge := 5, init := 5, maxPower := 3, power := 0, twoStage := false,
                        noiseLevel := 0, ts := 0, cmode := .continuous } },
            { session := "y", station := "B", arrival := 2, departure := 6, estDeparture := 5, requested := 10,
              delivered := 0, rate := 0,
              batt := { capacity := 40, charge := 5, init := 5, maxPower := 7, power := 0, twoStage := false,
                        noiseLevel := 0, ts := 0, cmode := .continuous } }],
    maxRecompute := some 1 }

def exGreedyE : Config ℚ := { exGreedy with estimate := true }
def exRd0 : Rampdown ℚ := { upTh := 1, downTh := 1, upInc := 1, bounds := [] }

theorem exSimRd_permOK : PermOK [1, 0] exSimRd :=
  ⟨by decide, by show (exSimRd.stations.map (·.id)).Nodup; decide, constNoise_of_short (by simp [exSimRd, exSimLate])⟩

/-- the hypotheses of `runSt_equivariant_stations_rampdown` are satisfiable (stations B, A instead of A, B;
    EDF greedy with the estimator), the run completes, the estimator bites (without it x is offered 30 A
    throughout and y nothing in periods 2-3), and the permuted run has the rows swapped and the same
    estimator entries -/
example :
    (runSt exSimRd (sortedSchedSt exNet 1000000 exSimRd exGreedyE) 9 exRd0 (Sim.init exSimRd)).1.2 = none ∧
    StEquiv [1, 0] (runSt exSimRd (sortedSchedSt exNet 1000000 exSimRd exGreedyE) 9 exRd0 (Sim.init exSimRd)).1.1
      (runSt (permCfg [1, 0] ⟨"", .cont 0 none, 0⟩ exSimRd)
        (sortedSchedSt (reNet [1, 0] exNet) 1000000 (permCfg [1, 0] ⟨"", .cont 0 none, 0⟩ exSimRd) exGreedyE) 9 exRd0
        (Sim.init (permCfg [1, 0] ⟨"", .cont 0 none, 0⟩ exSimRd))).1.1 ∧
    RdEquiv (runSt exSimRd (sortedSchedSt exNet 1000000 exSimRd exGreedyE) 9 exRd0 (Sim.init exSimRd)).2
      (runSt (permCfg [1, 0] ⟨"", .cont 0 none, 0⟩ exSimRd)
        (sortedSchedSt (reNet [1, 0] exNet) 1000000 (permCfg [1, 0] ⟨"", .cont 0 none, 0⟩ exSimRd) exGreedyE) 9 exRd0
        (Sim.init (permCfg [1, 0] ⟨"", .cont 0 none, 0⟩ exSimRd))).2 ∧
    (runSt exSimRd (sortedSchedSt exNet 1000000 exSimRd exGreedyE) 9 exRd0 (Sim.init exSimRd)).1.1.pilots.rows
      = [[0, 30, 401 / 26, 401 / 26, 0, 0, 0], [0, 0, 8, 8, 16, 16, 0]] ∧
    (runSt exSimRd (sortedSchedSt exNet 1000000 exSimRd exGreedyE) 9 exRd0 (Sim.init exSimRd)).2.bounds
      = [("x", 401 / 26), ("y", 16)] ∧
    (Sim.run exSimRd (sortedSched exNet 1000000 exSimRd exGreedy) 9 (Sim.init exSimRd)).1.pilots.rows
      = [[0, 30, 30, 30, 0, 0, 0], [0, 0, 0, 0, 16, 16, 0]] := by
  have hrun : (runSt exSimRd (sortedSchedSt exNet 1000000 exSimRd exGreedyE) 9 exRd0 (Sim.init exSimRd)).1.2 = none := by
    decide +kernel
  have hties : ∀ p ∈ runViewsSt exSimRd (sortedSchedSt exNet 1000000 exSimRd exGreedyE) 9 exRd0 (Sim.init exSimRd),
      (preOfE (infraOf 1000000 exSimRd) exSimRd.period (prevOf p.2) p.1 (p.2.active.map (sessionOfEv 1000000 p.2.iter))).Pairwise
        (fun a b => Acn.C08.sameKey exGreedyE.sort (infraOf 1000000 exSimRd) exSimRd.period (p.2.iter : Int) a b = false) := by
    decide +kernel
  refine ⟨hrun, ?_, ?_, by decide +kernel, by decide +kernel, by decide +kernel⟩
  · rcases runSt_equivariant_stations_rampdown [1, 0] ⟨"", .cont 0 none, 0⟩ exSimRd exSimRd_permOK exNet_ok 1000000
        exGreedyE rfl exRd0 9 (fun p hp => tieOKRd_of_pairwise _ _ _ p.1 p.2 (by
          have := hties p hp
          rw [if_neg (by decide)]
          exact this)) with ⟨_, a2, _⟩ | ⟨e, e', b1, _⟩
    · exact a2
    · rw [hrun] at b1; cases b1
  · rcases runSt_equivariant_stations_rampdown [1, 0] ⟨"", .cont 0 none, 0⟩ exSimRd exSimRd_permOK exNet_ok 1000000
        exGreedyE rfl exRd0 9 (fun p hp => tieOKRd_of_pairwise _ _ _ p.1 p.2 (by
          have := hties p hp
          rw [if_neg (by decide)]
          exact this)) with ⟨_, _, a3⟩ | ⟨e, e', b1, _⟩
    · exact a3 hrun
    · rw [hrun] at b1; cases b1

end rampdown_example
end Acn.C10
