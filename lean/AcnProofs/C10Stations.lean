/-
  C10 — results are independent of the registration order of the stations: the cases the main file
  (`AcnProofs/C10.lean`, section `simulator`, "NOT PROVED" of relation (1)) left open, all at the level of
  the FULL simulator model `Acn.Sim.run`:

    * RAISING RUNS.  `run_equivariant_stations_raise`: whatever the run does — complete or abort, in any
      period, with any error — the permuted run does the same: same error in `StEquiv σ` states (equal keyed
      by station id), with ONE exception that is genuinely order-dependent and is stated exactly: when
      `network.update_pilots` raises, the stations before the offender have already charged, so the
      permuted run also aborts in `update_pilots` in the same period (possibly with the other of the two
      `set_pilot` errors when two stations offend differently) and the states at the abort agree on
      everything `update_pilots` does not write: event core, pilot matrix, rate matrix, peak, occupancy
      log (`AbortEquiv σ`); only `EVSE.current_pilot`, the EV records and the draw counter are not related.
    * `uninterrupted_charging = True`.  `run_equivariant_stations_sorted_any`: the sorting-based algorithms
      in BOTH preprocessing modes, greedy and round robin, all five sorts, errors included.  Tie
      hypothesis `TieOK`: interruptible — no two sessions of a call share the sort key (as before);
      uninterrupted — no two sessions share `remaining_time` (the key of the sort inside
      `apply_minimum_charging_rate`); the main key may then have ties: they are broken by the
      remaining-time order in every registration order.
    * `run_equivariant_stations_uncontrolled_any`: uncontrolled charging, errors included.

  Helper lemmas: `Lemmas/EquivSortedMinRate`, `EquivSortedStationsU`, `EquivSimStationsRaise`,
  `EquivSimStationsRaiseRun` (ONE induction over `runSt`, the loop with a scheduler state threaded; `Sim.run`
  is its instance for a stateless scheduler), `EquivSimSortedStationsU`.
-/
import AcnProofs.C10
import AcnProofs.Lemmas.EquivSimSortedStationsU

set_option linter.unusedSectionVars false

namespace Acn.C10
open Acn Acn.EventCore Acn.Sim Acn.SimEquiv Acn.SimSorted Acn.Sorted

section stations_raise
variable {K : Type} [Field K] [LinearOrder K] [IsStrictOrderedRing K] [HasExp K]

/-- CAPSTONE (stations, ERRORS INCLUDED).  Register the stations in the order `σ` and hand the simulator
    a scheduler pair that, on every view `P` holds of, answers station-permuted views with the same
    `{station id ↦ pilots}` dict or with the same error (`SchedEquivariantE σ P`).  If every view handed
    out during the ORIGINAL run satisfies `P`, then for every fuel the two runs of the full simulator
    model either
      (a) end alike: the same error (or none) and `StEquiv σ` final states — pilots, rates,
          `EVSE.current_pilot`, occupancy snapshots equal keyed by station id; event core, every EV record,
          peak, draw counter EQUAL —, or
      (b) are both aborted by `network.update_pilots` (each with `InvalidRateError` or the `ValueError` of
          a charge) in states that agree on everything `update_pilots` does not write (`AbortEquiv σ`:
          event core — hence the same period —, pilot matrix, rate matrix, peak, occupancy log).
    (b) cannot be improved: the station loop stops at the FIRST offender in registration order, and the
    stations before it have charged. -/
theorem run_equivariant_stations_raise (σ : List Nat) (d : Station K) (cfg : Cfg K) (h : PermOK σ cfg)
    {P : View K → Prop} {sched sched' : View K → Except EventCore.Err (Schedule K)}
    (hs : SchedEquivariantE σ P sched sched') (n : Nat)
    (hP : ∀ v ∈ runViews cfg sched n (Sim.init cfg), P v) :
    ((Sim.run (permCfg σ d cfg) sched' n (Sim.init (permCfg σ d cfg))).2 = (Sim.run cfg sched n (Sim.init cfg)).2 ∧
      StEquiv σ (Sim.run cfg sched n (Sim.init cfg)).1
        (Sim.run (permCfg σ d cfg) sched' n (Sim.init (permCfg σ d cfg))).1) ∨
    (∃ e e', (Sim.run cfg sched n (Sim.init cfg)).2 = some e ∧
      (Sim.run (permCfg σ d cfg) sched' n (Sim.init (permCfg σ d cfg))).2 = some e' ∧
      IsPilotErr e ∧ IsPilotErr e' ∧
      AbortEquiv σ (Sim.run cfg sched n (Sim.init cfg)).1
        (Sim.run (permCfg σ d cfg) sched' n (Sim.init (permCfg σ d cfg))).1) := by
  obtain ⟨he, hsh, ho⟩ := init_equiv (d := d) h
  exact run_equiv_E (d := d) h hs n he hsh ho hP

/-- a `SchedEquivariant` pair (equal association lists, equal errors) whose answers are dicts (pairwise
    different keys) is `SchedEquivariantE` on every view: the scripted and the empty scheduler -/
theorem schedEquivariantE_of_equivariant (σ : List Nat) {sched sched' : View K → Except EventCore.Err (Schedule K)}
    (h : SchedEquivariant σ sched sched') (hk : ∀ v a, sched v = .ok a → (a.map (·.1)).Nodup) :
    SchedEquivariantE σ (fun _ => True) sched sched' := by
  intro v v' hv _
  have e := h v v' hv.rel
  refine ⟨fun a ha => ⟨a, by rw [e, ha], List.Perm.refl _, hk v a ha⟩, fun er he' => by rw [e, he']⟩

/-- CAPSTONE (stations × the sorting-based algorithms, BOTH preprocessing modes, errors included).
    `SortedSchedulingAlgo` and `RoundRobin`, all five sort keys, continuous and finite-rate EVSEs, any
    network constraints, `uninterrupted_charging` on or off, `estimate_max_rate = False`; the permuted
    algorithm is built from the permuted configuration and the network description with permuted columns.
    If every view of the original run is `TieOK` (interruptible: no tie in the sort key; uninterrupted:
    no tie in `remaining_time`) the conclusion of `run_equivariant_stations_raise` holds — in particular
    a run that completes, completes with `StEquiv σ` final states, and a run in which the ALGORITHM
    raises (`ValueError` of an infeasible lower bound, …) raises the same error in the same period in
    `StEquiv σ` states. -/
theorem run_equivariant_stations_sorted_any [HasCeilNat K] (σ : List Nat) (d : Station K) (cfg : Cfg K)
    (h : PermOK σ cfg) {net : NetInfo K} (hnet : NetOK cfg.stations.length net) (inf : K) (scfg : Config K) (n : Nat)
    (hties : ∀ v ∈ runViews cfg (sortedSched net inf cfg scfg) n (Sim.init cfg), TieOK inf cfg scfg v) :
    ((Sim.run (permCfg σ d cfg) (sortedSched (reNet σ net) inf (permCfg σ d cfg) scfg) n
        (Sim.init (permCfg σ d cfg))).2 = (Sim.run cfg (sortedSched net inf cfg scfg) n (Sim.init cfg)).2 ∧
      StEquiv σ (Sim.run cfg (sortedSched net inf cfg scfg) n (Sim.init cfg)).1
        (Sim.run (permCfg σ d cfg) (sortedSched (reNet σ net) inf (permCfg σ d cfg) scfg) n
          (Sim.init (permCfg σ d cfg))).1) ∨
    (∃ e e', (Sim.run cfg (sortedSched net inf cfg scfg) n (Sim.init cfg)).2 = some e ∧
      (Sim.run (permCfg σ d cfg) (sortedSched (reNet σ net) inf (permCfg σ d cfg) scfg) n
        (Sim.init (permCfg σ d cfg))).2 = some e' ∧
      IsPilotErr e ∧ IsPilotErr e' ∧
      AbortEquiv σ (Sim.run cfg (sortedSched net inf cfg scfg) n (Sim.init cfg)).1
        (Sim.run (permCfg σ d cfg) (sortedSched (reNet σ net) inf (permCfg σ d cfg) scfg) n
          (Sim.init (permCfg σ d cfg))).1) :=
  run_equivariant_stations_raise σ d cfg h (sortedSched_equivariantE h hnet inf scfg) n hties

/-- the completing-run form of `run_equivariant_stations_sorted_any` for `uninterrupted_charging = True`
    (what `run_equivariant_stations_sorted` excludes): tie-freeness in `remaining_time` ONLY -/
theorem run_equivariant_stations_sorted_uninterrupted [HasCeilNat K] (σ : List Nat) (d : Station K) (cfg : Cfg K)
    (h : PermOK σ cfg) {net : NetInfo K} (hnet : NetOK cfg.stations.length net) (inf : K) (scfg : Config K)
    (hu : scfg.uninterrupted = true) (n : Nat) (r : State K)
    (hties : ∀ v ∈ runViews cfg (sortedSched net inf cfg scfg) n (Sim.init cfg), TieFreeRT inf cfg v)
    (hr : Sim.run cfg (sortedSched net inf cfg scfg) n (Sim.init cfg) = (r, none)) :
    ∃ r', Sim.run (permCfg σ d cfg) (sortedSched (reNet σ net) inf (permCfg σ d cfg) scfg) n
        (Sim.init (permCfg σ d cfg)) = (r', none) ∧ StEquiv σ r r' := by
  have hties' : ∀ v ∈ runViews cfg (sortedSched net inf cfg scfg) n (Sim.init cfg), TieOK inf cfg scfg v := by
    intro v hv
    unfold TieOK
    rw [if_pos hu]
    exact hties v hv
  rcases run_equivariant_stations_sorted_any σ d cfg h hnet inf scfg n hties' with ⟨a1, a2⟩ | ⟨e, e', b1, _⟩
  · rw [hr] at a1 a2
    exact ⟨_, Prod.ext rfl a1, a2⟩
  · rw [hr] at b1
    cases b1

/-- CAPSTONE (stations × uncontrolled charging, errors included) -/
theorem run_equivariant_stations_uncontrolled_any (σ : List Nat) (d : Station K) (cfg : Cfg K) (h : PermOK σ cfg)
    (inf : K) (n : Nat)
    (hone : ∀ v ∈ runViews cfg (uncontrolledSched inf cfg) n (Sim.init cfg), OnePerStation v) :
    ((Sim.run (permCfg σ d cfg) (uncontrolledSched inf (permCfg σ d cfg)) n (Sim.init (permCfg σ d cfg))).2 =
        (Sim.run cfg (uncontrolledSched inf cfg) n (Sim.init cfg)).2 ∧
      StEquiv σ (Sim.run cfg (uncontrolledSched inf cfg) n (Sim.init cfg)).1
        (Sim.run (permCfg σ d cfg) (uncontrolledSched inf (permCfg σ d cfg)) n (Sim.init (permCfg σ d cfg))).1) ∨
    (∃ e e', (Sim.run cfg (uncontrolledSched inf cfg) n (Sim.init cfg)).2 = some e ∧
      (Sim.run (permCfg σ d cfg) (uncontrolledSched inf (permCfg σ d cfg)) n (Sim.init (permCfg σ d cfg))).2 = some e' ∧
      IsPilotErr e ∧ IsPilotErr e' ∧
      AbortEquiv σ (Sim.run cfg (uncontrolledSched inf cfg) n (Sim.init cfg)).1
        (Sim.run (permCfg σ d cfg) (uncontrolledSched inf (permCfg σ d cfg)) n (Sim.init (permCfg σ d cfg))).1) :=
  run_equivariant_stations_raise σ d cfg h (uncontrolledSched_equivariantE h inf) n hone

end stations_raise

section stations_raise_examples
open Acn.SimShift

local instance : HasExp ℚ := ⟨fun x => x⟩
local instance : HasCeilNat ℚ := ⟨fun x => (Rat.ceil x).toNat⟩

/-- `exGreedy` / `exRR` with `uninterrupted_charging = True` -/
def exGreedyU : Config ℚ := { exGreedy with uninterrupted := true }
def exRRU : Config ℚ := { exRR with uninterrupted := true }

/-- `exSimLate` (station B has the NON-ZERO minimum pilot 8 A: `apply_minimum_charging_rate` has something
    to reserve), re-scheduled in every period -/
def exSimU : Sim.Cfg ℚ := { exSimLate with maxRecompute := some 1 }

theorem exSimU_permOK : PermOK [1, 0] exSimU :=
  ⟨by decide, by show (exSimU.stations.map (·.id)).Nodup; decide, constNoise_of_short (by simp [exSimU, exSimLate])⟩

theorem exNet_okU : NetOK exSimU.stations.length exNet := exNet_ok

/-- the hypotheses of `run_equivariant_stations_sorted_uninterrupted` are satisfiable (remaining times of
    the two sessions differ in every view: departures 4 and 6), both algorithms; the run completes, the
    minimum pilot of B (8 A) is held while x is served first (interruptible greedy gives y nothing in periods 2-3,
    see `AcnProofs/C10.lean`), and the permuted run has the rows swapped -/
example :
    (∀ scfg ∈ [exGreedyU, exRRU], ∃ r', Sim.run (permCfg [1, 0] ⟨"", .cont 0 none, 0⟩ exSimU)
        (sortedSched (reNet [1, 0] exNet) 1000000 (permCfg [1, 0] ⟨"", .cont 0 none, 0⟩ exSimU) scfg) 9
        (Sim.init (permCfg [1, 0] ⟨"", .cont 0 none, 0⟩ exSimU)) = (r', none) ∧
      StEquiv [1, 0] (Sim.run exSimU (sortedSched exNet 1000000 exSimU scfg) 9 (Sim.init exSimU)).1 r') ∧
    (Sim.run exSimU (sortedSched exNet 1000000 exSimU exGreedyU) 9 (Sim.init exSimU)).1.pilots.rows
      = [[0, 30, 22, 22, 0, 0, 0], [0, 0, 8, 8, 16, 16, 0]] ∧
    (Sim.run (permCfg [1, 0] ⟨"", .cont 0 none, 0⟩ exSimU)
        (sortedSched (reNet [1, 0] exNet) 1000000 (permCfg [1, 0] ⟨"", .cont 0 none, 0⟩ exSimU) exGreedyU) 9
        (Sim.init (permCfg [1, 0] ⟨"", .cont 0 none, 0⟩ exSimU))).1.pilots.rows
      = [[0, 0, 8, 8, 16, 16, 0], [0, 30, 22, 22, 0, 0, 0]] := by
  refine ⟨?_, by decide +kernel, by decide +kernel⟩
  intro scfg hs
  simp only [List.mem_cons, List.mem_nil_iff, or_false] at hs
  have hrun : (Sim.run exSimU (sortedSched exNet 1000000 exSimU scfg) 9 (Sim.init exSimU)).2 = none := by
    rcases hs with rfl | rfl <;> decide +kernel
  have hties : ∀ v ∈ runViews exSimU (sortedSched exNet 1000000 exSimU scfg) 9 (Sim.init exSimU),
      (preOf (infraOf 1000000 exSimU) exSimU.period (v.active.map (sessionOfEv 1000000 v.iter))).Pairwise
        (fun a b => a.remainingTime ≠ b.remainingTime) := by
    rcases hs with rfl | rfl <;> decide +kernel
  exact run_equivariant_stations_sorted_uninterrupted [1, 0] _ exSimU exSimU_permOK exNet_okU 1000000 scfg
    (by rcases hs with rfl | rfl <;> rfl) 9 _
    (fun v hv => tieFreeRT_of_pairwise _ _ v (hties v hv)) (Prod.ext rfl hrun)

/-- a scripted scheduler that RAISES in period 2 (after both sessions have charged in period 1 … 2) -/
def exScriptRaise : List (Nat × Option (Schedule ℚ)) :=
  [(1, some [("A", [16, 12])]), (2, none)]

/-- a schedule that sends station B a pilot (5 A) it does not allow in period 2: `update_pilots` raises
    `InvalidRateError` AFTER station A (registered first) has been served in that period -/
def exScriptBad : List (Nat × Option (Schedule ℚ)) :=
  [(1, some [("A", [16])]), (2, some [("A", [10]), ("B", [5])])]

theorem scripted_nodup_keys (script : List (Nat × Option (Schedule ℚ)))
    (hk : ∀ p ∈ script, ∀ sch, p.2 = some sch → (sch.map (·.1)).Nodup) :
    ∀ v a, scripted script [] v = .ok a → (a.map (·.1)).Nodup := by
  intro v a ha
  unfold scripted at ha
  cases hl : script.lookup v.iter with
  | none => rw [hl] at ha; simp only [Except.ok.injEq] at ha; rw [← ha]; exact List.nodup_nil
  | some o =>
    rw [hl] at ha
    cases o with
    | none => cases ha
    | some sch =>
      simp only [Except.ok.injEq] at ha
      rw [← ha]
      exact hk (v.iter, some sch) (List.mem_lookup_iff_of_nodup_keys_aux hl) sch rfl
where
  List.mem_lookup_iff_of_nodup_keys_aux {k : Nat} {o : Option (Schedule ℚ)} {l : List (Nat × Option (Schedule ℚ))}
      (h : l.lookup k = some o) : (k, o) ∈ l := by
    induction l with
    | nil => simp at h
    | cons p rest ih =>
      obtain ⟨k0, o0⟩ := p
      by_cases hk : k = k0
      · subst hk
        simp only [List.lookup_cons_self, Option.some.injEq] at h
        rw [h]; exact List.mem_cons_self
      · have hb : (k == k0) = false := by simpa using hk
        rw [List.lookup_cons, hb] at h
        exact List.mem_cons_of_mem _ (ih h)

/-- `run_equivariant_stations_raise` on two aborted runs: (a) the scheduler raises in period 2 — same
    error, fully related states; (b) `update_pilots` raises in period 2 — alternative (b) of the theorem
    holds and alternative (a) does NOT: in the original order station A has been sent its pilot (10 A)
    before B offends, in the permuted order B offends first and A still shows the previous pilot (16 A) -/
example :
    -- (a)
    ((Sim.run exSimLate (scripted exScriptRaise []) 9 (Sim.init exSimLate)).2 = some .schedulerFailed ∧
      (Sim.run (permCfg [1, 0] ⟨"", .cont 0 none, 0⟩ exSimLate) (scripted exScriptRaise []) 9
        (Sim.init (permCfg [1, 0] ⟨"", .cont 0 none, 0⟩ exSimLate))).2 = some .schedulerFailed ∧
      StEquiv [1, 0] (Sim.run exSimLate (scripted exScriptRaise []) 9 (Sim.init exSimLate)).1
        (Sim.run (permCfg [1, 0] ⟨"", .cont 0 none, 0⟩ exSimLate) (scripted exScriptRaise []) 9
          (Sim.init (permCfg [1, 0] ⟨"", .cont 0 none, 0⟩ exSimLate))).1) ∧
    -- (b)
    ((Sim.run exSimLate (scripted exScriptBad []) 9 (Sim.init exSimLate)).2 = some .invalidRate ∧
      (Sim.run (permCfg [1, 0] ⟨"", .cont 0 none, 0⟩ exSimLate) (scripted exScriptBad []) 9
        (Sim.init (permCfg [1, 0] ⟨"", .cont 0 none, 0⟩ exSimLate))).2 = some .invalidRate ∧
      AbortEquiv [1, 0] (Sim.run exSimLate (scripted exScriptBad []) 9 (Sim.init exSimLate)).1
        (Sim.run (permCfg [1, 0] ⟨"", .cont 0 none, 0⟩ exSimLate) (scripted exScriptBad []) 9
          (Sim.init (permCfg [1, 0] ⟨"", .cont 0 none, 0⟩ exSimLate))).1 ∧
      (Sim.run exSimLate (scripted exScriptBad []) 9 (Sim.init exSimLate)).1.evsePilot = [10, 0] ∧
      (Sim.run (permCfg [1, 0] ⟨"", .cont 0 none, 0⟩ exSimLate) (scripted exScriptBad []) 9
        (Sim.init (permCfg [1, 0] ⟨"", .cont 0 none, 0⟩ exSimLate))).1.evsePilot = [0, 16]) := by
  have hE : ∀ script : List (Nat × Option (Schedule ℚ)),
      (∀ p ∈ script, ∀ sch, p.2 = some sch → (sch.map (·.1)).Nodup) →
      SchedEquivariantE [1, 0] (fun _ => True) (scripted script ([] : Schedule ℚ)) (scripted script []) :=
    fun script hk => schedEquivariantE_of_equivariant [1, 0] (scripted_schedEquivariant [1, 0] script []).1
      (scripted_nodup_keys script hk)
  have ea : (Sim.run exSimLate (scripted exScriptRaise []) 9 (Sim.init exSimLate)).2 = some .schedulerFailed := by
    decide +kernel
  have eb : (Sim.run exSimLate (scripted exScriptBad []) 9 (Sim.init exSimLate)).2 = some .invalidRate := by
    decide +kernel
  have eb' : (Sim.run (permCfg [1, 0] ⟨"", .cont 0 none, 0⟩ exSimLate) (scripted exScriptBad []) 9
      (Sim.init (permCfg [1, 0] ⟨"", .cont 0 none, 0⟩ exSimLate))).2 = some .invalidRate := by decide +kernel
  refine ⟨?_, ?_⟩
  · rcases run_equivariant_stations_raise [1, 0] ⟨"", .cont 0 none, 0⟩ exSimLate exSimLate_permOK
        (hE exScriptRaise (by decide)) 9 (fun _ _ => trivial) with ⟨a1, a2⟩ | ⟨e, e', b1, _, b3, _⟩
    · exact ⟨ea, by rw [a1, ea], a2⟩
    · rw [ea] at b1
      rcases b3 with b3 | b3 <;> (rw [b3] at b1; cases b1)
  · rcases run_equivariant_stations_raise [1, 0] ⟨"", .cont 0 none, 0⟩ exSimLate exSimLate_permOK
        (hE exScriptBad (by decide)) 9 (fun _ _ => trivial) with ⟨_, a2⟩ | ⟨e, e', _, _, _, _, b5⟩
    · exact ⟨eb, eb', a2.toAbort, by decide +kernel, by decide +kernel⟩
    · exact ⟨eb, eb', b5, by decide +kernel, by decide +kernel⟩

/-- the hypotheses of `run_equivariant_stations_uncontrolled_any` are satisfiable (every view of the run lists at
    most one session per station), and here alternative (a) holds with no error -/
example :
    (Sim.run (permCfg [1, 0] ⟨"", .cont 0 none, 0⟩ exSimLate)
        (uncontrolledSched 1000000 (permCfg [1, 0] ⟨"", .cont 0 none, 0⟩ exSimLate)) 9
        (Sim.init (permCfg [1, 0] ⟨"", .cont 0 none, 0⟩ exSimLate))).2 = none ∧
    StEquiv [1, 0] (Sim.run exSimLate (uncontrolledSched 1000000 exSimLate) 9 (Sim.init exSimLate)).1
      (Sim.run (permCfg [1, 0] ⟨"", .cont 0 none, 0⟩ exSimLate)
        (uncontrolledSched 1000000 (permCfg [1, 0] ⟨"", .cont 0 none, 0⟩ exSimLate)) 9
        (Sim.init (permCfg [1, 0] ⟨"", .cont 0 none, 0⟩ exSimLate))).1 := by
  have hrun : (Sim.run exSimLate (uncontrolledSched 1000000 exSimLate) 9 (Sim.init exSimLate)).2 = none := by
    decide +kernel
  have hone : ∀ v ∈ runViews exSimLate (uncontrolledSched 1000000 exSimLate) 9 (Sim.init exSimLate),
      (v.active.map (·.station)).Nodup := by decide +kernel
  rcases run_equivariant_stations_uncontrolled_any [1, 0] ⟨"", .cont 0 none, 0⟩ exSimLate exSimLate_permOK 1000000 9 hone
    with ⟨a1, a2⟩ | ⟨e, e', b1, _⟩
  · exact ⟨by rw [a1, hrun], a2⟩
  · rw [hrun] at b1; cases b1

end stations_raise_examples
end Acn.C10
