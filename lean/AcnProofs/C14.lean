/-
  C14 — the battery models follow their documented charging laws.

  Property theorems only (helpers: `Lemmas/Battery*.lean`).  Carriers: a linear ordered
  field `K` for the ideal law, zero pilot and reset; ℝ (`HasExp ℝ = Real.exp`) for the
  two-stage closed form.  Noise off (`¬ 0 < noiseLevel`) wherever the law is deterministic.

  The documented law of `Linear2StageBattery` (class docstring, battery.py:132-134), as a
  rate of change of SoC:  `docRate p0 m ts s = min p0 (if s ≤ ts then m else m (1−s)/(1−ts))`
  — charge at the pilot's rate, capped by the maximum rate `m` up to the transition SoC `ts`
  and by a maximum that declines linearly to 0 at SoC 1 after it.
-/
import AcnProofs.Lemmas.BatteryLaw
import AcnProofs.Lemmas.BatteryUnique

namespace Acn.C14
open Acn Acn.Battery Acn.BattAlg Acn.BattFlow Acn.BattReal Acn.BattLaw
open Real Set Filter Topology

section field
variable {K : Type} [Field K] [LinearOrder K] [IsStrictOrderedRing K]

/-- ideal battery: the charging power is `min(pilot power, max power, power that exactly fills
    the battery in the period)`; charge and returned current follow from it; when the third
    term binds the battery ends exactly full -/
theorem ideal_law (b : Batt K) (pilot : K) {V T : K} (hV : 0 < V) (hT : 0 < T) :
    ∃ b' r, idealCharge b pilot V T = .ok (b', r) ∧
      b'.power = min (min (pilot * V / 1000) b.maxPower) ((b.capacity - b.charge) / (T / 60)) ∧
      b'.charge = b.charge + b'.power * (T / 60) ∧ r = b'.power * 1000 / V ∧
      (b'.power = (b.capacity - b.charge) / (T / 60) → b'.charge = b.capacity) := by
  refine ⟨_, _, idealCharge_ok b pilot hV hT, rfl, rfl, rfl, ?_⟩
  intro h
  show b.charge + idealPower b pilot V T * (T / 60) = b.capacity
  have h' : idealPower b pilot V T = (b.capacity - b.charge) / (T / 60) := h
  rw [h']; field_simp; ring

/-- ideal battery: delivered energy is non-decreasing in the pilot and in the period -/
theorem ideal_mono {b : Batt K} (hb : Inv b) {p1 p2 V T1 T2 : K} (hV : 0 < V) (hp1 : 0 ≤ p1)
    (hp : p1 ≤ p2) (hT1 : 0 < T1) (hT : T1 ≤ T2) :
    idealPower b p1 V T1 * (T1 / 60) ≤ idealPower b p2 V T1 * (T1 / 60) ∧
    idealPower b p1 V T1 * (T1 / 60) ≤ idealPower b p1 V T2 * (T2 / 60) := by
  have hT2 : 0 < T2 := lt_of_lt_of_le hT1 hT
  have h60 : (0 : K) < T1 / 60 := by positivity
  have h60' : (0 : K) < T2 / 60 := by positivity
  have e : ∀ {p T : K}, 0 < T → idealPower b p V T * (T / 60) =
      min (min (p * V / 1000 * (T / 60)) (b.maxPower * (T / 60))) (b.capacity - b.charge) := by
    intro p T hT'
    have h6 : (0 : K) < T / 60 := by positivity
    unfold idealPower
    rw [min_mul_of_nonneg _ _ h6.le, min_mul_of_nonneg _ _ h6.le, div_mul_cancel₀ _ h6.ne']
  constructor
  · refine mul_le_mul_of_nonneg_right ?_ h60.le
    unfold idealPower
    have : p1 * V / 1000 ≤ p2 * V / 1000 := by
      apply div_le_div_of_nonneg_right (mul_le_mul_of_nonneg_right hp hV.le) (by norm_num)
    exact min_le_min (min_le_min this (le_refl _)) (le_refl _)
  · rw [e hT1, e hT2]
    have h1 : p1 * V / 1000 * (T1 / 60) ≤ p1 * V / 1000 * (T2 / 60) := by
      apply mul_le_mul_of_nonneg_left _ (by positivity)
      exact div_le_div_of_nonneg_right hT (by norm_num)
    have h2 : b.maxPower * (T1 / 60) ≤ b.maxPower * (T2 / 60) := by
      apply mul_le_mul_of_nonneg_left _ hb.maxp_nonneg
      exact div_le_div_of_nonneg_right hT (by norm_num)
    exact min_le_min (min_le_min h1 h2) (le_refl _)

/-- a zero pilot delivers nothing — every battery kind, every noise level and draw: the call
    returns 0 A, the charge is unchanged and the recorded power is 0 -/
theorem zero_pilot [HasExp K] {b : Batt K} (hb : Inv b) (ν : K) {V T : K} (hV : 0 < V) (hT : 0 < T) :
    ∃ b', charge b 0 V T ν = .ok (b', 0) ∧ b'.charge = b.charge ∧ b'.power = 0 := by
  unfold charge
  split
  · split
    · exact ⟨_, contCharge_zero b ν hV hT, rfl, rfl⟩
    · obtain ⟨h0, h1, _, _⟩ := stepPower_bounds hb ν (le_refl (0 : K)) hV hT
      have hz : stepPower b 0 V T ν = 0 := le_antisymm (by simpa using h1) h0
      have e : stepCharge b 0 V T ν = .ok ({ b with power := 0 }, 0) := by
        rw [stepCharge_ok b 0 ν hV hT hb.cap_pos.ne', hz]; simp
      exact ⟨_, e, rfl, rfl⟩
  · obtain ⟨h0, h1, _, _⟩ := idealPower_bounds hb (le_refl (0 : K)) hV hT
    have hz : idealPower b 0 V T = 0 := le_antisymm (by simpa using h1) h0
    have e : idealCharge b 0 V T = .ok ({ b with power := 0 }, 0) := by
      rw [idealCharge_ok b 0 hV hT, hz]; simp
    exact ⟨_, e, rfl, rfl⟩

end field

/-! ### the two-stage closed form (ℝ) -/

/-- the documented law as a rate of change of SoC -/
noncomputable def docRate (p0 m ts y : ℝ) : ℝ :=
  min p0 (if y ≤ ts then m else m * (1 - y) / (1 - ts))

/-- with `κ = m/(1−ts)`: the documented rate is `min (min p0 m) (κ (1 − y))` -/
theorem docRate_eq {p0 m ts : ℝ} (hm : 0 < m) (hts : ts < 1) (y : ℝ) :
    docRate p0 m ts y = min (min p0 m) (m / (1 - ts) * (1 - y)) := by
  have h1 : 0 < 1 - ts := by linarith
  unfold docRate
  rw [min_assoc]
  congr 1
  split_ifs with h
  · rw [min_eq_left]
    rw [div_mul_eq_mul_div, le_div_iff₀ h1]; nlinarith
  · rw [min_eq_right]
    · ring
    · rw [div_mul_eq_mul_div, div_le_iff₀ h1]; nlinarith [not_le.mp h]

/-- the closed form, regime by regime.  With `p = min pilot_dsoc max_dsoc`,
    `κ = max_dsoc/(1−ts)` and `pts = 1 − p/κ` (which is the code's `pilot_transition_soc`):
    * pre-rampdown, no crossing within the period:  `s + p`
    * crossing at time `(pts − s)/p`:                `1 − (1−pts)·exp(−κ (s + p − pts)/p)`
    * rampdown from the start:                       `1 − (1−s)·exp(−κ)` -/
theorem twoStage_closed_form_regimes {s ts pd0 md : ℝ} (hmd : 0 < md) (hpd : 0 < pd0) (hts : ts < 1) :
    contPts ts (min pd0 md) md = 1 - min pd0 md / (md / (1 - ts)) ∧
    (s + min pd0 md ≤ 1 - min pd0 md / (md / (1 - ts)) → contSoc s ts pd0 md = s + min pd0 md) ∧
    (s < 1 - min pd0 md / (md / (1 - ts)) → 1 - min pd0 md / (md / (1 - ts)) < s + min pd0 md →
      contSoc s ts pd0 md = 1 - (min pd0 md / (md / (1 - ts))) *
        exp (-(md / (1 - ts)) * (s + min pd0 md - (1 - min pd0 md / (md / (1 - ts)))) / min pd0 md)) ∧
    (1 - min pd0 md / (md / (1 - ts)) ≤ s → contSoc s ts pd0 md = 1 - (1 - s) * exp (-(md / (1 - ts)))) := by
  have h1ts : 0 < 1 - ts := by linarith
  have hp : 0 < min pd0 md := lt_min hpd hmd
  have hκ : 0 < md / (1 - ts) := div_pos hmd h1ts
  rw [contSoc_eq_flow hmd hpd hts]
  unfold flowSoc
  set p := min pd0 md
  set κ := md / (1 - ts) with hκ_def
  set a := p / κ with ha_def
  have ha : 0 < a := div_pos hp hκ
  have ha0 : a ≠ 0 := ha.ne'
  have hpa : p = a * κ := by rw [ha_def]; field_simp
  have hw : κ * (1 - s) / p = (1 - s) / a := by rw [hpa]; field_simp
  rw [hw, mul_one]
  refine ⟨?_, ?_, ?_, ?_⟩
  · unfold contPts; rw [ha_def, hκ_def]; field_simp; ring_nf
  · intro h
    have hw1 : 1 < (1 - s) / a := by rw [lt_div_iff₀ ha]; nlinarith
    have : κ ≤ (1 - s) / a - 1 := by
      rw [le_sub_iff_add_le, le_div_iff₀ ha]; nlinarith
    rw [W_lin hw1 this]; rw [hpa]; field_simp; ring
  · intro h1 h2
    have hw1 : 1 < (1 - s) / a := by rw [lt_div_iff₀ ha]; linarith
    have : (1 - s) / a - 1 < κ := by
      rw [sub_lt_iff_lt_add, div_lt_iff₀ ha]; nlinarith
    rw [W_cross hw1 this]
    congr 2
    rw [hpa]; field_simp; ring_nf
  · intro h
    have hw1 : (1 - s) / a ≤ 1 := by rw [div_le_iff₀ ha]; linarith
    rw [W_ramp hw1]; field_simp

/-- **the closed form solves the documented law.**  As a function of the elapsed time `t`
    (the pilot's and the maximum SoC rates per period are `p0·t`, `m·t`), the result of
    `_charge` has derivative `docRate` of its own value at every `t > 0` — including the
    crossing instant, where the two one-sided derivatives agree — and tends to the initial
    SoC as `t → 0+` (the code rejects `t = 0`). -/
theorem twoStage_solves_law {s ts p0 m : ℝ} (hm : 0 < m) (hp0 : 0 < p0) (hts : ts < 1) :
    (∀ t, 0 < t → HasDerivAt (fun τ => contSoc s ts (p0 * τ) (m * τ))
        (docRate p0 m ts (contSoc s ts (p0 * t) (m * t))) t) ∧
    Tendsto (fun τ => contSoc s ts (p0 * τ) (m * τ)) (𝓝[>] 0) (𝓝 s) := by
  have h1ts : 0 < 1 - ts := by linarith
  have hp : 0 < min p0 m := lt_min hp0 hm
  have hκ : 0 < m / (1 - ts) := div_pos hm h1ts
  constructor
  · intro t ht
    rw [docRate_eq hm hts, contSoc_eq_flow_t hm hp0 hts ht]
    refine (flowSoc_hasDerivAt hp hκ ht.le).congr_of_eventuallyEq ?_
    exact (eventually_gt_nhds ht).mono (fun τ hτ => contSoc_eq_flow_t hm hp0 hts hτ)
  · have hc := (flowSoc_hasDerivAt (s := s) hp hκ (le_refl 0)).continuousAt.tendsto
    rw [flowSoc_zero hp hκ] at hc
    refine (hc.mono_left nhdsWithin_le_nhds).congr' ?_
    exact eventually_nhdsWithin_of_forall (fun τ hτ => (contSoc_eq_flow_t hm hp0 hts hτ).symm)

/-- **… and it is THE solution**: any function that starts at `s`, is continuous on `[0, T]`
    and has right derivative `docRate` of its own value on `[0, T)` coincides with the
    result of `_charge` for every elapsed time in `(0, T]` (Grönwall; `docRate` is Lipschitz) -/
theorem twoStage_solves_law_unique {s ts p0 m T : ℝ} (hm : 0 < m) (hp0 : 0 < p0) (hts : ts < 1)
    (z : ℝ → ℝ) (hz0 : z 0 = s) (hzc : ContinuousOn z (Icc 0 T))
    (hz : ∀ t ∈ Ico 0 T, HasDerivWithinAt z (docRate p0 m ts (z t)) (Ici t) t) :
    ∀ t, 0 < t → t ≤ T → z t = contSoc s ts (p0 * t) (m * t) := by
  intro t ht htT
  have h1ts : 0 < 1 - ts := by linarith
  rw [contSoc_eq_flow_t hm hp0 hts ht]
  have hz' : ∀ t ∈ Ico 0 T, HasDerivWithinAt z (min (min p0 m) (m / (1 - ts) * (1 - z t))) (Ici t) t := by
    intro t ht; rw [← docRate_eq hm hts]; exact hz t ht
  exact BattFlow.flow_unique (lt_min hp0 hm) (div_pos hm h1ts) z hz0 hzc hz' t ⟨ht.le, htT⟩

/-- semigroup property in SoC units: charging for `a` and then for `c` (from the SoC reached)
    is charging for `a + c` — all regimes, including splits at, before and after the crossing -/
theorem split_period_soc {s ts p0 m a c : ℝ} (hm : 0 < m) (hp0 : 0 < p0) (hts : ts < 1)
    (ha : 0 < a) (hc : 0 < c) :
    contSoc (contSoc s ts (p0 * a) (m * a)) ts (p0 * c) (m * c) =
      contSoc s ts (p0 * (a + c)) (m * (a + c)) := by
  have h1ts : 0 < 1 - ts := by linarith
  rw [contSoc_eq_flow_t hm hp0 hts ha, contSoc_eq_flow_t hm hp0 hts hc,
    contSoc_eq_flow_t hm hp0 hts (add_pos ha hc),
    flowSoc_semigroup (lt_min hp0 hm) (div_pos hm h1ts) ha.le hc.le]

/-- **splitting a period** on the battery object: `charge(pilot, V, T)` leaves the same charge
    as `charge(pilot, V, a)` followed by `charge(pilot, V, T − a)`, for every `0 < a < T`
    (the property's `T/2` is the instance `a = T/2`), and the delivered ampere-minutes add up -/
theorem split_period {b : Batt ℝ} (hb : Inv b) (hm : 0 < b.maxPower) (hn : ¬ 0 < b.noiseLevel)
    (ν1 ν2 ν3 : ℝ) {pilot V a T : ℝ} (hV : 0 < V) (ha : 0 < a) (haT : a < T) (hp : 0 ≤ pilot) :
    ∃ b1 r1 b2 r2 bT rT, contCharge b pilot V a ν1 = .ok (b1, r1) ∧
      contCharge b1 pilot V (T - a) ν2 = .ok (b2, r2) ∧ contCharge b pilot V T ν3 = .ok (bT, rT) ∧
      b2.charge = bT.charge ∧ r1 * a + r2 * (T - a) = rT * T := by
  have hT : 0 < T := lt_trans ha haT
  have hTa : 0 < T - a := by linarith
  rcases eq_or_lt_of_le hp with h0 | h0
  · subst h0
    refine ⟨_, _, _, _, _, _, contCharge_zero b ν1 hV ha, contCharge_zero _ ν2 hV hTa,
      contCharge_zero b ν3 hV hT, rfl, by ring⟩
  · obtain ⟨b1, r1, e1, hc1, hsp1, hr1⟩ := contCharge_flow hb hm hn ν1 hV ha h0
    obtain ⟨b1', r1', e1', hs1, _⟩ := contCharge_bounds hb hm ν1 hV ha hp
    rw [e1] at e1'; cases e1'
    have hb1 : Inv b1 := hb.of_sameParams hsp1 hs1.charge_le_cap
    have hcap : b1.capacity = b.capacity := hsp1.1
    have hm1 : 0 < b1.maxPower := by rw [hsp1.2.2.1]; exact hm
    have hn1 : ¬ 0 < b1.noiseLevel := by rw [hsp1.2.2.2.2.1]; exact hn
    obtain ⟨b2, r2, e2, hc2, hsp2, hr2⟩ := contCharge_flow hb1 hm1 hn1 ν2 hV hTa h0
    obtain ⟨bT, rT, eT, hcT, hspT, hrT⟩ := contCharge_flow hb hm hn ν3 hV hT h0
    have hpar := soc_of_sameParams hsp1 pilot V
    have hsoc1 : b1.charge / b1.capacity = flowSoc (rateP b pilot V) (kappa b) (b.charge / b.capacity) a := by
      rw [hc1, hcap]; field_simp [hb.cap_pos.ne']
    have hsame : b2.charge = bT.charge := by
      rw [hc2, hcT, hpar.1, hpar.2, hsoc1, hcap,
        flowSoc_semigroup (rateP_pos hb hm h0 hV) (kappa_pos hb hm) ha.le hTa.le]
      congr 2; ring
    refine ⟨b1, r1, b2, r2, bT, rT, e1, e2, eT, hsame, ?_⟩
    rw [hr1, hr2, hrT, hsame]
    field_simp; ring

/-- delivered energy is non-decreasing in the length of the period -/
theorem mono_T {b : Batt ℝ} (hb : Inv b) (hm : 0 < b.maxPower) (hn : ¬ 0 < b.noiseLevel)
    (ν1 ν2 : ℝ) {pilot V T1 T2 : ℝ} (hV : 0 < V) (hT1 : 0 < T1) (hT : T1 ≤ T2) (hp : 0 ≤ pilot) :
    ∃ b1 r1 b2 r2, contCharge b pilot V T1 ν1 = .ok (b1, r1) ∧
      contCharge b pilot V T2 ν2 = .ok (b2, r2) ∧ b1.charge ≤ b2.charge := by
  have hT2 : 0 < T2 := lt_of_lt_of_le hT1 hT
  rcases eq_or_lt_of_le hp with h0 | h0
  · subst h0
    exact ⟨_, _, _, _, contCharge_zero b ν1 hV hT1, contCharge_zero b ν2 hV hT2, le_refl _⟩
  · obtain ⟨b1, r1, e1, hc1, _, _⟩ := contCharge_flow hb hm hn ν1 hV hT1 h0
    obtain ⟨b2, r2, e2, hc2, _, _⟩ := contCharge_flow hb hm hn ν2 hV hT2 h0
    refine ⟨b1, r1, b2, r2, e1, e2, ?_⟩
    rw [hc1, hc2]
    exact mul_le_mul_of_nonneg_right
      (flowSoc_mono_t (rateP_pos hb hm h0 hV) (kappa_pos hb hm) (soc_le_one hb) hT1.le hT)
      hb.cap_pos.le

/-- delivered energy is non-decreasing in the pilot (including across the clamp at the maximum
    rate and across the regime boundaries, which move with the pilot) -/
theorem mono_pilot {b : Batt ℝ} (hb : Inv b) (hm : 0 < b.maxPower) (hn : ¬ 0 < b.noiseLevel)
    (ν1 ν2 : ℝ) {p1 p2 V T : ℝ} (hV : 0 < V) (hT : 0 < T) (hp1 : 0 ≤ p1) (hp : p1 ≤ p2) :
    ∃ b1 r1 b2 r2, contCharge b p1 V T ν1 = .ok (b1, r1) ∧
      contCharge b p2 V T ν2 = .ok (b2, r2) ∧ b1.charge ≤ b2.charge := by
  obtain ⟨b2, r2, e2, hs2, _⟩ := contCharge_bounds hb hm ν2 hV hT (le_trans hp1 hp)
  rcases eq_or_lt_of_le hp1 with h0 | h0
  · subst h0
    exact ⟨_, _, b2, r2, contCharge_zero b ν1 hV hT, e2, hs2.charge_mono⟩
  · have h02 : 0 < p2 := lt_of_lt_of_le h0 hp
    obtain ⟨b1, r1, e1, hc1, _, _⟩ := contCharge_flow hb hm hn ν1 hV hT h0
    obtain ⟨b2', r2', e2', hc2, _, _⟩ := contCharge_flow hb hm hn ν2 hV hT h02
    rw [e2] at e2'; cases e2'
    refine ⟨b1, r1, b2, r2, e1, e2, ?_⟩
    rw [hc1, hc2]
    refine mul_le_mul_of_nonneg_right ?_ hb.cap_pos.le
    have hc := hb.cap_pos
    have hle : rateP b p1 V ≤ rateP b p2 V := by
      unfold rateP
      refine min_le_min ?_ (le_refl _)
      have : p1 * V ≤ p2 * V := mul_le_mul_of_nonneg_right hp hV.le
      have h3 : p1 * V / 1000 / b.capacity ≤ p2 * V / 1000 / b.capacity :=
        div_le_div_of_nonneg_right (div_le_div_of_nonneg_right this (by norm_num)) hc.le
      exact div_le_div_of_nonneg_right h3 (by norm_num)
    exact flowSoc_mono_p (rateP_pos hb hm h0 hV) hle (kappa_pos hb hm) hT.le

/-- **reset after ANY history equals reset of the fresh battery**: calls never touch the
    parameters or the remembered initial charge, so `reset()` restores charge = init, power = 0
    and `reset(c)` has the same outcome (value or `ValueError`) as on the fresh object -/
theorem reset_restores (ops : List (Op ℝ)) (b : Batt ℝ) (i : Option ℝ) :
    reset (finalState b ops) i = reset b i ∧
    (reset b none = .ok { b with charge := b.init, power := 0 }) := by
  refine ⟨?_, rfl⟩
  obtain ⟨a1, a2, a3, a4, a5, a6, a7⟩ := finalState_sameParams ops b
  generalize finalState b ops = f at *
  obtain ⟨c, ch, ini, mp, pw, tw, nl, ts, cm⟩ := b
  obtain ⟨c', ch', ini', mp', pw', tw', nl', ts', cm'⟩ := f
  simp only at a1 a2 a3 a4 a5 a6 a7
  subst a1 a2 a3 a4 a5 a6 a7
  cases i <;> rfl

/-! ### non-vacuity -/

/-- `Linear2StageBattery(100, 70, 7)` (defaults: noise 0, transition SoC 0.8) -/
noncomputable def demo : Batt ℝ :=
  { capacity := 100, charge := 70, init := 70, maxPower := 7, power := 0, twoStage := true,
    noiseLevel := 0, ts := 4 / 5, cmode := .continuous }

example : Inv demo ∧ 0 < demo.maxPower ∧ ¬ 0 < demo.noiseLevel := by
  refine ⟨by constructor <;> norm_num [demo], by norm_num [demo], by norm_num [demo]⟩

/-- the three regimes are all inhabited for `ts = 4/5`, `max_dsoc = 1/10`: pilot rate 1/20
    gives `pts = 9/10`; SoC 1/2 stays linear, SoC 22/25 crosses, SoC 19/20 ramps down -/
example : let pts : ℝ := 1 - min (1/20) (1/10) / ((1/10) / (1 - 4/5))
    pts = 9/10 ∧ (1/2 : ℝ) + min (1/20) (1/10) ≤ pts ∧
    ((22/25 : ℝ) < pts ∧ pts < 22/25 + min (1/20) (1/10)) ∧ pts ≤ (19/20 : ℝ) := by
  have : min (1/20 : ℝ) (1/10) = 1/20 := min_eq_left (by norm_num)
  simp only [this]; norm_num

/-- splitting applies to the demo battery: 32 A at 208 V, 5 minutes split 2 + 3 -/
example : ∃ b1 r1 b2 r2 bT rT, contCharge demo 32 208 2 0 = .ok (b1, r1) ∧
    contCharge b1 32 208 (5 - 2) 0 = .ok (b2, r2) ∧ contCharge demo 32 208 5 0 = .ok (bT, rT) ∧
    b2.charge = bT.charge ∧ r1 * 2 + r2 * (5 - 2) = rT * 5 :=
  split_period (b := demo) (by constructor <;> norm_num [demo]) (by norm_num [demo])
    (by norm_num [demo]) 0 0 0 (by norm_num) (by norm_num) (by norm_num) (by norm_num)

end Acn.C14
