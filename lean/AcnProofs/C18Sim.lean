/-
  C18 on the SIMULATED trajectory — the analysis functions (`AcnModel/Analysis.lean`) evaluated on the final (or any
  loop-head) state of the full simulator model `Sim.run` (`AcnModel/AnalysisSim.lean`), tied to what the other
  properties prove about that state:

    C02  ledger_invariant / peak_eq_max / total_energy_eq_integral   → aggregate current & power, peak, total energy
    C01  run_spec / ev_history_keys                                  → datetimes (one per simulated period), ev_history
    C07  sim_consequences_of_schedSafe (delivered ≤ requested)       → proportion_of_energy_delivered ≤ 1
    C02  sim_rate_le_pilot (0 ≤ rate ≤ pilot; C03)                   → constraint currents within the limits (partial)

  Every theorem is about `Sim.run cfg sched n (Sim.init cfg) = (s, none)`: ANY scenario with distinct station ids, ANY
  scheduler, ANY fuel `n` (every loop head of a run that has not raised, in particular the final state).
  Helpers: `Lemmas/AnalysisSim.lean`, `Lemmas/AnalysisSimRun.lean`.
-/
import AcnProofs.Lemmas.AnalysisSimRun
import AcnProofs.C07

set_option linter.unusedSectionVars false
set_option linter.unusedVariables false

namespace Acn.C18Sim
open Acn Acn.Analysis Acn.AnalysisSim Acn.Sim Acn.Ledger Finset

variable {K : Type} [Field K] [LinearOrder K] [IsStrictOrderedRing K] [HasExp K]

/-! ### aggregate current, aggregate power, peak -/

/-- `aggregate_current(sim)`: one entry per column of `charging_rates`, entry `t` = Σ over the stations of the rate
    the simulator recorded for period `t`; 0 in every period that has not been simulated yet -/
theorem sim_aggregate_current (cfg : Cfg K) (hn : StationsNodup cfg)
    (sched : View K → Except EventCore.Err (Schedule K)) (n : Nat) (s : State K)
    (h : Sim.run cfg sched n (Sim.init cfg) = (s, none)) :
    aggregateCurrentSim s =
      (List.range (simT s)).map (fun t => ∑ i ∈ range cfg.stations.length, s.rates.get i t) ∧
    (∀ t, (aggregateCurrentSim s).getD t 0 = ∑ i ∈ range cfg.stations.length, s.rates.get i t) ∧
    (∀ t, s.core.iter ≤ t → (aggregateCurrentSim s).getD t 0 = 0) := by
  have hL := C02.ledger_invariant cfg hn sched n s h
  obtain ⟨hr, hl⟩ := rect_of_inv hL
  refine ⟨?_, aggSim_getD hL, ?_⟩
  · unfold aggregateCurrentSim
    rw [C18.aggregate_current_def _ _ hr, hl]; rfl
  · intro t ht
    rw [aggSim_getD hL]
    exact Finset.sum_eq_zero fun i _ => hL.future t i ht

/-- `Simulator.peak` IS the maximum of `aggregate_current(sim)` (and 0): an upper bound of every entry, attained by
    one of the simulated periods unless it is 0 -/
theorem sim_peak_is_max_aggregate_current (cfg : Cfg K) (hn : StationsNodup cfg)
    (sched : View K → Except EventCore.Err (Schedule K)) (n : Nat) (s : State K)
    (h : Sim.run cfg sched n (Sim.init cfg) = (s, none)) :
    0 ≤ s.peak ∧ (∀ t, (aggregateCurrentSim s).getD t 0 ≤ s.peak) ∧
    (s.peak = 0 ∨ ∃ τ < s.core.iter, s.peak = (aggregateCurrentSim s).getD τ 0) := by
  have hL := C02.ledger_invariant cfg hn sched n s h
  obtain ⟨p0, p1, p2⟩ := C02.peak_eq_max cfg hn sched n s h
  refine ⟨p0, ?_, ?_⟩
  · intro t
    by_cases ht : t < s.core.iter
    · rw [aggSim_getD hL]; exact p1 t ht
    · rw [(sim_aggregate_current cfg hn sched n s h).2.2 t (by omega)]; exact p0
  · rcases p2 with p2 | ⟨τ, hτ, p2⟩
    · exact Or.inl p2
    · exact Or.inr ⟨τ, hτ, by rw [aggSim_getD hL]; exact p2⟩

/-- `aggregate_power(sim)`: entry `t` = Σ over the stations of (the voltage the station was REGISTERED with) ·
    (recorded rate) / 1000 -/
theorem sim_aggregate_power (cfg : Cfg K) (hn : StationsNodup cfg)
    (sched : View K → Except EventCore.Err (Schedule K)) (n : Nat) (s : State K)
    (h : Sim.run cfg sched n (Sim.init cfg) = (s, none)) :
    aggregatePowerSim cfg s =
      (List.range (simT s)).map
        (fun t => (∑ i ∈ range cfg.stations.length, volt cfg i * s.rates.get i t) / 1000) ∧
    (∀ t, (aggregatePowerSim cfg s).getD t 0 =
      (∑ i ∈ range cfg.stations.length, volt cfg i * s.rates.get i t) / 1000) := by
  have hL := C02.ledger_invariant cfg hn sched n s h
  obtain ⟨hr, hl⟩ := rect_of_inv hL
  refine ⟨?_, powSim_getD hL⟩
  unfold aggregatePowerSim
  rw [C18.aggregate_power_def _ _ _ hr, hl]; rfl

/-! ### total energy: analysis = ledger -/

/-- `total_energy_delivered` over the scenario's EV objects = Σ of the sessions' energy counters
    = Σ over the simulated periods of `aggregate_power(sim)[τ] · period / 60` (fresh EVs, distinct session ids) -/
theorem sim_total_energy_eq_integral (cfg : Cfg K) (hn : StationsNodup cfg)
    (hid : (cfg.evs.map (·.session)).Nodup) (hfresh : ∀ e ∈ cfg.evs, e.delivered = 0)
    (sched : View K → Except EventCore.Err (Schedule K)) (n : Nat) (s : State K)
    (h : Sim.run cfg sched n (Sim.init cfg) = (s, none)) :
    totalDelivered (allEvs s) = (s.evs.map (·.delivered)).sum ∧
    totalDelivered (allEvs s) =
      ∑ τ ∈ range s.core.iter, (aggregatePowerSim cfg s).getD τ 0 * (cfg.period / 60) := by
  have hL := C02.ledger_invariant cfg hn sched n s h
  have h1 : totalDelivered (allEvs s) = (s.evs.map (·.delivered)).sum := by
    unfold totalDelivered allEvs
    rw [Analysis.sumK_eq_sum, List.map_map]; rfl
  refine ⟨h1, ?_⟩
  have h0 : (cfg.evs.map (·.delivered)).sum = 0 := by
    apply List.sum_eq_zero
    intro x hx
    obtain ⟨e, he, rfl⟩ := List.mem_map.1 hx
    exact hfresh e he
  have ht := C02.total_energy_eq_integral cfg hn hid sched n s h
  rw [h0, sub_zero] at ht
  rw [h1, ht]
  apply Finset.sum_congr rfl
  intro τ _
  rw [powSim_getD hL, Finset.sum_div]

/-- what a COMPLETE run (`Valid` scenario, fuel ≥ horizon, nothing raised) leaves behind: C01 -/
theorem complete_run_facts (cfg : Cfg K) (hv : EventCore.Valid cfg.core)
    (sched : View K → Except EventCore.Err (Schedule K)) (n : Nat) (hN : EventCore.horizon cfg.core ≤ n)
    (s : State K) (h : Sim.run cfg sched n (Sim.init cfg) = (s, none)) :
    s.core.iter = EventCore.horizon cfg.core ∧ s.core.pending = [] ∧
    s.core.evHist.Perm (cfg.evs.map (·.session)) := by
  have hproj := Sim.run_core cfg sched n (Sim.init cfg) (by rw [h])
  rw [h] at hproj
  obtain ⟨c', hr, hI'⟩ := EventCore.run_spec hv (sched := EventCore.noFail) (apply := EventCore.noFail)
    (fun _ => rfl) (fun _ => rfl) n 0 (EventCore.init cfg.core) (EventCore.init_inv hv) (Nat.zero_le _)
  rw [Sim.init_core, hr] at hproj
  obtain rfl : c' = s.core := by simpa using hproj
  have hmin : min (0 + n) (EventCore.horizon cfg.core) = EventCore.horizon cfg.core := by omega
  rw [hmin] at hI'
  have c01 := C01.sim_run_C01 cfg sched hv n hN (by rw [h])
  rw [h] at c01
  refine ⟨hI'.iter, c01.1, ?_⟩
  have hp := (C01.ev_history_keys hv hI').2
  have hids : cfg.core.sessions.map (·.id) = cfg.evs.map (·.session) := by
    simp [Cfg.core, sessionOf, List.map_map, Function.comp_def]
  rw [hids] at hp
  exact hp

/-- COMPLETE run: `sim.ev_history.values()` are the scenario's EV objects (every session has plugged in), and
    `total_energy_delivered(sim)` — the sum over `ev_history` the code computes — is the integral of
    `aggregate_power(sim)` over the whole horizon -/
theorem sim_total_energy_complete (cfg : Cfg K) (hn : StationsNodup cfg)
    (hid : (cfg.evs.map (·.session)).Nodup) (hfresh : ∀ e ∈ cfg.evs, e.delivered = 0)
    (hv : EventCore.Valid cfg.core)
    (sched : View K → Except EventCore.Err (Schedule K)) (n : Nat) (hN : EventCore.horizon cfg.core ≤ n)
    (s : State K) (h : Sim.run cfg sched n (Sim.init cfg) = (s, none)) :
    (histEvs s).Perm (allEvs s) ∧
    totalDeliveredSim s =
      ∑ τ ∈ range (EventCore.horizon cfg.core), (aggregatePowerSim cfg s).getD τ 0 * (cfg.period / 60) := by
  have hL := C02.ledger_invariant cfg hn sched n s h
  obtain ⟨hi, _, hp⟩ := complete_run_facts cfg hv sched n hN s h
  have hperm := histEvs_perm hL hid hp
  refine ⟨hperm, ?_⟩
  unfold totalDeliveredSim
  rw [totalDelivered_perm hperm, (sim_total_energy_eq_integral cfg hn hid hfresh sched n s h).2, hi]

/-! ### proportions -/

/-- `proportion_of_energy_delivered` on a state in which no EV got more than it requested (C07's conclusion, here a
    hypothesis) and something was requested: defined, ≤ 1, and = 1 iff EVERY request was met in full -/
theorem proportion_le_one_of_le_requested (s : State K)
    (hle : ∀ e ∈ s.evs, e.delivered ≤ e.requested) (hpos : 0 < ((allEvs s).map (·.requested)).sum) :
    ∃ p, proportionDelivered (allEvs s) = .ok p ∧ p ≤ 1 ∧
      (p = 1 ↔ ∀ e ∈ s.evs, e.delivered = e.requested) := by
  obtain ⟨p, hp, _, h1, h2, _⟩ := proportion_spec (allEvs s)
    (by intro e he; obtain ⟨e', he', rfl⟩ := List.mem_map.1 he; exact hle e' he') hpos
  refine ⟨p, hp, h1, h2.trans ?_⟩
  simp [allEvs, evOfSim]

/-- THE LINK TO C07: for every scheduler with C07's per-call guarantees (`SchedSafe`: pilots within the occupant's
    remaining demand and the EVSE's accepted set) on a well-formed configuration, at every loop head of a run that
    has not raised: `proportion_of_energy_delivered ≤ 1`, with equality iff every request was met -/
theorem sim_proportion_le_one (feasP : List ℝ → Bool) (cfg : Cfg ℝ) (inf : ℝ) (hc : Sorted.CfgOk cfg inf)
    (sched : View ℝ → Except EventCore.Err (Schedule ℝ)) (hs : Sorted.SchedSafe feasP cfg inf sched)
    (hb : ∀ e ∈ cfg.evs, BattAlg.Inv e.batt ∧ e.delivered ≤ e.requested) (n : Nat) (s : State ℝ)
    (h : Sim.run cfg sched n (Sim.init cfg) = (s, none))
    (hpos : 0 < ((allEvs s).map (·.requested)).sum) :
    ∃ p, proportionDelivered (allEvs s) = .ok p ∧ p ≤ 1 ∧
      (p = 1 ↔ ∀ e ∈ s.evs, e.delivered = e.requested) := by
  have hcons := (C07.sim_consequences_of_schedSafe feasP cfg inf hc sched hs hb n).2 (by rw [h])
  rw [h] at hcons
  exact proportion_le_one_of_le_requested s (fun e he => (hcons.1 e he).1) hpos

theorem proportionDelivered_perm {a b : List (Analysis.Ev K)} (h : a.Perm b) :
    proportionDelivered a = proportionDelivered b := by
  unfold proportionDelivered
  rw [totalDelivered_perm h, totalRequested_perm h]

/-- … and for a COMPLETE run the same about `proportion_of_energy_delivered(sim)` as the code computes it (over
    `ev_history`) -/
theorem sim_proportion_le_one_complete (feasP : List ℝ → Bool) (cfg : Cfg ℝ) (inf : ℝ) (hc : Sorted.CfgOk cfg inf)
    (hn : StationsNodup cfg) (hid : (cfg.evs.map (·.session)).Nodup) (hv : EventCore.Valid cfg.core)
    (sched : View ℝ → Except EventCore.Err (Schedule ℝ)) (hs : Sorted.SchedSafe feasP cfg inf sched)
    (hb : ∀ e ∈ cfg.evs, BattAlg.Inv e.batt ∧ e.delivered ≤ e.requested) (n : Nat)
    (hN : EventCore.horizon cfg.core ≤ n) (s : State ℝ)
    (h : Sim.run cfg sched n (Sim.init cfg) = (s, none))
    (hpos : 0 < ((allEvs s).map (·.requested)).sum) :
    ∃ p, proportionDeliveredSim s = .ok p ∧ p ≤ 1 ∧
      (p = 1 ↔ ∀ e ∈ s.evs, e.delivered = e.requested) := by
  have hL := C02.ledger_invariant cfg hn sched n s h
  obtain ⟨_, _, hp⟩ := complete_run_facts cfg hv sched n hN s h
  unfold proportionDeliveredSim
  rw [proportionDelivered_perm (histEvs_perm hL hid hp)]
  exact sim_proportion_le_one feasP cfg inf hc sched hs hb n s h hpos

/-- `proportion_of_demands_met(sim, threshold)` is monotone in the threshold, within [0, 1], and 1 once every
    session's remaining demand is below the threshold — any state with a non-empty EV history -/
theorem sim_demands_met_mono (s : State K) (hne : histEvs s ≠ []) (thr thr' : K) (hle : thr ≤ thr') :
    (∃ a b, demandsMetSim s thr = .ok a ∧ demandsMetSim s thr' = .ok b ∧ 0 ≤ a ∧ a ≤ b ∧ b ≤ 1) ∧
    ((∀ e ∈ histEvs s, e.requested - e.delivered < thr) → demandsMetSim s thr = .ok 1) :=
  ⟨demandsMet_mono (histEvs s) hne thr thr' hle, demandsMet_all (histEvs s) hne thr⟩

/-! ### datetimes -/

/-- `datetimes_array(sim)` in ANY state (finished or not): one entry per period simulated so far, entry `t` =
    start + t · period, consecutive entries exactly one period apart; the warning is raised iff the event queue is
    not empty -/
theorem sim_datetimes (start : K) (cfg : Cfg K) (s : State K) :
    (datetimesSim start cfg s).length = s.core.iter ∧
    (∀ t, t < s.core.iter → (datetimesSim start cfg s).getD t 0 = start + cfg.period * (t : K)) ∧
    (∀ t, t + 1 < s.core.iter →
      (datetimesSim start cfg s).getD (t + 1) 0 - (datetimesSim start cfg s).getD t 0 = cfg.period) ∧
    (warnsUnfinished s = true ↔ s.core.pending ≠ []) := by
  have hget : ∀ t, t < s.core.iter → (datetimesSim start cfg s).getD t 0 = start + cfg.period * (t : K) := by
    intro t ht
    unfold datetimesSim datetimes
    rw [getD_map_range 0 _ _ t ht]
  refine ⟨by simp [datetimesSim, datetimes], hget, ?_, ?_⟩
  · intro t ht
    rw [hget (t + 1) ht, hget t (by omega)]
    push_cast; ring
  · cases hp : s.core.pending <;> simp [warnsUnfinished, hp]

/-- COMPLETE run: exactly `horizon` (= last event + 1) datetimes, no warning -/
theorem sim_datetimes_complete (start : K) (cfg : Cfg K) (hv : EventCore.Valid cfg.core)
    (sched : View K → Except EventCore.Err (Schedule K)) (n : Nat) (hN : EventCore.horizon cfg.core ≤ n)
    (s : State K) (h : Sim.run cfg sched n (Sim.init cfg) = (s, none)) :
    (datetimesSim start cfg s).length = EventCore.horizon cfg.core ∧ warnsUnfinished s = false := by
  obtain ⟨hi, hp, _⟩ := complete_run_facts cfg hv sched n hN s h
  refine ⟨by rw [(sim_datetimes start cfg s).1, hi], ?_⟩
  simp [warnsUnfinished, hp]

/-! ### constraint currents of the recorded trajectory and the network's limits (link to C06 / C07) -/

/-
  FULL STATEMENT (as the task words it): "whenever every applied schedule was feasible, the constraint currents of the
  RECORDED trajectory satisfy the network's feasibility bound".  With feasibility in the network's phasor sense this is
  FALSE for constraints with coefficients of both signs (the second example below: the pilots (10, 10) under the row
  (1, −1) carry 0 A, the recorded rates (10, 0) — an EV that takes nothing — carry 10 A).  What holds, and is proved,
  is the statement for the LINEAR bound of the applied pilots (`is_feasible(linear=True)`, C06 `linAggDoc`: Σ |a_j|·pilot_j),
  which is the bound the sorted algorithms' feasibility predicate implies for single-phase / same-sign rows.
-/

/-- For every scenario whose batteries satisfy C03's invariant, every scheduler that submits non-negative pilots,
    every loop head of a run that has not raised, every constraint row `row`, unit (or shorter) phasors `(c_j, s_j)`,
    period `τ` and limit `L`: if the pilots APPLIED in period `τ` respect the linear bound `Σ |a_j| · pilot_j(τ) ≤ L`
    then the aggregate phasor current of the RECORDED rates under that row has squared magnitude `≤ L²`
    (0 ≤ rate ≤ pilot — C02.sim_rate_le_pilot / C03 — and the triangle inequality). -/
theorem sim_constraint_current_within_limit_partial (cfg : Cfg ℝ) (hn : StationsNodup cfg)
    (hb : ∀ e ∈ cfg.evs, BattAlg.Inv e.batt)
    (sched : View ℝ → Except EventCore.Err (Schedule ℝ)) (hs : SchedNonneg sched) (n : Nat) (s : State ℝ)
    (h : Sim.run cfg sched n (Sim.init cfg) = (s, none))
    (row c sn : List ℝ) (hcs : ∀ j, c.getD j 0 * c.getD j 0 + sn.getD j 0 * sn.getD j 0 ≤ 1) (L : ℝ) (τ : Nat)
    (hlin : ∑ j ∈ range cfg.stations.length, |row.getD j 0| * s.pilots.get j τ ≤ L) :
    phasorSum row c (simR s) τ ^ 2 + phasorSum row sn (simR s) τ ^ 2 ≤ L ^ 2 := by
  have hL := C02.ledger_invariant cfg hn sched n s h
  obtain ⟨_, hl⟩ := rect_of_inv hL
  have hrp := fun j => C02.sim_rate_le_pilot cfg hn hb sched hs n s h j τ
  obtain ⟨k1, k2⟩ := phasor_sq_le (fun j => row.getD j 0 * s.rates.get j τ) (fun j => c.getD j 0)
    (fun j => sn.getD j 0) hcs cfg.stations.length
  have e1 : ∀ cc : List ℝ, phasorSum row cc (simR s) τ =
      ∑ j ∈ range cfg.stations.length, (row.getD j 0 * s.rates.get j τ) * cc.getD j 0 := by
    intro cc
    unfold phasorSum
    rw [hl]
    exact Finset.sum_congr rfl fun j _ => by rw [ent_simR, mul_assoc]
  rw [e1 c, e1 sn]
  have hle : ∑ j ∈ range cfg.stations.length, |row.getD j 0 * s.rates.get j τ| ≤ L := by
    refine le_trans (Finset.sum_le_sum fun j _ => ?_) hlin
    rw [abs_mul, abs_of_nonneg (hrp j).1]
    exact mul_le_mul_of_nonneg_left (hrp j).2 (abs_nonneg _)
  exact le_trans k1 (pow_le_pow_left₀ k2 hle 2)

/-- … and read through `analysis.constraint_currents(sim)` (complex values, all constraints): the entry of
    `result[name]` for period `τ` is the phasor of THE ROW WITH THAT NAME, so it obeys the bound above -/
theorem sim_constraint_currents_within_limit_partial (cfg : Cfg ℝ) (hn : StationsNodup cfg)
    (hb : ∀ e ∈ cfg.evs, BattAlg.Inv e.batt)
    (sched : View ℝ → Except EventCore.Err (Schedule ℝ)) (hs : SchedNonneg sched) (n : Nat) (s : State ℝ)
    (h : Sim.run cfg sched n (Sim.init cfg) = (s, none))
    (names : List String) (M : Matrix ℝ) (c sn : List ℝ) (hnn : names.Nodup) (hM : M.length = names.length)
    (hc : c.length = cfg.stations.length) (hsn : sn.length = cfg.stations.length)
    (hcs : ∀ j, c.getD j 0 * c.getD j 0 + sn.getD j 0 * sn.getD j 0 ≤ 1) :
    ∃ d, constraintCurrentsSim names M c sn s none = .ok d ∧
      ∀ name row L τ, rowNamed names M name = some row → τ < simT s →
        ∑ j ∈ range cfg.stations.length, |row.getD j 0| * s.pilots.get j τ ≤ L →
        ∃ z, (dictGet d name).bind (fun l => l[τ]?) = some z ∧ z.1 ^ 2 + z.2 ^ 2 ≤ L ^ 2 := by
  have hL := C02.ledger_invariant cfg hn sched n s h
  obtain ⟨hr, hl⟩ := rect_of_inv hL
  obtain ⟨d, hd, hget⟩ := C18.constraint_currents_keys names M c sn (simR s) (simT s) hnn hM hr
    (by rw [hc, hl]) (by rw [hsn, hl])
  refine ⟨d, hd, ?_⟩
  intro name row L τ hrow hτ hlin
  refine ⟨(phasorSum row c (simR s) τ, phasorSum row sn (simR s) τ), ?_,
    sim_constraint_current_within_limit_partial cfg hn hb sched hs n s h row c sn hcs L τ hlin⟩
  rw [hget name, hrow]
  simp [hτ]

/-- the phasor form of the full statement fails: row (1, −1), both stations in phase; pilots (10, 10) are feasible
    for the limit 5 (aggregate 0), the rates (10, 0) — 0 ≤ rate ≤ pilot — carry 10 A > 5 A -/
example : phasorSum ([1, -1] : List ℚ) [1, 1] [[10], [10]] 0 ^ 2 + phasorSum ([1, -1] : List ℚ) [0, 0] [[10], [10]] 0 ^ 2 ≤ 5 ^ 2 ∧
    ¬ (phasorSum ([1, -1] : List ℚ) [1, 1] [[10], [0]] 0 ^ 2 + phasorSum ([1, -1] : List ℚ) [0, 0] [[10], [0]] 0 ^ 2 ≤ 5 ^ 2) := by
  simp [phasorSum, ent, Finset.sum_range_succ]
  norm_num

/-! ### keywords of `current_unbalance`, tariff selection of the cost functions -/

/-- `current_unbalance(sim, ids, unbalance_type=u, type=ty)`: a `type` that is not `None` REPLACES `unbalance_type`
    (so `type=x` behaves exactly like `unbalance_type=x`); "NEMA" computes the NEMA unbalance, every other string is
    a ValueError -/
theorem current_unbalance_keywords (sqrt : K → K) (names : List String) (M : Matrix K) (c s : List K) (R : Matrix K)
    (T : Nat) (ids : List String) (u x : String) :
    currentUnbalance sqrt names M c s R T ids u (some x) = currentUnbalance sqrt names M c s R T ids x none ∧
    currentUnbalance sqrt names M c s R T ids "NEMA" none = nemaUnbalance sqrt names M c s R T ids ∧
    (x ≠ "NEMA" → currentUnbalance sqrt names M c s R T ids x none = .error .valueError) := by
  refine ⟨rfl, by simp [currentUnbalance], ?_⟩
  intro hx
  simp [currentUnbalance, hx]

/-- `energy_cost` / `demand_charge`: the `tariff=` argument wins; without it the tariff of `sim.signals` is used; a
    signals dict without one is the documented ValueError -/
theorem pick_tariff_spec {α : Type} (t t' : α) (sg : Option (Option α)) :
    pickTariff (some t) sg = .ok t ∧ pickTariff none (some (some t')) = .ok t' ∧
    pickTariff (none : Option α) (some none) = .error .valueError := ⟨rfl, rfl, rfl⟩

/-! ### non-vacuity: C02's example scenario (stations A 1000 V / B 500 V, sessions x, y, z, 60-minute periods) -/

section simex
local instance : HasExp ℚ := ⟨fun x => x⟩

/-- the analysis on the final state of the run: aggregate current per period, aggregate power, the peak 14 A is
    the maximum of the aggregate current (period 1), total energy 23¼ kWh = Σ P_t · 1 h, four datetimes one period
    apart, no warning; delivered ≤ requested fails for x (14 > 3) — the schedule ignores the demand — so the
    proportion exceeds 1 there, which is why `sim_proportion_le_one` needs C07's hypothesis -/
example :
    aggregateCurrentSim (Sim.run C02.exCfg C02.exSched 8 (Sim.init C02.exCfg)).1 = [7, 14, 19 / 2, 0] ∧
    aggregatePowerSim C02.exCfg (Sim.run C02.exCfg C02.exSched 8 (Sim.init C02.exCfg)).1 = [7, 21 / 2, 23 / 4, 0] ∧
    (Sim.run C02.exCfg C02.exSched 8 (Sim.init C02.exCfg)).1.peak = 14 ∧
    totalDeliveredSim (Sim.run C02.exCfg C02.exSched 8 (Sim.init C02.exCfg)).1 = 93 / 4 ∧
    (7 + 21 / 2 + 23 / 4 + 0 : ℚ) * (60 / 60) = 93 / 4 ∧
    (histEvs (Sim.run C02.exCfg C02.exSched 8 (Sim.init C02.exCfg)).1).map (fun e => (e.requested, e.delivered))
      = [(3, 14), (5, 29 / 4), (9, 2)] ∧
    datetimesSim 100 C02.exCfg (Sim.run C02.exCfg C02.exSched 8 (Sim.init C02.exCfg)).1 = [100, 160, 220, 280] ∧
    warnsUnfinished (Sim.run C02.exCfg C02.exSched 8 (Sim.init C02.exCfg)).1 = false ∧
    proportionDeliveredSim (Sim.run C02.exCfg C02.exSched 8 (Sim.init C02.exCfg)).1 = .ok (93 / 68) ∧
    demandsMetSim (Sim.run C02.exCfg C02.exSched 8 (Sim.init C02.exCfg)).1 0 = .ok (2 / 3) ∧
    demandsMetSim (Sim.run C02.exCfg C02.exSched 8 (Sim.init C02.exCfg)).1 8 = .ok 1 := by
  decide +kernel

/-- an UNFINISHED simulation (the scheduler raises in period 2): two datetimes, the warning is due -/
example :
    (Sim.run C02.exCfg (C02.exCrash 2) 8 (Sim.init C02.exCfg)).2 = some .schedulerFailed ∧
    datetimesSim 100 C02.exCfg (Sim.run C02.exCfg (C02.exCrash 2) 8 (Sim.init C02.exCfg)).1 = [100, 160] ∧
    warnsUnfinished (Sim.run C02.exCfg (C02.exCrash 2) 8 (Sim.init C02.exCfg)).1 = true ∧
    aggregateCurrentSim (Sim.run C02.exCfg (C02.exCrash 2) 8 (Sim.init C02.exCfg)).1 = [7, 14, 0, 0] := by
  decide +kernel

/-- the scenario is `Valid`, ids distinct, EVs fresh: hypotheses of the `_complete` theorems -/
example : EventCore.Valid C02.exCfg.core ∧ (C02.exCfg.evs.map (·.session)).Nodup ∧
    (∀ e ∈ C02.exCfg.evs, e.delivered = 0) ∧ EventCore.horizon C02.exCfg.core ≤ 8 := by
  refine ⟨by constructor <;> simp [C02.exCfg, Cfg.core, sessionOf], by decide +kernel, ?_, by decide +kernel⟩
  intro e he
  simp [C02.exCfg] at he
  rcases he with rfl | rfl | rfl <;> rfl

/-- keywords: `type="NEMA"` overrides a wrong `unbalance_type`; a wrong `type` overrides a right one -/
example : currentUnbalance (fun x => x) ["x", "y", "z"] ([[1, -1], [0, 2], [1, 1]] : Matrix ℚ) [1, 0] [0, -1]
      [[3, 0, 5], [6, 0, 8]] 3 ["z", "y", "z"] "IEC" (some "NEMA") = .ok [some (11 / 13), none, some (167 / 217)] ∧
    currentUnbalance (fun x => x) ["x", "y", "z"] ([[1, -1], [0, 2], [1, 1]] : Matrix ℚ) [1, 0] [0, -1]
      [[3, 0, 5], [6, 0, 8]] 3 ["z", "y", "z"] "NEMA" (some "nema") = .error .valueError := by decide +kernel

end simex

end Acn.C18Sim
