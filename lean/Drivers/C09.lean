/-
  Driver for C09.  One request may carry two parts:

  "sim": a whole-simulation scenario in the format of `AcnModel/WireSim.lean` whose scheduler fails
         at the chosen period, plus "resume": the scheduler that continues from the failed state
         (same semantics as `Drivers/C01.lean`); answer: the resumed result with "first" = the
         failed run and "crash_store" = the model's encoding of the failed state as an object store
         (`RegistrySim.encode`, root id 0), to be compared with the implementation's `to_json()`.
  "reg": {"root": id, "store": [[id, class, [[attr, <val>], …]], …]} — an object store as written by
         `to_json` (listed in ANY order); <val> = {"s": text} | {"r": id} | {"l": [{"s": text} | {"r": id}, …]}.
         answer: the order in which `dump` enters the objects, whether `load (dump st)` reproduces
         it, key-uniqueness, the addresses of the loaded objects, and the size of the memo-less walk.
  "sorted": a request of `AcnModel/WireSortedRd.lean` (the C07 driver's format: algorithm configuration,
         observed infrastructure, `"calls": []`, and a `"simrun"` scenario): the UNINTERRUPTED whole simulation
         with the MODELLED sorted algorithm / round robin / uncontrolled baseline as scheduler — without
         estimator through `Sim.run`, with the `SimpleRampdown` estimator through the stateful loop
         `SimSortedRd.runSt` (the estimator object threaded from call to call).  answer: that run in the
         `jResult` format (+ "rd_bounds").  The harness compares it with the implementation's uninterrupted
         run AND with its interrupted / serialised / resumed runs under the same algorithm object.
  "json": {"docs": [text, …], "strs": [string, …], "ints": [int, …]} — the TEXT layer (`AcnModel/JsonText.lean`):
         every doc (a whole `to_json()` document of the implementation) is parsed by the modelled `json.loads` and
         rendered again by the modelled `json.dumps` (null when it does not parse); every string / int is
         rendered, and parsed back.  The harness compares with CPython's `json.dumps` / `json.loads` byte for byte.
-/
import AcnModel.WireSim
import AcnModel.Registry
import AcnModel.RegistrySim
import AcnModel.WireSortedRd
import AcnModel.RegistryJson
open Lean Acn Acn.Wire Acn.EventCore Acn.Sim

namespace Acn.RegWire
open Acn.Registry

def parseItem (j : Json) : Except String Item :=
  match j.getObjVal? "r" with
  | .ok v => do pure (.ref (← v.getNat?))
  | .error _ => do pure (.scalar (← getStr j "s"))

def parseVal (j : Json) : Except String Val :=
  match j.getObjVal? "l" with
  | .ok v => do pure (.list (← (← asArr v).mapM parseItem))
  | .error _ =>
    match j.getObjVal? "r" with
    | .ok v => do pure (.ref (← v.getNat?))
    | .error _ => do pure (.scalar (← getStr j "s"))

def parseObj (j : Json) : Except String (Id × Obj) := do
  match ← asArr j with
  | [i, c, as] =>
    let attrs ← (← asArr as).mapM fun a => do
      match ← asArr a with
      | [k, v] => pure ((← k.getStr?), (← parseVal v))
      | _ => throw "attribute must be [name, value]"
    pure ((← i.getNat?), { cls := ← c.getStr?, attrs })
  | _ => throw "object must be [id, class, attrs]"

def jErr : Registry.Err → Json
  | .missing i => Json.mkObj [("missing", jN i)]
  | .fuel => jS "fuel"

def jItem : Item → Json
  | .scalar s => Json.mkObj [("s", jS s)]
  | .ref i => Json.mkObj [("r", jN i)]

def jVal : Val → Json
  | .scalar s => Json.mkObj [("s", jS s)]
  | .ref i => Json.mkObj [("r", jN i)]
  | .list l => Json.mkObj [("l", jList jItem l)]

def jObj (p : Id × Obj) : Json :=
  Json.arr #[jN p.1, jS p.2.cls, jList (fun a => Json.arr #[jS a.1, jVal a.2]) p.2.attrs]

def handleReg (j : Json) : Except String Json := do
  let root ← getNat j "root"
  let st ← (← getArr j "store").mapM parseObj
  match dump st root with
  | .error e => pure (Json.mkObj [("dump", jErr e)])
  | .ok ctx =>
    let ld := load ctx root
    let nm := visitNoMemo st (st.length + 1) root []
    pure (Json.mkObj [
      ("dump", jS "ok"),
      ("order", jList jN ctx.keys),
      ("ctx", jList jObj ctx),
      ("nodup", jB (decide ctx.keys.Nodup)),
      ("load", match ld with | .ok _ => jS "ok" | .error e => jErr e),
      ("load_eq_dump", jB (match ld with | .ok l => decide (l = ctx) | .error _ => false)),
      ("addr", match ld with
        | .ok l => jList (fun i => Json.arr #[jN i, jOpt jN (addr l i)]) ctx.keys
        | .error _ => Json.null),
      ("nomemo_len", match nm with | .ok l => jN l.length | .error _ => Json.null)])

end Acn.RegWire

def showFloat : Acn.RegistrySim.Show Float :=
  { num := fun x => toString (bitsOfF x),
    mat := fun m => "{\"w\":" ++ toString m.width ++ ",\"rows\":[" ++ ",".intercalate (m.rows.map fun r =>
             "[" ++ ",".intercalate (r.map fun x => toString (bitsOfF x)) ++ "]") ++ "]}" }

def readFloat : Acn.RegistrySim.Read Float :=
  { num := fun t => if t.startsWith "f:" then (t.drop 2).toNat?.map fOfBits else none,
    int := fun t => if t.startsWith "i:" then (t.drop 2).toInt? else none,
    nat := fun t => if t.startsWith "i:" then (t.drop 2).toNat? else none,
    str := fun t => if t.startsWith "s:" then some (t.drop 2).toString else none,
    mat := fun t =>
      if t.startsWith "m:" then
        match Json.parse (t.drop 2).toString with
        | .ok j =>
          match getNat j "w", getFss j "rows" with
          | .ok w, .ok rows => some ⟨rows, w⟩
          | _, _ => none
        | .error _ => none
      else none }

def parseAmb (j : Json) : Except String Acn.RegistrySim.Ambient := do
  let inv ← (← getArr j "invoked").mapM fun v => v.getNat?
  let occ ← (← getArr j "occ").mapM fun row => do
    (← asArr row).mapM fun v => if v.isNull then pure none else do pure (some (← v.getStr?))
  pure { invoked := inv, noiseIdx := ← getNat j "noise_draws", occLog := occ }

/-- "decode": the implementation's own `context_dict` (ids renumbered into the model's layout, scalars tagged)
    is decoded into a model state and the model run continues from it -/
def handleDecode (j : Json) : Except String Json := do
  let cfg ← parseSimCfg j
  let sched ← parseSched (← j.getObjVal? "sched")
  let st ← (← getArr j "store").mapM Acn.RegWire.parseObj
  let amb ← parseAmb (← j.getObjVal? "amb")
  match Acn.RegistrySim.decode readFloat cfg amb (Acn.Registry.Store.get st) with
  | none => pure (Json.mkObj [("decoded", jB false)])
  | some s0 =>
    let r := Sim.run cfg sched (fuelFor cfg.core) s0
    pure (((jResult cfg r).setObjVal! "decoded" (jB true)).setObjVal! "start" (Json.mkObj (jSimState cfg s0)))

def handleSim (j : Json) : Except String Json := do
  let cfg ← parseSimCfg j
  let sched ← parseSched (← j.getObjVal? "sched")
  let fuel := fuelFor cfg.core
  let r := Sim.run cfg sched fuel (Sim.init cfg)
  match j.getObjVal? "resume" with
  | .error _ => pure (jResult cfg r)
  | .ok rj =>
    match r.2 with
    | none => pure (jResult cfg r)
    | some _ =>
      let sched2 ← parseSched rj
      let r2 := Sim.run cfg sched2 fuel r.1
      -- the model's own `to_json` of the crash-point state (AcnModel/RegistrySim.lean)
      let st := Acn.RegistrySim.encode showFloat cfg r.1
      -- the codec is an inverse pair on this state (executable instance of the theorem)
      let amb : Acn.RegistrySim.Ambient := { invoked := r.1.core.invoked, noiseIdx := r.1.noiseIdx, occLog := r.1.occLog }
      let back := Acn.RegistrySim.decode readFloat cfg amb (Acn.Registry.Store.get st)
      let inv := match back with
        | some s' => (Json.mkObj (jSimState cfg s')).compress == (Json.mkObj (jSimState cfg r.1)).compress
        | none => false
      pure ((((jResult cfg r2).setObjVal! "first" (jResult cfg r)).setObjVal! "crash_store"
        (jList Acn.RegWire.jObj st)).setObjVal! "codec_inverse" (jB inv))

def handleJson (j : Json) : Except String Json := do
  let docs ← (← getArr j "docs").mapM fun v => v.getStr?
  let strs ← (← getArr j "strs").mapM fun v => v.getStr?
  let ints ← (← getArr j "ints").mapM fun v => v.getInt?
  pure (Json.mkObj [
    ("docs", jList (fun t => match Acn.JsonText.parseS t with
        | some v => jS (Acn.JsonText.renderS v)
        | none => Json.null) docs),
    ("strs", jList (fun x => jS (Acn.JsonText.renderS (.str x))) strs),
    ("strs_back", jList (fun x => match Acn.JsonText.parseS (Acn.JsonText.renderS (.str x)) with
        | some (.str y) => jB (y == x)
        | _ => jB false) strs),
    ("ints", jList (fun n => jS (Acn.JsonText.renderS (.int n))) ints),
    ("ints_back", jList (fun n => match Acn.JsonText.parseS (Acn.JsonText.renderS (.int n)) with
        | some (.int m) => jB (m == n)
        | _ => jB false) ints)])

def handle (j : Json) : Except String Json := do
  let s ← match j.getObjVal? "sim" with
    | .ok v => if v.isNull then pure Json.null else handleSim v
    | .error _ => pure Json.null
  let r ← match j.getObjVal? "reg" with
    | .ok v => if v.isNull then pure Json.null else Acn.RegWire.handleReg v
    | .error _ => pure Json.null
  let d ← match j.getObjVal? "decode" with
    | .ok v => if v.isNull then pure Json.null else handleDecode v
    | .error _ => pure Json.null
  let so ← match j.getObjVal? "sorted" with
    | .ok v => if v.isNull then pure Json.null else do
        let a ← Acn.WireSortedRd.handle v
        pure ((a.getObjVal? "simrun").toOption.getD Json.null)
    | .error _ => pure Json.null
  let js ← match j.getObjVal? "json" with
    | .ok v => if v.isNull then pure Json.null else handleJson v
    | .error _ => pure Json.null
  pure (Json.mkObj [("sim", s), ("reg", r), ("decode", d), ("sorted", so), ("json", js)])

def main : IO Unit := runDriver handle
