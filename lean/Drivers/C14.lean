/-
  Driver for C14 (charging laws): one battery, one or more histories, the observable state
  after every call.  (Same program as Drivers/C03.lean; the two properties share the model.  For C14 the runs of
  one request are e.g. "charge T" and "charge a; charge T−a" from the same initial state.)
  request : {"batt": {two,cap,init,maxp,noise,ts,calc}, "ev": bool,
             "runs": [[{"op":"charge","p","V","T","nu"} | {"op":"reset","init": null | bits}, …], …]}
  answer  : {"ctor": null | "ValueError",
             "runs": [[{"err": null | "ValueError" | "ZeroDivisionError", "rate", "charge", "power"
                        [, "delivered", "evrate"]}, …], …]}
  Every run starts from a freshly constructed battery.  Without "ev" a run is executed by
  `Battery.runOps` (the function the history theorems are about); with "ev" the calls go
  through `Evse.Ev.charge` and `reset` acts on the EV's battery.
-/
import AcnModel.WireModels
open Lean Acn Acn.Wire Acn.Battery Acn.Evse

def battErrName : Battery.Err → String
  | .valueError => "ValueError"
  | .zeroDivision => "ZeroDivisionError"

def parseOp (o : Json) : Except String (Op Float) := do
  let op ← getStr o "op"
  if op == "charge" then
    pure (.charge (← getF o "p") (← getF o "V") (← getF o "T") (← getF o "nu"))
  else if op == "reset" then
    pure (.reset (← getOpt o "init" asF))
  else throw s!"unknown op {op}"

def jStep (b : Batt Float) (r : Except Battery.Err Float) (extra : List (String × Json)) : Json :=
  let (err, rate) := match r with
    | .ok x => (Json.null, x)
    | .error e => (jS (battErrName e), 0.0)
  Json.mkObj ([("err", err), ("rate", jF rate), ("charge", jF b.charge), ("power", jF b.power)] ++ extra)

def runPlain (b : Batt Float) (ops : List (Op Float)) : List Json :=
  (runOps b ops).map fun (b', r) => jStep b' r []

/-- the same history through an EV (ev.py:130-144) -/
def runEv (e : Ev Float) : List (Op Float) → List Json
  | [] => []
  | .charge p V T ν :: os =>
    match e.charge p V T ν with
    | .ok e' => jStep e'.batt (.ok e'.rate) [("delivered", jF e'.delivered), ("evrate", jF e'.rate)] :: runEv e' os
    | .error x => jStep e.batt (.error x) [("delivered", jF e.delivered), ("evrate", jF e.rate)] :: runEv e os
  | .reset i :: os =>
    match reset e.batt i with
    | .ok b' =>
      let e' := { e with batt := b' }
      jStep b' (.ok 0.0) [("delivered", jF e'.delivered), ("evrate", jF e'.rate)] :: runEv e' os
    | .error x => jStep e.batt (.error x) [("delivered", jF e.delivered), ("evrate", jF e.rate)] :: runEv e os

def handle (j : Json) : Except String Json := do
  let b0 ← parseBatt (← j.getObjVal? "batt")
  let ev := (j.getObjVal? "ev" >>= Json.getBool?).toOption.getD false
  let runs ← getArr j "runs"
  match b0 with
  | .error e => pure (Json.mkObj [("ctor", jS (battErrName e)), ("runs", Json.arr #[])])
  | .ok b =>
    let mut outs : Array Json := #[]
    for r in runs do
      let ops ← (← asArr r).mapM parseOp
      let steps :=
        if ev then
          runEv { session := "s", station := "S", arrival := 0, departure := 1, estDeparture := 1,
                  requested := 0.0, delivered := 0.0, rate := 0.0, batt := b } ops
        else runPlain b ops
      outs := outs.push (Json.arr steps.toArray)
    pure (Json.mkObj [("ctor", Json.null), ("runs", Json.arr outs)])

def main : IO Unit := runDriver handle
