/-
  Driver for C11: one event queue, a sequence of operations, what each returned.
  request : {"ops":[{"op":"add","ts":int,"kind":"Plugin|Unplug|Recompute","tag":str} |
                    {"op":"add_events","events":[{"ts","kind","tag"},…]} | {"op":"get_event"} |
                    {"op":"get_current","t":int} | {"op":"len"} | {"op":"empty"} | {"op":"last"} |
                    {"op":"roundtrip"}]}
  answer  : {"steps":[{"heap": <result of the array-heap layer>, "spec": <result of the
             pending-multiset layer (first-inserted minimal)>, "len","empty","last" (queries after
             the operation), "arr" (heap array after the operation), "timestep"}]}
  Events travel as [ts, kind, tag].
-/
import AcnModel.Wire
import AcnModel.Queue
open Lean Acn Acn.Wire

def parseKind (s : String) : Except String EvKind :=
  if s == EvKind.unplug.name then pure .unplug
  else if s == EvKind.plugin.name then pure .plugin
  else if s == EvKind.recompute.name then pure .recompute
  else throw s!"unknown event kind {s}"

def parseEvent (j : Json) : Except String Event := do
  pure { ts := ← getInt j "ts", kind := ← parseKind (← getStr j "kind"), sess := ← getStr j "tag" }

def jEvent (e : Event) : Json := Json.arr #[jI e.ts, jS e.kind.name, jS e.sess]

def jOut : QOut → Json
  | .unit => Json.mkObj [("r", jS "unit")]
  | .event e => Json.mkObj [("r", jS "event"), ("e", jEvent e)]
  | .events es => Json.mkObj [("r", jS "events"), ("es", jList jEvent es)]
  | .nat n => Json.mkObj [("r", jS "nat"), ("n", jN n)]
  | .bool b => Json.mkObj [("r", jS "bool"), ("b", jB b)]
  | .ts o => Json.mkObj [("r", jS "ts"), ("t", jOpt jI o)]
  | .err e => Json.mkObj [("r", jS "err"), ("e", jS e.name)]
  | .wire w t => Json.mkObj [("r", jS "wire"),
      ("w", jList (fun p => Json.arr #[jI p.1, jEvent p.2]) w), ("timestep", jI t)]

def parseOp (o : Json) : Except String QOp := do
  let op ← getStr o "op"
  if op == "add" then pure (.add (← parseEvent o))
  else if op == "add_events" then
    let es ← (← getArr o "events").mapM parseEvent
    pure (.addAll es)
  else if op == "get_event" then pure .getEvent
  else if op == "get_current" then pure (.getCurrent (← getInt o "t"))
  else if op == "len" then pure .len
  else if op == "empty" then pure .empty
  else if op == "last" then pure .last
  else if op == "roundtrip" then pure .roundtrip
  else throw s!"unknown op {op}"

/-- after every operation the three queries and the array layout are reported as well -/
def handle (j : Json) : Except String Json := do
  let ops ← (← getArr j "ops").mapM parseOp
  let mut h := Queue.empty0
  let mut s := QSpec.empty0
  let mut steps : Array Json := #[]
  for op in ops do
    let rh := Queue.step h op
    let rs := QSpec.step s op
    h := rh.1
    s := rs.1
    steps := steps.push (Json.mkObj [
      ("heap", jOut rh.2), ("spec", jOut rs.2),
      ("len", jN (Queue.len h)), ("empty", jB (Queue.empty h)), ("last", jOpt jI (Queue.lastTimestamp h)),
      ("arr", jList jEvent h.heap.toList), ("timestep", jI h.timestep),
      ("spec_len", jN (QSpec.len s)), ("spec_last", jOpt jI (QSpec.lastTimestamp s))])
  pure (Json.mkObj [("steps", Json.arr steps),
                    ("prec", Json.arr #[jS (toString Gen.precUnplug), jS (toString Gen.precPlugin), jS (toString Gen.precRecompute)])])

def main : IO Unit := runDriver handle
