/-
  Driver for C02: a scenario in (request format of `AcnModel/WireSim.lean`), the full observable
  trajectory of `Sim.run` out (as `drv_C01`), PLUS the specification sums of the C02 theorems
  evaluated on the model's own final state (`AcnProofs/Lemmas/LedgerExec.lean`, Mathlib-free), so
  that the model-side equalities are executed on every scenario and not only proved:
    "ledger": {"evs":[{"session","delta","gain","sum_all","sum_interval"}], "peak_spec", "sum_delivered",
               "integral", "vacant_nonzero"}
  With `"rerun"` in the request: two simulations over the same EV objects; with `"resume"`: `run()` called again
  after it raised (see `handle`).
-/
import AcnModel.WireSim
import AcnModel.Rerun
import AcnProofs.Lemmas.LedgerExec
open Lean Acn Acn.Wire Acn.EventCore Acn.Sim Acn.LedgerX

def zeroF : Float := 0

def ledgerJson (cfg : Sim.Cfg Float) (s : Sim.State Float) : Json :=
  let t := s.core.iter
  let n := cfg.stations.length
  let evs := cfg.evs.map fun e0 =>
    let k := stationIndex cfg e0.station
    match evOf s e0.session with
    | some e =>
      Json.mkObj [("session", jS e0.session),
                  ("delta", jF (e.delivered - e0.delivered)),
                  ("gain", jF (e.batt.charge - e0.batt.charge)),
                  ("sum_all", jF (sessionEnergyX cfg s.rates s.occLog e0.session t)),
                  ("sum_interval", jF (intervalEnergyX cfg s.rates k e0.arrival e0.departure t))]
    | none => Json.mkObj [("session", jS e0.session), ("missing", jB true)]
  -- cells recorded non-zero although the snapshot shows the station vacant / the period is still to come
  let bad := (List.range s.rates.width).foldl (fun acc τ =>
      (List.range n).foldl (fun acc i =>
        if (τ ≥ t || occAtX s.occLog τ i == none) && !(s.rates.get i τ == zeroF) then acc + 1 else acc) acc) 0
  let sumDel := s.evs.foldl (fun acc e => acc + e.delivered) zeroF
  let sumDel0 := cfg.evs.foldl (fun acc e => acc + e.delivered) zeroF
  Json.mkObj [("evs", Json.arr evs.toArray), ("peak_spec", jF (peakX s.rates n t)),
              ("sum_delivered", jF (sumDel - sumDel0)), ("integral", jF (integralX cfg s.rates t)),
              ("vacant_nonzero", jN bad)]

def answer (cfg : Sim.Cfg Float) (r : Sim.State Float × Option Err) : Json :=
  (jResult cfg r).setObjVal! "ledger" (ledgerJson cfg r.1)

/-- `run()` called again after it raised, once per scheduler of `scheds` and only while the last call raised -/
def resumeChain (cfg : Sim.Cfg Float) (fuel : Nat) :
    List (View Float → Except Err (Schedule Float)) → Sim.State Float × Option Err →
    List (Sim.State Float × Option Err) → (Sim.State Float × Option Err) × List (Sim.State Float × Option Err)
  | [], r, acc => (r, acc)
  | sch :: rest, r, acc =>
    match r.2 with
    | none => (r, acc)
    | some _ => resumeChain cfg fuel rest (Sim.run cfg sch fuel r.1) (acc ++ [r])

/-- optional `"rerun": {"sched": <sched>}`: when the first run completes, the same EVs go through `EV.reset()`
    and a second simulation (`AcnModel/Rerun.lean`); the answer then describes run 2 and carries run 1 under
    `"run1"`.
    optional `"resume": <sched> | [<sched>, …]`: when `run()` raises it is called again from the state it left, with the
    next scheduler of the list, as long as the previous call raised (crash / resume, as `drv_C01`; the in-place and
    the JSON resume of the implementation are both compared with this — C09: the round trip is the identity).  The
    answer describes the last call (with the ledger sums of ITS final state) and carries the aborted calls under
    `"first"` (the first one, as `drv_C01`) and `"aborted"` (all of them, in order). -/
def handle (j : Json) : Except String Json := do
  let cfg ← parseSimCfg j
  let sched ← parseSched (← j.getObjVal? "sched")
  let r := Sim.run cfg sched (fuelFor cfg.core) (Sim.init cfg)
  match j.getObjVal? "resume" with
  | .ok rj =>
    let scheds ← match rj with
      | Json.arr a => a.toList.mapM parseSched
      | _ => do pure [← parseSched rj]
    let (r2, aborted) := resumeChain cfg (fuelFor cfg.core) scheds r []
    match aborted with
    | [] => pure (answer cfg r2)
    | f :: _ =>
      pure (((answer cfg r2).setObjVal! "first" (jResult cfg f)).setObjVal! "aborted"
        (Json.arr (aborted.map (answer cfg)).toArray))
  | .error _ =>
  match j.getObjVal? "rerun" with
  | .error _ => pure (answer cfg r)
  | .ok rr =>
    if r.2.isSome then pure (answer cfg r)
    else
      let sched2 ← parseSched (← rr.getObjVal? "sched")
      let cfg2 := Rerun.rerunCfg cfg r.1
      let r2 := Sim.run cfg2 sched2 (fuelFor cfg2.core) (Sim.init cfg2)
      pure ((answer cfg2 r2).setObjVal! "run1" (answer cfg r))

def main : IO Unit := runDriver handle
