/-
  Driver for C01 (and the generic whole-simulation driver): a scenario in, the full observable
  trajectory of `Sim.run` out (request / result format: `AcnModel/WireSim.lean`).
  Optional field "resume": a second scheduler; when the first run aborts with an error the run is
  continued from the failed state with that scheduler (crash/resume scenarios), and the answer
  carries both results ("first", then the top-level fields for the resumed run).
  Optional field "queue": "heap" runs the model over the transcription of CPython's array heap
  (`heapQ`): equal-key events are then processed in exactly the order the real `EventQueue` hands
  them out; default / "canonical": the stable-sort queue of `EventCore.lean`.
  Optional field "steps": [<sched>, …]: instead of `run()`, one `Simulator.step(sched)` call per
  entry (`AcnModel/SimStep.lean`); the answer carries "step_results": [[err|null, done|null, iter]].
  Optional field "assembly": {"ctor": [<event>…], "stages": [[<event>…], …]} (`AcnModel/SimAssemble.lean`):
  the simulator is constructed on a queue holding the `ctor` events only; then, per stage, the stage's events
  are added to the queue and `run()` is called (an empty stage = `run()` called again).  <event> =
  [ts, "Plugin"|"Recompute", session id | tag].  Honours "queue" (default canonical).
  Optional field "prior": a complete request of its own (an earlier simulation whose queue / network /
  scheduler objects the caller re-uses): it is answered independently, under "prior" of the answer.
  "resume" may also be a LIST of schedulers (a run interrupted several times): `run()` is called again from the state
  the last abort left, with the next scheduler of the list, as long as the previous call raised; the answer describes
  the last call and carries the aborted calls under "first" (the first one) and "aborted" (all of them, in order).
  A request that consists of {"sorted": <request of AcnModel/WireSortedRd.lean>, optionally "prior": {"sorted": …}}:
  the whole simulation with the MODELLED sorted algorithm / round robin / uncontrolled baseline as the scheduler
  (`SimSorted`, `SimSortedRd`: C07's composition model); the answer is {"sorted": <that run in the jResult format>}.
-/
import AcnModel.WireSim
import AcnModel.SimQ
import AcnModel.SimStep
import AcnModel.SimAssemble
import AcnModel.WireSortedRd
open Lean Acn Acn.Wire Acn.EventCore Acn.Sim

def jStepResult (r : Except StepErr Bool × Nat) : Json :=
  match r.1 with
  | .error e => Json.arr #[jS e.name, Json.null, jN r.2]
  | .ok b => Json.arr #[Json.null, jB b, jN r.2]

def handleSteps (cfg : Sim.Cfg Float) (sj : Json) : Except String Json := do
  let scheds ← (← asArr sj).mapM parseSchedule
  let r := Sim.steps cfg (fuelFor cfg.core) scheds (Sim.init cfg)
  pure (Json.mkObj ([("step_results", jList jStepResult r.2), ("err", Json.null),
                     ("fuel_exhausted", jB false)] ++ jSimState cfg r.1))

def parseEventIn (v : Json) : Except String Event := do
  match ← asArr v with
  | [t, k, g] =>
    let kind ← k.getStr?
    let kd ← if kind == EvKind.plugin.name then pure EvKind.plugin
      else if kind == EvKind.recompute.name then pure EvKind.recompute
      else if kind == EvKind.unplug.name then pure EvKind.unplug
      else throw s!"unknown event kind {kind}"
    pure { ts := ← t.getInt?, kind := kd, sess := ← g.getStr? }
  | _ => throw "event must be [ts, kind, tag]"

def handleAssembly (cfg : Sim.Cfg Float) (j aj : Json) : Except String Json := do
  let sched ← parseSched (← j.getObjVal? "sched")
  let ops := match j.getObjVal? "queue" with
    | .ok (Json.str "heap") => heapQ
    | _ => canonQ
  let ctor ← (← getArr aj "ctor").mapM parseEventIn
  let stages ← (← getArr aj "stages").mapM fun b => do (← asArr b).mapM parseEventIn
  pure (jResult cfg (Sim.runStages ops cfg sched (fuelFor cfg.core) stages (Sim.initOn ops cfg ctor)))

def handleOne (j : Json) : Except String Json := do
  let cfg ← parseSimCfg j
  match j.getObjVal? "steps" with
  | .ok sj => handleSteps cfg sj
  | .error _ =>
  match j.getObjVal? "assembly" with
  | .ok aj => handleAssembly cfg j aj
  | .error _ =>
  let sched ← parseSched (← j.getObjVal? "sched")
  let fuel := fuelFor cfg.core
  let heap := match j.getObjVal? "queue" with
    | .ok (Json.str "heap") => true
    | _ => false
  let runIt := fun (sch : View Float → Except Err (Schedule Float)) (s : Sim.State Float) =>
    if heap then Sim.runQ heapQ cfg sch fuel s else Sim.run cfg sch fuel s
  let r := runIt sched (if heap then Sim.initQ heapQ cfg else Sim.init cfg)
  match j.getObjVal? "resume" with
  | .error _ => pure (jResult cfg r)
  | .ok (Json.arr a) =>
    -- a run interrupted several times: one scheduler per further `run()` call, used while the last call raised
    let scheds ← a.toList.mapM parseSched
    let (r2, aborted) := scheds.foldl (fun (acc : (Sim.State Float × Option Err) × List (Sim.State Float × Option Err)) sch =>
        match acc.1.2 with
        | none => acc
        | some _ => (runIt sch acc.1.1, acc.2 ++ [acc.1])) (r, [])
    match aborted with
    | [] => pure (jResult cfg r2)
    | f :: _ =>
      pure (((jResult cfg r2).setObjVal! "first" (jResult cfg f)).setObjVal! "aborted"
        (Json.arr (aborted.map (jResult cfg)).toArray))
  | .ok rj =>
    match r.2 with
    | none => pure (jResult cfg r)
    | some _ =>
      let sched2 ← parseSched rj
      let r2 := runIt sched2 r.1
      pure ((jResult cfg r2).setObjVal! "first" (jResult cfg r))

/-- the composition model of C07 (modelled algorithm inside the simulator model) -/
def handleSorted (v : Json) : Except String Json := do
  let a ← Acn.WireSortedRd.handle v
  pure ((a.getObjVal? "simrun").toOption.getD Json.null)

def handle (j : Json) : Except String Json := do
  match j.getObjVal? "sorted" with
  | .ok v =>
    let r := Json.mkObj [("sorted", ← handleSorted v)]
    match j.getObjVal? "prior" with
    | .ok pj =>
      match pj.getObjVal? "sorted" with
      | .ok pv => pure (r.setObjVal! "prior" (Json.mkObj [("sorted", ← handleSorted pv)]))
      | .error _ => pure r
    | .error _ => pure r
  | .error _ =>
  let r ← handleOne j
  match j.getObjVal? "prior" with
  | .ok pj => pure (r.setObjVal! "prior" (← handleOne pj))
  | .error _ => pure r

def main : IO Unit := runDriver handle
