/-
  Driver for C19: a whole simulator run of the StochasticNetwork model.
  request : {"stations":[id…], "early":bool, "periods":n,
             "sessions":[{"id","st0":id|null,"arrival","departure"}],
             "events":[{"ts","kind":"Plugin"|"Unplug"|"Recompute","sess"}]   (processing order),
             "full":[[session ids fully charged when post_charging_update runs] per period],
             "choices":[index into the free list, per random.choice call]}
  answer  : {"err":null|name, "steps":[{"kind":"ev"|"post","snap":snapshot after the step}], "final":snapshot,
             "arrivals":[id…], "wf":bool, "horizon":n}
  The steps executed are exactly `simSteps full 0 n events` folded with `Net.step`.
-/
import AcnModel.Wire
import AcnModel.Stochastic
open Lean Acn Acn.Wire Acn.Stoch

def jSnap (p : Snapshot) : Json :=
  Json.mkObj [
    ("occ", jList (fun (q : Station × Option Sess) => Json.arr #[jS q.1, jOpt jS q.2]) p.occ),
    ("waiting", jList jS p.waiting),
    ("station_of", jList (fun (q : Sess × Option Station) => Json.arr #[jS q.1, jOpt jS q.2]) p.stationOf),
    ("swaps", jN p.swaps), ("never_charged", jN p.neverCharged), ("early_unplug", jN p.earlyUnplug),
    ("draws", jN p.draws)]

def parseKind (k : String) : Except String EvKind :=
  if k == Gen.typePlugin then pure .plugin
  else if k == Gen.typeUnplug then pure .unplug
  else if k == Gen.typeRecompute then pure .recompute
  else throw s!"unknown event kind {k}"

def parseEvent (j : Json) : Except String Event := do
  pure { ts := ← getInt j "ts", kind := ← parseKind (← getStr j "kind"), sess := ← getStr j "sess" }

def handle (j : Json) : Except String Json := do
  let stations ← (← getArr j "stations").mapM (fun v => v.getStr?)
  let early ← getBool j "early"
  let n ← getNat j "periods"
  let sj ← getArr j "sessions"
  let sessions ← sj.mapM (fun v => do
    pure ({ id := ← getStr v "id", arrival := ← getInt v "arrival", departure := ← getInt v "departure" } : Session))
  let st0s ← sj.mapM (fun v => do
    let o ← getOpt v "st0" (fun w => w.getStr?)
    pure ((← getStr v "id"), o))
  let events ← (← getArr j "events").mapM parseEvent
  let fulls ← (← getArr j "full").mapM (fun v => do (← asArr v).mapM (fun w => w.getStr?))
  let choices ← (← getArr j "choices").mapM (fun v => v.getNat?)
  let ids := sessions.map (·.id)
  let st0 : Sess → Option Station := fun x => (st0s.lookup x).join
  let full : Nat → Sess → Bool := fun t x => (fulls.getD t []).contains x
  let cs : Nat → Nat := fun k => choices.getD k 0
  let mut s := Net.init stations early st0
  let mut outs : Array Json := #[]
  let mut err : Json := Json.null
  for st in simSteps full 0 n events do
    match s.step cs st with
    | .error e => err := jS e.name; break
    | .ok s' =>
      s := s'
      let tag := match st with
        | .post _ => "post"
        | .ev _ => "ev"
      outs := outs.push (Json.mkObj [("kind", jS tag), ("snap", jSnap (s.snapshot ids))])
  pure (Json.mkObj [
    ("err", err), ("steps", Json.arr outs), ("final", jSnap (s.snapshot ids)),
    ("arrivals", jList jS s.arrivals),
    ("wf", jB (wellFormedB sessions events)), ("horizon", jN (horizon events))])

def main : IO Unit := runDriver handle
