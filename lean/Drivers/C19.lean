/-
  Driver for C19: a whole simulator run of the StochasticNetwork model.
  request : {"stations":[id…], "early":bool, "periods":n,
             "sessions":[{"id","st0":id|null,"arrival","departure"}],
             "events":[{"ts","kind":"Plugin"|"Unplug"|"Recompute","sess"}]   (processing order),
             "full":[[session ids fully charged when post_charging_update runs] per period],
             "choices":[index into the free list, per random.choice call],
             "ledger":null|{…} (see `runLoopLedger`), "sim":null|{…} (see `runLoopSim`),
             "simreal":null|{…} (see `runLoopSimReal`: the full simulator with the package's own algorithms, any
                                 network, crash + second run(); takes NOTHING from "full" / "events")}
  answer  : {"err":null|name, "steps":[{"kind":"ev"|"post","snap":snapshot after the step}], "final":snapshot,
             "arrivals":[id…], "wf":bool, "horizon":n}
  The steps executed are exactly `simSteps full 0 n events` folded with `Net.step`.
-/
import AcnModel.Wire
import AcnModel.Stochastic
import AcnModel.StochasticLoop
import AcnModel.SimStochastic
import AcnModel.Gen.Consts
import AcnModel.WireSim
import AcnModel.SimSorted
open Lean Acn Acn.Wire Acn.Stoch

def jSnap (p : Snapshot) : Json :=
  Json.mkObj [
    ("occ", jList (fun (q : Station × Option Sess) => Json.arr #[jS q.1, jOpt jS q.2]) p.occ),
    ("waiting", jList jS p.waiting),
    ("station_of", jList (fun (q : Sess × Option Station) => Json.arr #[jS q.1, jOpt jS q.2]) p.stationOf),
    ("swaps", jN p.swaps), ("never_charged", jN p.neverCharged), ("early_unplug", jN p.earlyUnplug),
    ("draws", jN p.draws)]

def parseEvKind (k : String) : Except String EvKind :=
  if k == Gen.typePlugin then pure .plugin
  else if k == Gen.typeUnplug then pure .unplug
  else if k == Gen.typeRecompute then pure .recompute
  else throw s!"unknown event kind {k}"

def parseEvent (j : Json) : Except String Event := do
  pure { ts := ← getInt j "ts", kind := ← parseEvKind (← getStr j "kind"), sess := ← getStr j "sess" }

/-- raw operation stream (malformed histories): every step is executed on the current state; a
    step that raises leaves the state unchanged (as the code does: it raises before mutating) and
    its error class is reported.
    request : {"mode":"ops","stations","early","evs":[{"id","st0"}],"choices",
               "ops":[["plugin",id]|["unplug",id]|["post",[full ids]]|["register",station id]]}
    every answer step also carries "free" = `available_evses()` after the step -/
def handleOps (j : Json) : Except String Json := do
  let stations ← (← getArr j "stations").mapM (fun v => v.getStr?)
  let early ← getBool j "early"
  let st0s ← (← getArr j "evs").mapM (fun v => do
    let o ← getOpt v "st0" (fun w => w.getStr?)
    pure ((← getStr v "id"), o))
  let ids := st0s.map (·.1)
  let choices ← (← getArr j "choices").mapM (fun v => v.getNat?)
  let cs : Nat → Nat := fun k => choices.getD k 0
  let st0 : Sess → Option Station := fun x => (st0s.lookup x).join
  let mut s := Net.init stations early st0
  let mut outs : Array Json := #[]
  for o in ← getArr j "ops" do
    let a ← asArr o
    let op ← (a.getD 0 Json.null).getStr?
    if op == "register" then
      -- `register_evse` (charging_network.py:154-180) of a NEW station id while the network is in use: the
      -- station list grows at the end (dict insertion order); nothing else happens (nobody is admitted)
      let sid ← (a.getD 1 Json.null).getStr?
      s := { s with stations := s.stations ++ [sid] }
      outs := outs.push (Json.mkObj [("err", Json.null), ("snap", jSnap (s.snapshot ids)), ("free", jList jS s.free)])
      continue
    let st : Step ←
      if op == "post" then do
        let fl ← (← asArr (a.getD 1 Json.null)).mapM (fun w => w.getStr?)
        pure (Step.post (fun x => fl.contains x))
      else do
        let x ← (a.getD 1 Json.null).getStr?
        if op == "plugin" then pure (Step.ev ⟨0, .plugin, x⟩)
        else if op == "unplug" then pure (Step.ev ⟨0, .unplug, x⟩)
        else throw s!"unknown op {op}"
    match s.step cs st with
    | .error e => outs := outs.push (Json.mkObj [("err", jS e.name), ("snap", jSnap (s.snapshot ids)), ("free", jList jS s.free)])
    | .ok s' =>
      s := s'
      outs := outs.push (Json.mkObj [("err", Json.null), ("snap", jSnap (s.snapshot ids)), ("free", jList jS s.free)])
  pure (Json.mkObj [("steps", Json.arr outs), ("arrivals", jList jS s.arrivals)])

/-- the COMPOSED model: sim-core's run loop with CPython's heap (`heapQ`) and the stochastic network
    (`runGP`, unrolled one `bodyGP` per period so that a snapshot can be taken after each
    post_charging_update).  Here the model computes the processing order itself. -/
def runLoop (stations : List String) (early : Bool) (sessions : List EventCore.Session)
    (full : Nat → Sess → Bool) (cs : Nat → Nat) (limit : Nat) : Json := Id.run do
  let cfg : EventCore.Cfg := { stations, sessions, recomputes := [], maxRecompute := none }
  let ids := sessions.map (·.id)
  let mut g := EventCore.initG EventCore.heapQ cfg (net0 cfg early)
  let mut outs : Array Json := #[]
  let mut err : Json := Json.null
  for _ in [0:limit] do
    if !(EventCore.guard g.core) then break
    match EventCore.bodyGP EventCore.heapQ (stochasticNet cs) (stochasticPost full) cfg (fun _ => none) (fun _ => none) g with
    | (g', none) =>
      g := g'
      outs := outs.push (jSnap (g.net.snapshot ids))
    | (_, some e) => err := jS e.name; break
  return Json.mkObj [
    ("err", err), ("periods", Json.arr outs), ("final", jSnap (g.net.snapshot ids)),
    ("iterations", jN g.core.iter), ("queue_empty", jB g.core.pending.isEmpty),
    ("events", jList (fun (e : Event) => Json.arr #[jI e.ts, jS e.kind.name, jS e.sess]) g.core.eventHist),
    ("ev_history", jList jS g.core.evHist), ("arrivals", jList jS g.net.arrivals)]

/-- the composed model with `fully_charged` COMPUTED from an energy ledger (not supplied):
    the harness' scheduler gives `kwh` per period to every plugged-in EV that is not yet fully
    charged (`alt`: only in even periods; `zero`: never) -/
def runLoopLedger (stations : List String) (early : Bool) (sessions : List EventCore.Session)
    (req : Sess → Float) (kwh eps : Float) (mode : String) (cs : Nat → Nat) (limit : Nat) : Json := Id.run do
  let cfg : EventCore.Cfg := { stations, sessions, recomputes := [], maxRecompute := none }
  let ids := sessions.map (·.id)
  let rate : Nat → Net → (Sess → Float) → Sess → Float := fun t _ d x =>
    if mode == "zero" || (mode == "alt" && t % 2 == 1) then 0.0
    else if eps < req x - d x then kwh else 0.0
  let led := energyLedger req rate eps
  let mut g : EventCore.CoreG (Net × (Sess → Float)) :=
    EventCore.initG EventCore.heapQ cfg (net0 cfg early, fun _ => 0.0)
  let mut outs : Array Json := #[]
  let mut err : Json := Json.null
  for _ in [0:limit] do
    if !(EventCore.guard g.core) then break
    match EventCore.bodyGP EventCore.heapQ (stochasticNetL cs) (stochasticPostL led) cfg (fun _ => none) (fun _ => none) g with
    | (g', none) =>
      g := g'
      outs := outs.push (jSnap (g.net.1.snapshot ids))
    | (_, some e) => err := jS e.name; break
  return Json.mkObj [
    ("err", err), ("periods", Json.arr outs), ("final", jSnap (g.net.1.snapshot ids)),
    ("iterations", jN g.core.iter),
    ("events", jList (fun (e : Event) => Json.arr #[jI e.ts, jS e.kind.name, jS e.sess]) g.core.eventHist),
    ("delivered", jList (fun x => Json.arr #[jS x, jF (g.net.2 x)]) ids)]

/-- the FULL simulator on the stochastic network (`Acn.SimSt.run`, the model of `end_to_end_sim`),
    executed at `Float`: pilot matrix, EVSE validity check, batteries, energies, charging rates, and
    `fully_charged` computed from them.  The scheduler is the harness' `_Sched`: `amps` for every
    active session at the station where it sits now (`alt`: 0 A in odd periods; `zero`: always 0 A),
    `max_recompute = 1`.
    request "sim": {"V":bits, "period":bits, "amps":bits, "max_rate":bits, "mode":"gen"|"alt"|"zero",
                    "batt":[capacity,init,max_power] (bits), "evs":[{"id","kwh":bits}]} -/
def runLoopSim (stations : List String) (early : Bool) (sessions : List EventCore.Session)
    (req : Sess → Float) (volt period amps maxRate cap binit bmax : Float) (mode : String)
    (cs : Nat → Nat) (limit : Nat) : Except String Json := do
  let batt ← match Battery.mkIdeal cap binit bmax with
    | .ok b => pure b
    | .error _ => throw "battery constructor rejected the parameters"
  let cfg : Sim.Cfg Float :=
    { stations := stations.map (fun st => { id := st, kind := .cont 0.0 (some maxRate), voltage := volt }),
      evs := sessions.map (fun x =>
        { session := x.id, station := x.station, arrival := x.arrival, departure := x.departure,
          estDeparture := x.departure, requested := req x.id, delivered := 0.0, rate := 0.0, batt := batt }),
      recomputes := [], maxRecompute := some 1, period := period,
      atolCont := fOfBits Gen.evseAtolBits, atolDeadband := fOfBits Gen.deadbandAtolBits,
      atolFinite := fOfBits Gen.finiteAtolBits, fullEps := fOfBits Gen.fullyChargedEpsBits, noise := [] }
  let sched : Sim.View Float → Except EventCore.Err (Sim.Schedule Float) := fun v =>
    let a := if mode == "zero" || (mode == "alt" && v.iter % 2 == 1) then 0.0 else amps
    .ok (v.active.map (fun e => (e.station, [a])))
  let ids := sessions.map (·.id)
  let mut g := SimSt.init cfg early
  let mut outs : Array Json := #[]
  let mut err : Json := Json.null
  for _ in [0:limit] do
    if !(EventCore.guard g.core) then break
    match SimSt.body cs cfg sched g with
    | (g', none) =>
      g := g'
      outs := outs.push (Json.mkObj [
        ("snap", jSnap (g.net.1.snapshot ids)),
        ("evse_pilot", jList jF g.net.2.evsePilot),
        ("delivered", jList (fun (e : Evse.Ev Float) => Json.arr #[jS e.session, jF e.delivered]) g.net.2.evs)])
    | (g', some e) => g := g'; err := jS e.name; break
  let n := g.core.iter
  return Json.mkObj [
    ("err", err), ("periods", Json.arr outs), ("final", jSnap (g.net.1.snapshot ids)),
    ("iterations", jN n), ("queue_empty", jB g.core.pending.isEmpty),
    ("events", jList (fun (e : Event) => Json.arr #[jI e.ts, jS e.kind.name, jS e.sess]) g.core.eventHist),
    ("delivered", jList (fun (e : Evse.Ev Float) => Json.arr #[jS e.session, jF e.delivered]) g.net.2.evs),
    ("last_rate", jList (fun (e : Evse.Ev Float) => Json.arr #[jS e.session, jF e.rate]) g.net.2.evs),
    ("charge", jList (fun (e : Evse.Ev Float) => Json.arr #[jS e.session, jF e.batt.charge]) g.net.2.evs),
    ("pilots", jList (fun (r : List Float) => jList jF (r.take n)) g.net.2.pilots.rows),
    ("rates", jList (fun (r : List Float) => jList jF (r.take n)) g.net.2.rates.rows),
    ("peak", jF g.net.2.peak), ("invoked", jList jN g.core.invoked)]

/-- the FULL simulator on the stochastic network with the PACKAGE'S OWN algorithms as the scheduler
    (`SimSorted.sortedSched` / `uncontrolledSched`: `Interface._active_sessions`, `_infrastructure_info`,
    the sorted algorithms, round robin, uncontrolled charging — the models of C07 / C08) or the harness'
    `_Sched`, on ANY network description (factory-built: EVSE kinds, voltages, constraint matrix, limits,
    phases are static inputs).  Nothing is taken from the implementation per period: `fully_charged`,
    the early departures, the queue, the counters and the energies all come out of the model; the only
    dynamic input is the stream of random choices.
    Several PHASES: a phase is one call of `Simulator.run()`; phase k+1 starts in the state in which
    phase k stopped (normally or by a raise) — "crash, then run() again on the same object".
    request "simreal": {"stations":[{"id","kind","V"}], "evs":[ev_wire], "period":bits, "max_recompute":n,
                        "infra":{"M","lims","cos","sin"}, "algo":"gen"|"alt"|"zero"|"unc"|"rr"|"fcfs"|"edf"|"llf",
                        "amps":bits, "inc":bits,
                        "crash":null|{"t":n,"kind":"raise"|"rate","amps":bits}} -/
def baseSched (algo : String) (amps inc : Float) (net : SimSorted.NetInfo Float) (cfg : Sim.Cfg Float) :
    Except String (Sim.View Float → Except EventCore.Err (Sim.Schedule Float)) :=
  if algo == "gen" || algo == "alt" || algo == "zero" then
    pure fun v =>
      let a := if algo == "zero" || (algo == "alt" && v.iter % 2 == 1) then 0.0 else amps
      .ok (v.active.map (fun e => (e.station, [a])))
  else if algo == "unc" then pure (SimSorted.uncontrolledSched infF cfg)
  else
    let mk (a : Sorted.Algo) (k : Sorted.SortKind) :=
      SimSorted.sortedSched net infF cfg
        { algo := a, sort := k, uninterrupted := false, estimate := false, inc := inc,
          eps := fOfBits Acn.Gen.greedyEpsBits, fuel := 2000 }
    if algo == "rr" then pure (mk .roundRobin .fcfs)
    else if algo == "fcfs" then pure (mk .greedy .fcfs)
    else if algo == "edf" then pure (mk .greedy .edf)
    else if algo == "llf" then pure (mk .greedy .llf)
    else throw s!"unknown algorithm {algo}"

def jPeriod (ids : List String) (g : EventCore.CoreG (SimSt.St Float)) : Json :=
  Json.mkObj [
    ("snap", jSnap (g.net.1.snapshot ids)),
    ("evse_pilot", jList jF g.net.2.evsePilot),
    ("delivered", jList (fun (e : Evse.Ev Float) => Json.arr #[jS e.session, jF e.delivered]) g.net.2.evs)]

def runLoopSimReal (j : Json) (early : Bool) (cs : Nat → Nat) (limit : Nat) : Except String Json := do
  let cfg ← parseSimCfg j
  let ij ← j.getObjVal? "infra"
  let net : SimSorted.NetInfo Float :=
    { M := ← getFss ij "M", lims := ← getFs ij "lims", cos := ← getFs ij "cos", sin := ← getFs ij "sin",
      vt := fOfBits Acn.Gen.algAbsTolBits, rt := fOfBits Acn.Gen.algRelTolBits }
  let base ← baseSched (← getStr j "algo") (← getF j "amps") (← getF j "inc") net cfg
  let crash ← getOpt j "crash" (fun v => pure v)
  -- the schedulers of the successive run() calls
  let phases : List (Sim.View Float → Except EventCore.Err (Sim.Schedule Float)) ← match crash with
    | none => pure [base]
    | some c => do
      let t ← getNat c "t"
      let kind ← getStr c "kind"
      let a ← getF c "amps"
      if kind == "raise" then
        -- the scheduler raises once, in period t of the first run()
        pure [(fun v => if v.iter == t then .error .schedulerFailed else base v), base]
      else
        -- the scheduler hands out a rate no EVSE accepts whenever it is asked in period t
        let bad : Sim.View Float → Except EventCore.Err (Sim.Schedule Float) := fun v =>
          if v.iter == t then .ok (v.active.map (fun e => (e.station, [a]))) else base v
        pure [bad, bad]
  let ids := cfg.evs.map (·.session)
  let mut g := SimSt.init cfg early
  let mut outs : Array Json := #[]
  let mut errs : Array Json := #[]
  let mut aborts : Array Json := #[]
  for sched in phases do
    let mut err : Json := Json.null
    for _ in [0:limit] do
      if !(EventCore.guard g.core) then break
      match SimSt.body cs cfg sched g with
      | (g', none) =>
        g := g'
        outs := outs.push (jPeriod ids g)
      | (g', some e) =>
        g := g'; err := jS e.name
        aborts := aborts.push (Json.mkObj [("iter", jN g.core.iter), ("state", jPeriod ids g)])
        break
    errs := errs.push err
  let n := g.core.iter
  return Json.mkObj [
    ("err", errs.back?.getD Json.null), ("errs", Json.arr errs), ("aborts", Json.arr aborts),
    ("periods", Json.arr outs), ("final", jSnap (g.net.1.snapshot ids)),
    ("iterations", jN n), ("queue_empty", jB g.core.pending.isEmpty),
    ("events", jList (fun (e : Event) => Json.arr #[jI e.ts, jS e.kind.name, jS e.sess]) g.core.eventHist),
    ("ev_history", jList jS g.core.evHist), ("arrivals", jList jS g.net.1.arrivals),
    ("delivered", jList (fun (e : Evse.Ev Float) => Json.arr #[jS e.session, jF e.delivered]) g.net.2.evs),
    ("pilots", jList (fun (r : List Float) => jList jF (r.take n)) g.net.2.pilots.rows),
    ("rates", jList (fun (r : List Float) => jList jF (r.take n)) g.net.2.rates.rows),
    ("peak", jF g.net.2.peak), ("invoked", jList jN g.core.invoked)]

def handleRun (j : Json) : Except String Json := do
  let stations ← (← getArr j "stations").mapM (fun v => v.getStr?)
  let early ← getBool j "early"
  let n ← getNat j "periods"
  let sj ← getArr j "sessions"
  let sessions ← sj.mapM (fun v => do
    pure ({ id := ← getStr v "id", arrival := ← getInt v "arrival", departure := ← getInt v "departure" } : Session))
  let st0s ← sj.mapM (fun v => do
    let o ← getOpt v "st0" (fun w => w.getStr?)
    pure ((← getStr v "id"), o))
  let events ← (← getArr j "events").mapM parseEvent
  let fulls ← (← getArr j "full").mapM (fun v => do (← asArr v).mapM (fun w => w.getStr?))
  let choices ← (← getArr j "choices").mapM (fun v => v.getNat?)
  let ids := sessions.map (·.id)
  let st0 : Sess → Option Station := fun x => (st0s.lookup x).join
  let full : Nat → Sess → Bool := fun t x => (fulls.getD t []).contains x
  let cs : Nat → Nat := fun k => choices.getD k 0
  let mut s := Net.init stations early st0
  let mut outs : Array Json := #[]
  let mut err : Json := Json.null
  for st in simSteps full 0 n events do
    match s.step cs st with
    | .error e => err := jS e.name; break
    | .ok s' =>
      s := s'
      let tag := match st with
        | .post _ => "post"
        | .ev _ => "ev"
      outs := outs.push (Json.mkObj [("kind", jS tag), ("snap", jSnap (s.snapshot ids))])
  let coreSessions := sessions.map (fun x =>
    ({ id := x.id, station := ((st0s.lookup x.id).join).getD "", arrival := x.arrival,
       departure := x.departure } : EventCore.Session))
  let ledger ← getOpt j "ledger" (fun v => pure v)
  let ledgerOut ← match ledger with
    | none => pure Json.null
    | some v => do
      let reqs ← (← getArr v "req").mapM (fun w => do pure ((← getStr w "id"), (← getF w "kwh")))
      pure (runLoopLedger stations early coreSessions (fun x => (reqs.lookup x).getD 0.0)
        (← getF v "per_period") (← getF v "eps") (← getStr v "mode") cs (n + 2))
  let sim ← getOpt j "sim" (fun v => pure v)
  let simOut ← match sim with
    | none => pure Json.null
    | some v => do
      let reqs ← (← getArr v "evs").mapM (fun w => do pure ((← getStr w "id"), (← getF w "kwh")))
      let b ← (← getArr v "batt").mapM (fun w => do pure (fOfBits (← w.getNat?)))
      runLoopSim stations early coreSessions (fun x => (reqs.lookup x).getD 0.0)
        (← getF v "V") (← getF v "period") (← getF v "amps") (← getF v "max_rate")
        (b.getD 0 0.0) (b.getD 1 0.0) (b.getD 2 0.0) (← getStr v "mode") cs (n + 2)
  let simReal ← getOpt j "simreal" (fun v => pure v)
  let simRealOut ← match simReal with
    | none => pure Json.null
    | some v => runLoopSimReal v early cs (n + 2)
  pure (Json.mkObj [
    ("loop_simreal", simRealOut),
    ("loop_sim", simOut),
    ("loop_ledger", ledgerOut),
    ("loop", runLoop stations early coreSessions full cs (n + 2)),
    ("err", err), ("steps", Json.arr outs), ("final", jSnap (s.snapshot ids)),
    ("arrivals", jList jS s.arrivals),
    ("wf", jB (wellFormedB sessions events)), ("horizon", jN (horizon events))])

def handle (j : Json) : Except String Json :=
  match getStr j "mode" with
  | .ok "ops" => handleOps j
  | _ => handleRun j

def main : IO Unit := runDriver handle
