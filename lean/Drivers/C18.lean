/-
  Driver for C18: one completed simulation (as the analysis functions read it) and a list of
  queries; answers carry the code-level transcription's value AND the statement-level value.

  request: {"T":n, "R":[[bits]], "V":[bits], "c":[bits], "s":[bits], "M":[[bits]], "names":[str],
            "evs":[[req,del]], "start":bits, "period":bits, "iters":n,
            "queries":[ {"q":"cc","req":[str]|null,"ti":[int]|null,"mag":bool}
                      | {"q":"net","req":[str]|null,"ti":[int]|null}
                      | {"q":"nema","ids":[str]} | {"q":"met","thr":bits}
                      | {"q":"nema","ids":[str],"ut":str,"type":str|null}      (keywords of current_unbalance)
                      | {"q":"cost","prices_arg":[bits]|null,"signals":bool,"prices_sig":[bits]|null}
                      | {"q":"dc","dc_arg":bits|null,"signals":bool,"dc_sig":bits|null} ],
            "sim": null | <request of AcnModel/WireSim.lean> (+ "resume": <sched>)}
  With "sim": the scenario is ALSO run through the full simulator model (`Sim.run`), and every analysis value is
  evaluated a second time on the MODEL'S OWN trajectory (`AcnModel/AnalysisSim.lean`: rates, voltages, EV history,
  iteration, period of the model's final state; the constraint matrix and angles of the request) — answer under "sim".
-/
import AcnModel.WireSim
import AcnModel.AnalysisSim
import AcnProofs.Lemmas.LedgerExec
open Lean Acn Acn.Wire Acn.Analysis

def jRes {α} (f : α → Json) : Except Err α → Json
  | .ok a => Json.mkObj [("ok", f a)]
  | .error e => Json.mkObj [("err", jS e.name)]

def jPair (z : Float × Float) : Json := Json.arr #[jF z.1, jF z.2]
def jOptF : Option Float → Json
  | some x => jF x
  | none => jF (0.0 / 0.0)

def getStrs (j : Json) (k : String) : Except String (Option (List String)) :=
  getOpt j k (fun v => do let a ← asArr v; a.mapM (·.getStr?))
def getInts (j : Json) (k : String) : Except String (Option (List Int)) :=
  getOpt j k (fun v => do let a ← asArr v; a.mapM (·.getInt?))

/-- distinct keys of a pair list, first occurrence order -/
def keysOf {α} (d : List (String × α)) : List String := (d.map (·.1)).eraseDups

structure SimRes where
  T : Nat
  R : Matrix Float
  V : List Float
  c : List Float
  s : List Float
  M : Matrix Float
  names : List String

def sqrtF : Float → Float := Float.sqrt

def answer (r : SimRes) (q : Json) : Except String Json := do
  let kind ← getStr q "q"
  if kind == "cc" then
    let req ← getStrs q "req"
    let ti ← getInts q "ti"
    let mag ← getBool q "mag"
    -- the width after column selection, for the statement-level recomputation
    let cols : List Nat := match ti with
      | none => List.range r.T
      | some l => l.filterMap (normIdx r.T)
    if mag then
      let res := constraintCurrentsMag sqrtF r.names r.M r.c r.s r.R r.T req ti
      let spec := res.map fun d => (keysOf d).map fun k =>
        (k, cols.map fun t => match specConstraintCurrent r.names r.M r.c r.s r.R k t with
          | some z => cabs sqrtF z
          | none => 0.0 / 0.0)
      pure (Json.mkObj [
        ("res", jRes (fun d => jList (fun k => Json.arr #[jS k, jFs ((dictGet d k).getD [])]) (keysOf d)) res),
        ("spec", jRes (jList (fun (p : String × List Float) => Json.arr #[jS p.1, jFs p.2])) spec)])
    else
      let res := constraintCurrentsComplex r.names r.M r.c r.s r.R r.T req ti
      let spec := res.map fun d => (keysOf d).map fun k =>
        (k, cols.map fun t => (specConstraintCurrent r.names r.M r.c r.s r.R k t).getD (0.0 / 0.0, 0.0 / 0.0))
      pure (Json.mkObj [
        ("res", jRes (fun d => jList (fun k => Json.arr #[jS k, jList jPair ((dictGet d k).getD [])]) (keysOf d)) res),
        ("spec", jRes (jList (fun (p : String × List (Float × Float)) => Json.arr #[jS p.1, jList jPair p.2])) spec)])
  else if kind == "net" then
    let req ← getStrs q "req"
    let ti ← getInts q "ti"
    let res := constraintCurrent r.names r.M r.c r.s r.R r.T req ti
    pure (Json.mkObj [("res", jRes (jList (jList jPair)) res)])
  else if kind == "nema" then
    let ids ← (do let a ← getArr q "ids"; a.mapM (·.getStr?))
    let ut ← (do let o ← getOpt q "ut" (·.getStr?); pure (o.getD "NEMA"))
    let typ ← getOpt q "type" (·.getStr?)
    let res := currentUnbalance sqrtF r.names r.M r.c r.s r.R r.T ids ut typ
    -- statement level: three named magnitudes per period
    let spec : Option (List Float) := match ids with
      | [a, b, cc] =>
        let mag := fun (k : String) (t : Nat) => (specConstraintCurrent r.names r.M r.c r.s r.R k t).map (cabs sqrtF)
        (List.range r.T).mapM fun t => do
          let x ← mag a t; let y ← mag b t; let z ← mag cc t
          pure ((specNema x y z).getD (0.0 / 0.0))
      | _ => none
    pure (Json.mkObj [("res", jRes (jList jOptF) res), ("spec", jOpt jFs spec)])
  else if kind == "met" then
    pure (Json.mkObj [("res", Json.null)])
  else if kind == "cost" then
    let parg ← getOpt q "prices_arg" asFs
    let psig ← getOpt q "prices_sig" asFs
    let isDict ← getBool q "signals"
    let period ← getF q "period"
    match pickTariff parg (if isDict then some psig else none) with
    | .error e => pure (Json.mkObj [("res", jRes jF (Except.error e))])
    | .ok prices =>
      pure (Json.mkObj [("res", jRes jF (energyCost prices r.T r.V r.R period)),
                        ("spec", jF (specEnergyCost prices r.T r.V r.R period))])
  else if kind == "dc" then
    let darg ← getOpt q "dc_arg" asF
    let dsig ← getOpt q "dc_sig" asF
    let isDict ← getBool q "signals"
    match pickTariff darg (if isDict then some dsig else none) with
    | .error e => pure (Json.mkObj [("res", jRes jF (Except.error e))])
    | .ok dc => pure (Json.mkObj [("res", jRes jF (demandCharge dc r.T r.V r.R))])
  else throw s!"unknown query {kind}"

/-- every analysis value of one simulation result -/
def analyse (r : SimRes) (evs : List (Ev Float)) (start period : Float) (iters : Nat) (thrs : List Float)
    (qs : List Json) : Except String (List (String × Json)) := do
  let answers ← qs.mapM (fun q => do
    let kind ← getStr q "q"
    if kind == "cost" then answer r (q.setObjVal! "period" (jF period)) else answer r q)
  pure [
    ("agg_current", jFs (aggregateCurrent r.T r.R)),
    ("agg_power", jFs (aggregatePower r.T r.V r.R)),
    ("spec_agg_current", jFs ((List.range r.T).map (specAggCurrent r.R))),
    ("spec_agg_power", jFs ((List.range r.T).map (specAggPower r.V r.R))),
    ("tot_req", jF (totalRequested evs)),
    ("tot_del", jF (totalDelivered evs)),
    ("prop", jRes jF (proportionDelivered evs)),
    ("met", jList (fun thr => jRes jF (demandsMet evs thr)) thrs),
    ("datetimes", jFs (datetimes start period iters)),
    ("answers", Json.arr answers.toArray)]

open Acn.Sim Acn.AnalysisSim Acn.LedgerX in
/-- the scenario through the full simulator model, the analysis on the model's own trajectory -/
def simPart (net : SimRes) (start : Float) (thrs : List Float) (qs : List Json) (sj : Json) :
    Except String Json := do
  let cfg ← parseSimCfg sj
  let sched ← parseSched (← sj.getObjVal? "sched")
  let fuel := EventCore.fuelFor cfg.core
  let r1 := Sim.run cfg sched fuel (Sim.init cfg)
  let resume ← getOpt sj "resume" parseSched
  let (rf, first) : (Sim.State Float × Option EventCore.Err) × Option (Sim.State Float × Option EventCore.Err) :=
    match r1.2, resume with
    | some _, some sch2 => (Sim.run cfg sch2 fuel r1.1, some r1)
    | _, _ => (r1, none)
  let s := rf.1
  let res : SimRes := { net with T := simT s, R := simR s, V := simV cfg }
  let ana ← analyse res (histEvs s) start cfg.period s.core.iter thrs qs
  let n := cfg.stations.length
  let zeroF : Float := 0
  let sumDel := s.evs.foldl (fun acc e => acc + e.delivered) zeroF
  let sumDel0 := cfg.evs.foldl (fun acc e => acc + e.delivered) zeroF
  let unfinished (x : Sim.State Float × Option EventCore.Err) : Json :=
    Json.mkObj [("err", jOpt (fun e => jS e.name) x.2), ("iter", jN x.1.core.iter),
                ("queue_empty", jB x.1.core.pending.isEmpty), ("warns", jB (warnsUnfinished x.1)),
                ("datetimes", jFs (datetimesSim start cfg x.1)),
                ("agg_current", jFs (aggregateCurrentSim x.1)), ("peak", jF x.1.peak)]
  pure (Json.mkObj [
    ("err", jOpt (fun e => jS e.name) rf.2), ("iter", jN s.core.iter),
    ("queue_empty", jB s.core.pending.isEmpty), ("warns", jB (warnsUnfinished s)),
    ("peak", jF s.peak), ("width", jN s.rates.width), ("rates", jFss s.rates.rows),
    ("pilots", jFss s.pilots.rows),
    ("ev_history", jList jS s.core.evHist),
    ("evs", jList (fun (e : Ev Float) => Json.arr #[jF e.requested, jF e.delivered]) (histEvs s)),
    ("ledger", Json.mkObj [("peak_spec", jF (peakX s.rates n s.core.iter)),
                           ("sum_delivered", jF (sumDel - sumDel0)),
                           ("integral", jF (integralX cfg s.rates s.core.iter))]),
    ("first", jOpt unfinished first),
    ("analysis", Json.mkObj ana)])

def handle (j : Json) : Except String Json := do
  let r : SimRes := {
    T := ← getNat j "T", R := ← getFss j "R", V := ← getFs j "V", c := ← getFs j "c", s := ← getFs j "s",
    M := ← getFss j "M", names := ← (do let a ← getArr j "names"; a.mapM (·.getStr?)) }
  let evsJ ← getArr j "evs"
  let evs : List (Ev Float) ← evsJ.mapM fun e => do
    let p ← asFs e
    match p with
    | [a, b] => pure { requested := a, delivered := b }
    | _ => throw "ev: expected [requested, delivered]"
  let start ← getF j "start"
  let period ← getF j "period"
  let iters ← getNat j "iters"
  let thrs ← getFs j "thresholds"
  let qs ← getArr j "queries"
  let top ← analyse r evs start period iters thrs qs
  let simJ ← match j.getObjVal? "sim" with
    | .ok Json.null => pure Json.null
    | .ok sj => simPart r start thrs qs sj
    | .error _ => pure Json.null
  pure (Json.mkObj (top ++ [("sim", simJ)]))

def main : IO Unit := runDriver handle
