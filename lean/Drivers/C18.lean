/- placeholder driver for C18: replaced when the model is built -/
import AcnModel.Wire
open Lean Acn.Wire

def handle (_ : Json) : Except String Json := throw "driver for C18 not built yet"

def main : IO Unit := runDriver handle
