/-
  Driver for C18: one completed simulation (as the analysis functions read it) and a list of
  queries; answers carry the code-level transcription's value AND the statement-level value.

  request: {"T":n, "R":[[bits]], "V":[bits], "c":[bits], "s":[bits], "M":[[bits]], "names":[str],
            "evs":[[req,del]], "start":bits, "period":bits, "iters":n,
            "queries":[ {"q":"cc","req":[str]|null,"ti":[int]|null,"mag":bool}
                      | {"q":"net","req":[str]|null,"ti":[int]|null}
                      | {"q":"nema","ids":[str]} | {"q":"met","thr":bits}
                      | {"q":"cost","prices":[bits]} | {"q":"dc","dc":bits} ]}
-/
import AcnModel.Wire
import AcnModel.Analysis
open Lean Acn Acn.Wire Acn.Analysis

def jRes {α} (f : α → Json) : Except Err α → Json
  | .ok a => Json.mkObj [("ok", f a)]
  | .error e => Json.mkObj [("err", jS e.name)]

def jPair (z : Float × Float) : Json := Json.arr #[jF z.1, jF z.2]
def jOptF : Option Float → Json
  | some x => jF x
  | none => jF (0.0 / 0.0)

def getStrs (j : Json) (k : String) : Except String (Option (List String)) :=
  getOpt j k (fun v => do let a ← asArr v; a.mapM (·.getStr?))
def getInts (j : Json) (k : String) : Except String (Option (List Int)) :=
  getOpt j k (fun v => do let a ← asArr v; a.mapM (·.getInt?))

/-- distinct keys of a pair list, first occurrence order -/
def keysOf {α} (d : List (String × α)) : List String := (d.map (·.1)).eraseDups

structure SimRes where
  T : Nat
  R : Matrix Float
  V : List Float
  c : List Float
  s : List Float
  M : Matrix Float
  names : List String

def sqrtF : Float → Float := Float.sqrt

def answer (r : SimRes) (q : Json) : Except String Json := do
  let kind ← getStr q "q"
  if kind == "cc" then
    let req ← getStrs q "req"
    let ti ← getInts q "ti"
    let mag ← getBool q "mag"
    -- the width after column selection, for the statement-level recomputation
    let cols : List Nat := match ti with
      | none => List.range r.T
      | some l => l.filterMap (normIdx r.T)
    if mag then
      let res := constraintCurrentsMag sqrtF r.names r.M r.c r.s r.R r.T req ti
      let spec := res.map fun d => (keysOf d).map fun k =>
        (k, cols.map fun t => match specConstraintCurrent r.names r.M r.c r.s r.R k t with
          | some z => cabs sqrtF z
          | none => 0.0 / 0.0)
      pure (Json.mkObj [
        ("res", jRes (fun d => jList (fun k => Json.arr #[jS k, jFs ((dictGet d k).getD [])]) (keysOf d)) res),
        ("spec", jRes (jList (fun (p : String × List Float) => Json.arr #[jS p.1, jFs p.2])) spec)])
    else
      let res := constraintCurrentsComplex r.names r.M r.c r.s r.R r.T req ti
      let spec := res.map fun d => (keysOf d).map fun k =>
        (k, cols.map fun t => (specConstraintCurrent r.names r.M r.c r.s r.R k t).getD (0.0 / 0.0, 0.0 / 0.0))
      pure (Json.mkObj [
        ("res", jRes (fun d => jList (fun k => Json.arr #[jS k, jList jPair ((dictGet d k).getD [])]) (keysOf d)) res),
        ("spec", jRes (jList (fun (p : String × List (Float × Float)) => Json.arr #[jS p.1, jList jPair p.2])) spec)])
  else if kind == "net" then
    let req ← getStrs q "req"
    let ti ← getInts q "ti"
    let res := constraintCurrent r.names r.M r.c r.s r.R r.T req ti
    pure (Json.mkObj [("res", jRes (jList (jList jPair)) res)])
  else if kind == "nema" then
    let ids ← (do let a ← getArr q "ids"; a.mapM (·.getStr?))
    let res := nemaUnbalance sqrtF r.names r.M r.c r.s r.R r.T ids
    -- statement level: three named magnitudes per period
    let spec : Option (List Float) := match ids with
      | [a, b, cc] =>
        let mag := fun (k : String) (t : Nat) => (specConstraintCurrent r.names r.M r.c r.s r.R k t).map (cabs sqrtF)
        (List.range r.T).mapM fun t => do
          let x ← mag a t; let y ← mag b t; let z ← mag cc t
          pure ((specNema x y z).getD (0.0 / 0.0))
      | _ => none
    pure (Json.mkObj [("res", jRes (jList jOptF) res), ("spec", jOpt jFs spec)])
  else if kind == "met" then
    pure (Json.mkObj [("res", Json.null)])
  else if kind == "cost" then
    let prices ← getFs q "prices"
    let period ← getF q "period"
    pure (Json.mkObj [("res", jRes jF (energyCost prices r.T r.V r.R period)),
                      ("spec", jF (specEnergyCost prices r.T r.V r.R period))])
  else if kind == "dc" then
    let dc ← getF q "dc"
    pure (Json.mkObj [("res", jRes jF (demandCharge dc r.T r.V r.R))])
  else throw s!"unknown query {kind}"

def handle (j : Json) : Except String Json := do
  let r : SimRes := {
    T := ← getNat j "T", R := ← getFss j "R", V := ← getFs j "V", c := ← getFs j "c", s := ← getFs j "s",
    M := ← getFss j "M", names := ← (do let a ← getArr j "names"; a.mapM (·.getStr?)) }
  let evsJ ← getArr j "evs"
  let evs : List (Ev Float) ← evsJ.mapM fun e => do
    let p ← asFs e
    match p with
    | [a, b] => pure { requested := a, delivered := b }
    | _ => throw "ev: expected [requested, delivered]"
  let start ← getF j "start"
  let period ← getF j "period"
  let iters ← getNat j "iters"
  let thrs ← getFs j "thresholds"
  let qs ← getArr j "queries"
  let answers ← qs.mapM (fun q => do
    let kind ← getStr q "q"
    if kind == "cost" then answer r (q.setObjVal! "period" (jF period)) else answer r q)
  pure (Json.mkObj [
    ("agg_current", jFs (aggregateCurrent r.T r.R)),
    ("agg_power", jFs (aggregatePower r.T r.V r.R)),
    ("spec_agg_current", jFs ((List.range r.T).map (specAggCurrent r.R))),
    ("spec_agg_power", jFs ((List.range r.T).map (specAggPower r.V r.R))),
    ("tot_req", jF (totalRequested evs)),
    ("tot_del", jF (totalDelivered evs)),
    ("prop", jRes jF (proportionDelivered evs)),
    ("met", jList (fun thr => jRes jF (demandsMet evs thr)) thrs),
    ("datetimes", jFs (datetimes start period iters)),
    ("answers", Json.arr answers.toArray)])

def main : IO Unit := runDriver handle
