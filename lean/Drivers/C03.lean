/-
  Driver for C03 (physical bounds): one battery, one or more histories, the observable state
  after every call.  (Drivers/C14.lean is the same program; the two properties share the model.)
  request : {"batt": {two,cap,init,maxp,noise,ts,calc}, "ev": bool, ["evse": <kind>,]
             "runs": [[{"op":"charge","p","V","T","nu"} | {"op":"reset","init": null | bits}, …], …]}
  answer  : {"ctor": null | "ValueError",
             "runs": [[{"err": null | "ValueError" | "ZeroDivisionError" | "InvalidRate", "rate",
                        "charge", "power" [, "delivered", "evrate"] [, "pilot"]}, …], …]}
  Every run starts from a freshly constructed battery.  Without "ev" a run is executed by
  `Battery.runOps` (the function the history theorems are about); with "ev" the calls go
  through `Evse.Ev.charge` and `reset` acts on the EV's battery; with "evse" (a kind as in
  Drivers/C13.lean) the EV is plugged into an EVSE of that class and every charge op is
  `set_pilot(p, V, T)` (`Evse.setPilotSt`, the step function of `Evse.runPilots`), with the
  class's default tolerance from the regenerated constants.
-/
import AcnModel.WireModels
import AcnModel.EvseRun
import AcnModel.Gen.Consts
open Lean Acn Acn.Wire Acn.Battery Acn.Evse

def battErrName : Battery.Err → String
  | .valueError => "ValueError"
  | .zeroDivision => "ZeroDivisionError"

def parseOp (o : Json) : Except String (Op Float) := do
  let op ← getStr o "op"
  if op == "charge" then
    pure (.charge (← getF o "p") (← getF o "V") (← getF o "T") (← getF o "nu"))
  else if op == "reset" then
    pure (.reset (← getOpt o "init" asF))
  else throw s!"unknown op {op}"

def jStep (b : Batt Float) (r : Except Battery.Err Float) (extra : List (String × Json)) : Json :=
  let (err, rate) := match r with
    | .ok x => (Json.null, x)
    | .error e => (jS (battErrName e), 0.0)
  Json.mkObj ([("err", err), ("rate", jF rate), ("charge", jF b.charge), ("power", jF b.power)] ++ extra)

def runPlain (b : Batt Float) (ops : List (Op Float)) : List Json :=
  (runOps b ops).map fun (b', r) => jStep b' r []

/-- the same history through an EV (ev.py:130-144) -/
def runEv (e : Ev Float) : List (Op Float) → List Json
  | [] => []
  | .charge p V T ν :: os =>
    match e.charge p V T ν with
    | .ok e' => jStep e'.batt (.ok e'.rate) [("delivered", jF e'.delivered), ("evrate", jF e'.rate)] :: runEv e' os
    | .error x => jStep e.batt (.error x) [("delivered", jF e.delivered), ("evrate", jF e.rate)] :: runEv e os
  | .reset i :: os =>
    match reset e.batt i with
    | .ok b' =>
      let e' := { e with batt := b' }
      jStep b' (.ok 0.0) [("delivered", jF e'.delivered), ("evrate", jF e'.rate)] :: runEv e' os
    | .error x => jStep e.batt (.error x) [("delivered", jF e.delivered), ("evrate", jF e.rate)] :: runEv e os

def fixedAtol : Float := fOfBits Acn.Gen.finiteAtolBits

/-- default `atol` of the class's `_valid_rate`, which is what `set_pilot` uses -/
def defaultAtol : Kind Float → Float
  | .cont _ _ => fOfBits Acn.Gen.evseAtolBits
  | .deadband _ _ => fOfBits Acn.Gen.deadbandAtolBits
  | .finite _ => fOfBits Acn.Gen.finiteAtolBits

def callErrName : CallErr → String
  | .invalidRate => "InvalidRate"
  | .battery e => battErrName e

def jEvseStep (s : Evse Float) (e : Ev Float) (err : Option String) (rate : Float := e.rate) : Json :=
  let r : Except Battery.Err Float := .ok rate
  let j := jStep e.batt r [("delivered", jF e.delivered), ("evrate", jF e.rate), ("pilot", jF s.pilot)]
  match err with
  | none => j
  | some x => (j.setObjVal! "err" (jS x)).setObjVal! "rate" (jF 0.0)

/-- the same history through an EVSE with the EV plugged in (evse.py:110-136) -/
def runEvse (s : Evse Float) : List (Op Float) → List Json
  | [] => []
  | .charge p V T ν :: os =>
    let (s', err) := setPilotSt (defaultAtol s.kind) fixedAtol s { p, V, T, ν }
    match s'.ev with
    | some e' => jEvseStep s' e' (err.map callErrName) :: runEvse s' os
    | none => []
  | .reset i :: os =>
    match s.ev with
    | none => []
    | some e =>
      match reset e.batt i with
      | .ok b' =>
        let e' := { e with batt := b' }
        let s' := { s with ev := some e' }
        jEvseStep s' e' none 0.0 :: runEvse s' os
      | .error x => jEvseStep s e (some (battErrName x)) :: runEvse s os

def handle (j : Json) : Except String Json := do
  let b0 ← parseBatt (← j.getObjVal? "batt")
  let ev := (j.getObjVal? "ev" >>= Json.getBool?).toOption.getD false
  let runs ← getArr j "runs"
  let kind ← getOpt j "evse" parseKind
  match b0 with
  | .error e => pure (Json.mkObj [("ctor", jS (battErrName e)), ("runs", Json.arr #[])])
  | .ok b =>
    let mut outs : Array Json := #[]
    for r in runs do
      let ops ← (← asArr r).mapM parseOp
      let e0 : Ev Float :=
        { session := "s", station := "S", arrival := 0, departure := 1, estDeparture := 1,
          requested := 0.0, delivered := 0.0, rate := 0.0, batt := b }
      let steps :=
        match kind with
        | some k => runEvse { station := "S", kind := k, pilot := 0.0, ev := some e0 } ops
        | none => if ev then runEv e0 ops else runPlain b ops
      outs := outs.push (Json.arr steps.toArray)
    pure (Json.mkObj [("ctor", Json.null), ("runs", Json.arr outs)])

def main : IO Unit := runDriver handle
