/-
  Driver for C12: a history of network operations (with `Current` expression trees to evaluate)
  and subset queries; the observable state after each operation.
  request : {"vt":bits,"rt":bits,      (the network's violation_tolerance / relative_tolerance)
             "ops":[ {"op":"register","id":s,"c":bits,"s":bits,"v":bits}   (c + i s = e^{iφ}, computed by numpy)
                   | {"op":"add","expr":E,"limit":bits,"name":s|null}
                   | {"op":"remove","name":s}
                   | {"op":"update","name":s,"expr":E,"limit":bits,"new_name":s|null}
                   | {"op":"query","sched":[[bits]],"T":n,"names":[s]|null,"times":[int]|null,"linear":bool}
                   -- uses of the network between the edits (AcnModel/NetworkUse.lean)
                   | {"op":"feasible","via":"network"|"alg","sched":[[bits]],"linear":bool,"vt":bits|null,"rt":bits|null}
                   | {"op":"feasible","via":"interface","loads":[[s,[bits]]],"linear":bool,"vt":bits|null,"rt":bits|null}
                   | {"op":"iface"} | {"op":"sim"} | {"op":"json"} ]}
  every answer carries the state after the step.
  E : {"t":"list","ids":[s]} | {"t":"dict","items":[[s,bits]]} | {"t":"str","id":s} | {"t":"none"}
    | {"t":"add"|"sub","l":E,"r":E} | {"t":"lmul","k":bits,"e":E} | {"t":"rmul","e":E,"k":bits}
-/
import AcnModel.Wire
import AcnModel.Network
import AcnModel.NetworkUse
import AcnModel.Gen.Consts
open Lean Acn Acn.Wire Acn.Network

def asStrs (v : Json) : Except String (List String) := do
  let a ← asArr v
  a.mapM (fun x => x.getStr?)

def parseItem (v : Json) : Except String (String × Float) := do
  match ← asArr v with
  | [k, x] => pure (← k.getStr?, ← asF x)
  | _ => throw "item: expected [id, bits]"

partial def parseExpr (j : Json) : Except String (Expr Float) := do
  let t ← getStr j "t"
  if t == "list" then
    pure (.lit (Current.ofList (← asStrs (← j.getObjVal? "ids"))))
  else if t == "dict" then
    let items ← (← getArr j "items").mapM parseItem
    pure (.lit (Current.ofDict items))
  else if t == "str" then pure (.lit (Current.ofStr (← getStr j "id")))
  else if t == "none" then pure (.lit Current.empty)
  else if t == "add" then
    pure (.add (← parseExpr (← j.getObjVal? "l")) (← parseExpr (← j.getObjVal? "r")))
  else if t == "sub" then
    pure (.sub (← parseExpr (← j.getObjVal? "l")) (← parseExpr (← j.getObjVal? "r")))
  else if t == "lmul" then pure (.lmul (← getF j "k") (← parseExpr (← j.getObjVal? "e")))
  else if t == "rmul" then pure (.rmul (← parseExpr (← j.getObjVal? "e")) (← getF j "k"))
  else throw s!"unknown expr {t}"

/-- insertion sort by key (canonical output of a dict-like value) -/
def sortItems (l : List (String × Float)) : List (String × Float) :=
  let ins := fun (acc : List (String × Float)) (p : String × Float) =>
    let (lo, hi) := acc.span (fun q => q.1 < p.1)
    lo ++ p :: hi
  l.foldl ins []

def jCoeffs (c : Current Float) : Json :=
  jList (fun p => Json.arr #[jS p.1, jF p.2]) (sortItems c)

def jState (u : UNet Float) : List (String × Json) :=
  let f := u.full
  let n := f.base
  [("nangles", jN f.c.length), ("nvoltages", jN f.voltages.length),
   ("voltages", jFs f.voltages), ("vt", jF u.vt), ("rt", jF u.rt),
   ("stations", jList jS n.stations),
   ("matrix", jOpt jFss n.matrix),
   ("magnitudes", jFs n.magnitudes),
   ("index", jList jS n.index)]

def jErr : Option Err → Json
  | none => Json.null
  | some e => jS (errName e)

def parseLoad (v : Json) : Except String (String × List Float) := do
  match ← asArr v with
  | [k, x] => pure (← k.getStr?, ← asFs x)
  | _ => throw "load: expected [id, [bits]]"

def editStep (u : UNet Float) (o : FOp Float) (extra : List (String × Json)) : UNet Float × Json :=
  match u.step (.edit o) with
  | (u', .edited e) => (u', Json.mkObj (("err", jErr e) :: extra ++ jState u'))
  | (u', _) => (u', Json.mkObj (("err", Json.null) :: extra ++ jState u'))

def useStep (u : UNet Float) (x : Use Float) : UNet Float × Json :=
  let (u', a) := u.step (.use x)
  let ans : List (String × Json) := match a with
    | .bool (.ok b) => [("err", Json.null), ("result", jB b)]
    | .bool (.error e) => [("err", jS e.name), ("result", Json.null)]
    | .currents (.ok (re, im)) => [("err", Json.null), ("result", jFss re), ("imag", jFss im)]
    | .currents (.error e) => [("err", jS (errName e)), ("result", Json.null)]
    | .view (.ok _) => [("err", Json.null), ("view_err", Json.null)]
    | .view (.error e) => [("err", Json.null), ("view_err", jS (errName e))]
    | .bools _ => [("err", Json.null)]
    | .edited e => [("err", jErr e)]
    | .resumed => [("err", Json.null)]
  (u', Json.mkObj (ans ++ jState u'))

def stepOp (u : UNet Float) (o : Json) : Except String (UNet Float × Json) := do
  let op ← getStr o "op"
  if op == "register" then
    pure (editStep u (.register (← getStr o "id") (← getF o "c") (← getF o "s") (← getF o "v")) [])
  else if op == "add" then
    let c := (← parseExpr (← o.getObjVal? "expr")).eval
    let nm ← getOpt o "name" (fun v => v.getStr?)
    pure (editStep u (.add c (← getF o "limit") nm) [("coeffs", jCoeffs c)])
  else if op == "remove" then
    pure (editStep u (.remove (← getStr o "name")) [])
  else if op == "update" then
    let c := (← parseExpr (← o.getObjVal? "expr")).eval
    let nn ← getOpt o "new_name" (fun v => v.getStr?)
    pure (editStep u (.update (← getStr o "name") c (← getF o "limit") nn) [("coeffs", jCoeffs c)])
  else if op == "query" then
    let sched ← getFss o "sched"
    let T ← getNat o "T"
    let names ← getOpt o "names" asStrs
    let times ← getOpt o "times" (fun v => do (← asArr v).mapM (fun x => x.getInt?))
    let lin := (← getOpt o "linear" (fun v => v.getBool?)).getD false
    pure (useStep u (.query sched T names times lin))
  else if op == "feasible" then
    let via ← getStr o "via"
    let lin ← getBool o "linear"
    let vt? ← getOpt o "vt" asF
    let rt? ← getOpt o "rt" asF
    if via == "interface" then
      let loads ← (← getArr o "loads").mapM parseLoad
      pure (useStep u (.ifaceFeasible loads lin vt? rt?))
    else if via == "alg" then
      pure (useStep u (.algFeasible (← getFss o "sched") lin
        (vt?.getD (fOfBits Acn.Gen.algAbsTolBits)) (rt?.getD (fOfBits Acn.Gen.algRelTolBits))))
    else
      pure (useStep u (.feasible (← getFss o "sched") lin vt? rt?))
  else if op == "iface" then pure (useStep u .view)
  else if op == "sim" then pure (useStep u (.simulate []))
  else if op == "json" then pure (useStep u (.resume (fun st => st.length)))
  else throw s!"unknown op {op}"

def handle (j : Json) : Except String Json := do
  let ops ← getArr j "ops"
  let vt := (← getOpt j "vt" asF).getD (fOfBits Acn.Gen.netAbsTolBits)
  let rt := (← getOpt j "rt" asF).getD (fOfBits Acn.Gen.netRelTolBits)
  let mut n : UNet Float := UNet.init vt rt
  let mut outs : Array Json := #[]
  for o in ops do
    let (n', r) ← stepOp n o
    n := n'
    outs := outs.push r
  pure (Json.mkObj [("steps", Json.arr outs)])

def main : IO Unit := runDriver handle
