/-
  Driver for C12: a history of network operations (with `Current` expression trees to evaluate)
  and subset queries; the observable state after each operation.
  request : {"ops":[ {"op":"register","id":s,"c":bits,"s":bits,"v":bits}   (c + i s = e^{iφ}, computed by numpy)
                   | {"op":"add","expr":E,"limit":bits,"name":s|null}
                   | {"op":"remove","name":s}
                   | {"op":"update","name":s,"expr":E,"limit":bits,"new_name":s|null}
                   | {"op":"query","sched":[[bits]],"T":n,"names":[s]|null,"times":[int]|null} ]}
  E : {"t":"list","ids":[s]} | {"t":"dict","items":[[s,bits]]} | {"t":"str","id":s} | {"t":"none"}
    | {"t":"add"|"sub","l":E,"r":E} | {"t":"lmul","k":bits,"e":E} | {"t":"rmul","e":E,"k":bits}
-/
import AcnModel.Wire
import AcnModel.Network
open Lean Acn Acn.Wire Acn.Network

def asStrs (v : Json) : Except String (List String) := do
  let a ← asArr v
  a.mapM (fun x => x.getStr?)

def parseItem (v : Json) : Except String (String × Float) := do
  match ← asArr v with
  | [k, x] => pure (← k.getStr?, ← asF x)
  | _ => throw "item: expected [id, bits]"

partial def parseExpr (j : Json) : Except String (Expr Float) := do
  let t ← getStr j "t"
  if t == "list" then
    pure (.lit (Current.ofList (← asStrs (← j.getObjVal? "ids"))))
  else if t == "dict" then
    let items ← (← getArr j "items").mapM parseItem
    pure (.lit (Current.ofDict items))
  else if t == "str" then pure (.lit (Current.ofStr (← getStr j "id")))
  else if t == "none" then pure (.lit Current.empty)
  else if t == "add" then
    pure (.add (← parseExpr (← j.getObjVal? "l")) (← parseExpr (← j.getObjVal? "r")))
  else if t == "sub" then
    pure (.sub (← parseExpr (← j.getObjVal? "l")) (← parseExpr (← j.getObjVal? "r")))
  else if t == "lmul" then pure (.lmul (← getF j "k") (← parseExpr (← j.getObjVal? "e")))
  else if t == "rmul" then pure (.rmul (← parseExpr (← j.getObjVal? "e")) (← getF j "k"))
  else throw s!"unknown expr {t}"

/-- insertion sort by key (canonical output of a dict-like value) -/
def sortItems (l : List (String × Float)) : List (String × Float) :=
  let ins := fun (acc : List (String × Float)) (p : String × Float) =>
    let (lo, hi) := acc.span (fun q => q.1 < p.1)
    lo ++ p :: hi
  l.foldl ins []

def jCoeffs (c : Current Float) : Json :=
  jList (fun p => Json.arr #[jS p.1, jF p.2]) (sortItems c)

def jState (f : FullNet Float) : List (String × Json) :=
  let n := f.base
  [("nangles", jN f.c.length), ("nvoltages", jN f.voltages.length),
   ("stations", jList jS n.stations),
   ("matrix", jOpt jFss n.matrix),
   ("magnitudes", jFs n.magnitudes),
   ("index", jList jS n.index)]

def jErr : Option Err → Json
  | none => Json.null
  | some e => jS (errName e)

def stepOp (n : FullNet Float) (o : Json) : Except String (FullNet Float × Json) := do
  let op ← getStr o "op"
  if op == "register" then
    let (n', e) := n.step (.register (← getStr o "id") (← getF o "c") (← getF o "s") (← getF o "v"))
    pure (n', Json.mkObj (("err", jErr e) :: jState n'))
  else if op == "add" then
    let c := (← parseExpr (← o.getObjVal? "expr")).eval
    let nm ← getOpt o "name" (fun v => v.getStr?)
    let (n', e) := n.step (.add c (← getF o "limit") nm)
    pure (n', Json.mkObj (("err", jErr e) :: ("coeffs", jCoeffs c) :: jState n'))
  else if op == "remove" then
    let (n', e) := n.step (.remove (← getStr o "name"))
    pure (n', Json.mkObj (("err", jErr e) :: jState n'))
  else if op == "update" then
    let c := (← parseExpr (← o.getObjVal? "expr")).eval
    let nn ← getOpt o "new_name" (fun v => v.getStr?)
    let (n', e) := n.step (.update (← getStr o "name") c (← getF o "limit") nn)
    pure (n', Json.mkObj (("err", jErr e) :: ("coeffs", jCoeffs c) :: jState n'))
  else if op == "query" then
    let sched ← getFss o "sched"
    let T ← getNat o "T"
    let names ← getOpt o "names" asStrs
    let times ← getOpt o "times" (fun v => do (← asArr v).mapM (fun x => x.getInt?))
    match n.constraintCurrent sched T names times with
    | .ok (re, im) => pure (n, Json.mkObj [("err", Json.null), ("result", jFss re), ("imag", jFss im)])
    | .error e => pure (n, Json.mkObj [("err", jS (errName e)), ("result", Json.null)])
  else throw s!"unknown op {op}"

def handle (j : Json) : Except String Json := do
  let ops ← getArr j "ops"
  let mut n : FullNet Float := FullNet.init
  let mut outs : Array Json := #[]
  for o in ops do
    let (n', r) ← stepOp n o
    n := n'
    outs := outs.push r
  pure (Json.mkObj [("steps", Json.arr outs)])

def main : IO Unit := runDriver handle
