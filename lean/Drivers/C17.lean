/-
  Driver for C17 (tariffs).  One request per line:
   {"op":"instants","file":f,"ts":[epoch s …],"py":[[month,day,wd,h,mi,s] …]}
        → rates via the fields Python's datetime supplied, demand charges, number of valid
          schedules, and the indices where the model's own Calendar decomposition of `ts`
          (or the rate obtained through it) differs
   {"op":"tariffs","file":f,"start":t,"n":n,"period":p}       → get_tariffs
   {"op":"tariffs_us","file":f,"start_us":µs,"n":n,"step_us":µs} → get_tariffs, any start / timedelta step
   {"op":"iface","file":f,"sim_start":t,"period":p,"iteration":i,"start":k|null,"n":n}  → Interface.get_prices / get_demand_charge
   {"op":"cost","file":f,"sim_start":t,"period":p,"agg":[bits…]}   → energy_cost, demand_charge
   {"op":"tariffs_p","file":f,"start_us":µs,"n":n,"p_num":a,"p_den":b}      → get_tariffs for the rational period a/b min, and timedelta(minutes=a/b) in µs
   {"op":"iface_p","file":f,"sim_start_us":µs,"p_num":a,"p_den":b,"iteration":i,"start":k|null,"n":n} → Interface.get_prices / get_demand_charge, any period
   {"op":"cost_p","file":f,"sim_start_us":µs,"p_num":a,"p_den":b,"period_f":bits,"agg":[bits…],"arg":file|null,"sig":file|"nodict"|null}
        → energy_cost(sim, tariff=arg) / demand_charge(sim, tariff=arg) with sim.signals = {"tariff": sig} | {} (null) | None ("nodict")
   {"op":"load","file":f}                                      → the loaded schedule list
   {"op":"decimal","from":a,"to":b}                            → Decimal hour value + flipOk per second of day
   {"op":"minutes","file":f,"day0":d,"days":k}                 → run-length encoded per-minute rates per day
-/
import AcnModel.Wire
import AcnModel.Gen.Tariffs
import AcnModel.TariffPeriod
import Std.Data.HashMap
open Lean Acn Acn.Wire Acn.Tariff

/-- executable form of the Decimal no-flip statement (same as `Acn.C17.flipOk`) -/
def flipOkD (d : Dec) (h m s : Nat) : Bool :=
  match d with
  | ⟨c, e⟩ =>
    let F := (3600 * h + 60 * m + s) / 1800
    decide (e ≤ 0) && decide (F * 10 ^ (-e).toNat ≤ 2 * c) && decide (2 * c < (F + 1) * 10 ^ (-e).toNat)

def jRes (r : Except Err Float) : Json :=
  match r with
  | .ok x => jF x
  | .error e => jS (errName e)

def jResL (r : Except Err (List Float)) : Json :=
  match r with
  | .ok x => jFs x
  | .error e => jS (errName e)

def findFile (name : String) : Except String (List (Raw Float)) :=
  match Acn.Gen.Tariffs.filesF.find? (fun p => p.1 == name) with
  | some p => pure p.2
  | none => throw s!"unknown tariff file {name}"

def loadFile (name : String) : Except String (Except Err (List (Schedule Float))) := do
  let raws ← findFile name
  pure (load raws)

def jResC (r : Except CostErr Float) : Json :=
  match r with
  | .ok x => jF x
  | .error e => jS (costErrName e)

/-- an optional tariff named by its file: `null` ↦ none; a file that does not load ↦ protocol error -/
def optTariff (j : Json) (k : String) : Except String (Option (List (Schedule Float))) := do
  match ← getOpt j k (fun v => v.getStr?) with
  | none => pure none
  | some name =>
    match ← loadFile name with
    | .ok l => pure (some l)
    | .error e => throw s!"tariff {name} does not load: {errName e}"

def getPeriod (j : Json) : Except String Rat := do
  let a ← getInt j "p_num"
  let b ← getNat j "p_den"
  if b == 0 then throw "p_den = 0"
  pure (mkRat a b)

def jRat (q : Rat) : Json := jS s!"{q.num}/{q.den}"

def jSchedule (s : Schedule Float) : Json :=
  Json.mkObj [("id", jS s.id), ("start", Json.arr #[jN s.start.1, jN s.start.2]),
    ("stop", Json.arr #[jN s.stop.1, jN s.stop.2]), ("mask", Json.arr (s.mask.map jB).toArray),
    ("times", Json.arr (s.tariffs.map (fun p => jRat p.1)).toArray),
    ("rates", jFs (s.tariffs.map (·.2))), ("demand", jF s.demand)]

def natsOf (j : Json) : Except String (List Nat) := do
  let a ← asArr j
  a.mapM (fun v => v.getNat?)

def handleInstants (l : List (Schedule Float)) (j : Json) : Except String Json := do
  let ts ← (← getArr j "ts").mapM (fun v => v.getInt?)
  let py ← (← getArr j "py").mapM natsOf
  let mut rates : Array Json := #[]
  let mut demands : Array Json := #[]
  let mut counts : Array Json := #[]
  let mut calbad : Array Json := #[]
  -- the Decimal hour value depends on the second of the day only: computed once per distinct second
  let mut hours : Std.HashMap Nat Rat := {}
  let mut i := 0
  for (t, p) in ts.zip py do
    match p with
    | [mo, d, wd, h, mi, s] =>
      let sod := 3600 * h + 60 * mi + s
      let hour ← match hours[sod]? with
        | some x => pure x
        | none =>
          let x := (targetHour h mi s).toRat
          hours := hours.insert sod x
          pure x
      -- `getTariff l md wd h mi s` is by definition `getTariffH l md wd (targetHour h mi s).toRat`
      rates := rates.push (jRes (getTariffH l (mo, d) wd hour))
      demands := demands.push (jRes (getDemand l (mo, d) wd))
      counts := counts.push (jN (countValid l (mo, d) wd))
      -- `getTariffAt l t` is `getTariff` on `fieldsOf t`: the model's Calendar against datetime
      let f := fieldsOf t
      let same := f.md == (mo, d) && f.wd == wd && f.h == h && f.m == mi && f.s == s
      if !same then calbad := calbad.push (jN i)
    | _ => throw "py fields must be [month,day,wd,h,mi,s]"
    i := i + 1
  pure (Json.mkObj [("rates", Json.arr rates), ("demands", Json.arr demands),
    ("counts", Json.arr counts), ("calbad", Json.arr calbad)])

/-- run-length encoding of a list of results -/
def rle (xs : List Json) : List (Json × Nat) :=
  (xs.foldl (fun (acc : List (Json × Nat)) x =>
    match acc with
    | (y, n) :: rest => if y == x then (y, n + 1) :: rest else (x, 1) :: acc
    | [] => [(x, 1)]) []).reverse

def handle (j : Json) : Except String Json := do
  let op ← getStr j "op"
  if op == "decimal" then
    let a ← getNat j "from"
    let b ← getNat j "to"
    let mut out : Array Json := #[]
    let mut bad := 0
    for t in List.range' a (b - a) do
      let h := t / 3600; let m := t % 3600 / 60; let s := t % 60
      let d := targetHour h m s
      out := out.push (jS s!"{d.c}e{d.e}")
      if !flipOkD d h m s then bad := bad + 1
    return Json.mkObj [("targets", Json.arr out), ("bad", jN bad)]
  if op == "cost_p" then
    let arg ← optTariff j "arg"
    -- sim.signals: "nodict" = None, null = a dict without "tariff", a file name = {"tariff": that tariff}
    let sigName ← getOpt j "sig" (fun v => v.getStr?)
    let signals : Option (Option (List (Schedule Float))) ←
      if sigName == some "nodict" then pure none else do pure (some (← optTariff j "sig"))
    let st ← getInt j "sim_start_us"; let p ← getPeriod j
    let pf ← getF j "period_f"; let agg ← getFs j "agg"
    return Json.mkObj [("energy_cost", jResC (energyCostWith arg signals st p pf agg)),
      ("demand_charge", jResC (demandChargeWith arg signals st agg))]
  let name ← getStr j "file"
  let loaded ← loadFile name
  if op == "load" then
    return match loaded with
      | .ok l => Json.mkObj [("schedules", Json.arr (l.map jSchedule).toArray)]
      | .error e => Json.mkObj [("err", jS (errName e))]
  let l ← match loaded with
    | .ok l => pure l
    | .error e => return Json.mkObj [("load_err", jS (errName e))]
  if op == "instants" then
    handleInstants l j
  else if op == "tariffs" then
    let r := getTariffs l (← getInt j "start") (← getNat j "n") (← getNat j "period")
    pure (Json.mkObj [("prices", jResL r)])
  else if op == "tariffs_us" then
    let r := getTariffsUs l (← getInt j "start_us") (← getNat j "n") (← getInt j "step_us")
    pure (Json.mkObj [("prices", jResL r)])
  else if op == "tariffs_p" then
    let p ← getPeriod j
    let r := getTariffsP l (← getInt j "start_us") (← getNat j "n") p
    pure (Json.mkObj [("prices", jResL r), ("step_us", jI (tdUs p))])
  else if op == "iface_p" then
    let st ← getInt j "sim_start_us"; let p ← getPeriod j
    let it ← getNat j "iteration"
    let start ← getOpt j "start" (fun v => v.getInt?)
    pure (Json.mkObj [("prices", jResL (interfacePricesP l st p it start (← getNat j "n"))),
      ("demand", jRes (interfaceDemandP l st p it start)), ("step_us", jI (tdUs p))])
  else if op == "iface" then
    let st ← getInt j "sim_start"; let p ← getNat j "period"
    let it ← getNat j "iteration"
    let start ← getOpt j "start" (fun v => v.getInt?)
    pure (Json.mkObj [("prices", jResL (interfacePrices l st p it start (← getNat j "n"))),
      ("demand", jRes (interfaceDemand l st p it start))])
  else if op == "cost" then
    let st ← getInt j "sim_start"; let p ← getNat j "period"
    let agg ← getFs j "agg"
    pure (Json.mkObj [("energy_cost", jRes (energyCost l st p agg)),
      ("demand_charge", jRes (demandCharge l st agg))])
  else if op == "minutes" then
    let d0 ← getInt j "day0"; let k ← getNat j "days"
    let mut out : Array Json := #[]
    -- the Decimal hour value of each minute of the day, once per request; per day the date fields
    -- come from the model's Calendar (`getTariffAt l t` = `getTariffH l md wd hour` by definition)
    let hours : Array Rat := ((List.range 1440).map (fun mi => (targetHour (mi / 60) (mi % 60) 0).toRat)).toArray
    for i in List.range k do
      let f := fieldsOf ((d0 + (i : Int)) * 86400)
      let rs := (List.range 1440).map (fun (mi : Nat) => jRes (getTariffH l f.md f.wd (hours.getD mi 0)))
      out := out.push (Json.arr ((rle rs).map (fun p => Json.arr #[p.1, jN p.2])).toArray)
    pure (Json.mkObj [("days", Json.arr out)])
  else throw s!"unknown op {op}"

def main : IO Unit := runDriver handle
