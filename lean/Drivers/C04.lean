/-
  Driver for C04: a pilot matrix and a sequence of operations on it; the matrix (or the error)
  after each, plus the value of the SPEC `pilotAt` for every cell (so that the harness can compare
  the implementation with the executable model AND with the executable specification).

  request : {"stations":[str], "width":n,
             "ops":[ {"op":"submit","t":n,"lastTs":n|null,"sched":[[station,[bits…]],…]}
                   | {"op":"grow","t":n,"lastTs":n|null}
                   | {"op":"period","t":n,"lastTs":n|null,"sched":null|[[station,[bits…]],…],"by":"run"|"step"}
                   | {"op":"last_applied","t":iteration,"lastTs":null,"active":[[session,station,arrival],…]}
                   | {"op":"mark","kind":"restore"|"swap","t":iteration,"lastTs":null} ]}
             mark = a step of the history that is not a submission (`AcnModel/PilotsHist.lean`):
             restore = Simulator.from_json(sim.to_json()), swap = update_scheduler; answers with the matrix
             afterwards (rows in the order of the request's "stations", located by station id)
  optional "brief":true (only the last step in full); or {"batch":[request,…]} ↦ {"batch":[answer,…]}
  answer  : {"steps":[{"err":null|"KeyError"|"InvalidSchedule"|"IndexError","width":n,
                       "rows":[[bits…]], "col":null|[bits…], "spec":[[bits…]]}]}
-/
import AcnModel.Wire
import AcnModel.Pilots
import AcnModel.PilotsHist
open Lean Acn Acn.Wire Acn.Pilots

instance : OfNat Float 0 := ⟨0.0⟩

def errName : Err → String
  | .keyError => "KeyError"
  | .invalidSchedule => "InvalidSchedule"

def parseSched (v : Json) : Except String (Sched Float) := do
  let a ← asArr v
  a.mapM fun e => do
    let pr ← asArr e
    match pr with
    | [k, r] => pure ((← k.getStr?), (← asFs r))
    | _ => throw "schedule entry must be [station, row]"

def getLastTs (o : Json) : Except String (Option Nat) := getOpt o "lastTs" (fun v => v.getNat?)

structure St where
  m : Mat Float
  subs : List (Submission Float)   -- every submission made so far, in order
  ids : List String                -- key order of `network._EVSEs` at the moment (rows of `m` are positional)

/-- rows / applied column are reported per station ID in the order of the request's `stations`
    (the ground truth), located through the CURRENT key order `s.ids` as `index_of_evse` does -/
def rowsById (stations : List String) (s : St) : List (List Float) :=
  stations.map fun st => (List.range s.m.width).map fun τ => getById s.ids s.m st τ

def colById (stations : List String) (s : St) (col : List Float) : List Float :=
  stations.map fun st => ((s.ids.zip col).lookup st).getD 0

def jStep (stations : List String) (s : St) (err : Option String) (col : Option (List Float)) : Json :=
  let spec := stations.map fun st => (List.range s.m.width).map fun τ => pilotAt stations s.subs st τ
  Json.mkObj [("err", jOpt jS err), ("width", jN s.m.width), ("rows", jFss (rowsById stations s)),
              ("col", jOpt jFs (col.map (colById stations s))), ("spec", jFss spec)]

def stepOp (stations : List String) (s : St) (o : Json) : Except String (St × Json) := do
  let op ← getStr o "op"
  let t ← getNat o "t"
  let lastTs ← getLastTs o
  if op == "submit" then
    let sched ← parseSched (← o.getObjVal? "sched")
    match updateSchedules s.ids s.m t lastTs sched with
    | .ok m' =>
      let s' : St := ⟨m', s.subs ++ [⟨t, lastTs, sched⟩], s.ids⟩
      pure (s', jStep stations s' none none)
    | .error e =>
      -- the rejected submission is recorded too: the spec must ignore it
      let s' : St := ⟨s.m, s.subs ++ [⟨t, lastTs, sched⟩], s.ids⟩
      pure (s', jStep stations s' (some (errName e)) none)
  else if op == "grow" then
    let s' : St := ⟨runGrow s.m t lastTs, s.subs, s.ids⟩
    pure (s', jStep stations s' none none)
  else if op == "period" then
    let sched ← getOpt o "sched" parseSched
    let subs' := match sched with
      | some sc => s.subs ++ [⟨t, lastTs, sc⟩]
      | none => s.subs
    -- "by":"step" = a loop trip of step(): growth target stepWidth instead of runWidth
    let byStep := (getStr o "by").toOption == some "step"
    let target := if byStep then stepWidth t lastTs else runWidth t lastTs
    match periodStepW s.ids s.m ⟨t, lastTs, sched⟩ target with
    | .ok (m', col) =>
      let s' : St := ⟨m', subs', s.ids⟩
      pure (s', jStep stations s' none (some col))
    | .error (.sched e) =>
      let s' : St := ⟨s.m, subs', s.ids⟩
      pure (s', jStep stations s' (some (errName e)) none)
    | .error .indexError =>
      pure (s, jStep stations s (some "IndexError") none)
  else if op == "last_applied" then
    -- {"op":"last_applied","t":iteration,"lastTs":null,"active":[[session,station,arrival],…]}
    let act ← (← getArr o "active").mapM fun e => do
      match ← asArr e with
      | [a, b, c] => pure ((← a.getStr?), (← b.getStr?), (← c.getNat?))
      | _ => throw "active entry must be [session, station, arrival]"
    let r := lastApplied s.ids s.m t act
    let j := match r with
      | some vals => Json.arr (vals.map fun v => Json.arr #[jS v.1, jF v.2]).toArray
      | none => Json.null
    pure (s, Json.mkObj [("err", if r.isSome then Json.null else jS "KeyError"), ("last", j)])
  else if op == "mark" then
    let kind ← getStr o "kind"
    if kind == "restore" then
      -- one `HStep.restore` of `runHistWith jsonKeyOrder`
      match restoreMat s.m with
      | some m' =>
        let s' : St := ⟨m', s.subs, jsonKeyOrder s.ids⟩
        pure (s', jStep stations s' none none)
      | none => pure (s, jStep stations s (some "RestoreShape") none)
    else if kind == "swap" then
      pure (s, jStep stations s none none)       -- `HStep.swap`
    else throw s!"unknown mark {kind}"
  else throw s!"unknown op {op}"

def handleOne (j : Json) : Except String Json := do
  let stations ← (← getArr j "stations").mapM (fun v => v.getStr?)
  let w ← getNat j "width"
  let ops ← getArr j "ops"
  let brief := (getBool j "brief").toOption.getD false
  let mut s : St := ⟨Mat.zeros stations.length w, [], stations⟩
  let mut outs : Array Json := #[]
  let mut k := 0
  for o in ops do
    let (s', r) ← stepOp stations s o
    s := s'
    k := k + 1
    -- brief: only the error of the intermediate steps, everything of the last one
    if brief && k < ops.length then
      outs := outs.push (Json.mkObj [("err", (r.getObjVal? "err").toOption.getD Json.null)])
    else
      outs := outs.push r
  pure (Json.mkObj [("steps", Json.arr outs)])

/-- a request is one scenario, or `{"batch":[scenario,…]}` (exhaustive small-scope enumeration) -/
def handle (j : Json) : Except String Json := do
  match j.getObjVal? "batch" with
  | .ok b =>
    let rs ← (← asArr b).mapM handleOne
    pure (Json.mkObj [("batch", Json.arr rs.toArray)])
  | .error _ => handleOne j

def main : IO Unit := runDriver handle
