/-
  Driver for C07: sorting-based algorithms (greedy / round robin / uncontrolled) over a sequence
  of `schedule()` calls.  The request / response format is documented in `AcnModel/WireSorted.lean`.
-/
import AcnModel.WireSorted
open Acn.Wire

def main : IO Unit := runDriver Acn.WireSorted.handle
