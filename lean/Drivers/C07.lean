/-
  Driver for C07: sorting-based algorithms (greedy / round robin / uncontrolled) over a sequence
  of `schedule()` calls, and whole simulations with the modelled algorithm as scheduler — without
  estimator through `Sim.run` (`AcnModel/WireSorted.lean`), with the rampdown estimator through the
  stateful loop `SimSortedRd.runSt` (`AcnModel/WireSortedRd.lean`), with an ARBITRARY estimator
  (requests marked `"custom_est": true`: the dict the estimator returned is an input of every call)
  through `Sorted.scheduleCallEst` / `SimSortedEst.sortedSchedEst` (`AcnModel/WireSortedEst.lean`).
  The request / response format is documented in those three files.
-/
import AcnModel.WireSortedEst
open Acn.Wire

def main : IO Unit := runDriver Acn.WireSortedEst.handle
