/-
  Driver for C07: sorting-based algorithms (greedy / round robin / uncontrolled) over a sequence
  of `schedule()` calls, and whole simulations with the modelled algorithm as scheduler — without
  estimator through `Sim.run` (`AcnModel/WireSorted.lean`), with the rampdown estimator through the
  stateful loop `SimSortedRd.runSt` (`AcnModel/WireSortedRd.lean`).  The request / response format
  is documented in those two files.
-/
import AcnModel.WireSortedRd
open Acn.Wire

def main : IO Unit := runDriver Acn.WireSortedRd.handle
