/-
  Driver for C05: a whole-simulation scenario in (request format of `AcnModel/WireSim.lean`), out
  the full observable trajectory of `Sim.run` (as `drv_C01`) PLUS
    "views" : every view handed to the scheduler along the run (`Sim.runViews`), in call order,
    "infra" : the static infrastructure description (`Sim.infra`),
    "infra_full" : every InfrastructureInfo field (`Sim.infraInfo`) when the request carries
                   "net": {"phases":[bits], "constraints":[{"current":[[station,bits]…],"limit":bits,"name":str|null}]}.
    "infra_at" : for every view (same order) {"t": period, + the fields of "infra_full"}: the description
                 handed out in THAT period (`Sim.infraInfoAt`, `AcnModel/NetEdits.lean`) when "net" also carries
                 "edits": [{"from": first period in force, "ops": [{"op": "add"|"remove"|"update", "name": str|null,
                 "current": [[station,bits]…], "limit": bits, "new_name": str|null}…]}…] (application order);
                 without edits it repeats "infra_full".
  An optional "ignored": [timestamp…] lists the events of a type the simulator has no handler for that
  are also in the queue: the run is then `Sim.runI` (`AcnModel/Ignored.lean`), whose "event_history" holds
  the plug-in / unplug / recompute entries only.
-/
import AcnModel.WireSim
import AcnModel.SchedView
import AcnModel.Ignored
import AcnModel.NetEdits
open Lean Acn Acn.Wire Acn.EventCore Acn.Sim

def jActive (e : Evse.Ev Float) : Json :=
  Json.mkObj [("session", jS e.session), ("station", jS e.station), ("arrival", jI e.arrival),
              ("departure", jI e.departure), ("est", jI e.estDeparture), ("requested", jF e.requested),
              ("delivered", jF e.delivered), ("rate", jF e.rate)]

def jView (v : View Float) : Json :=
  Json.mkObj [("t", jN v.iter), ("active", jList jActive v.active),
              ("last_pilots", jList (fun p => Json.arr #[jS p.1, jF p.2]) v.lastPilots),
              ("peak", jF v.peak), ("evse_pilot", jFs v.evsePilot),
              ("connected", jList (jOpt jS) v.connected)]

def jStationInfo (i : StationInfo Float) : Json :=
  Json.mkObj [("id", jS i.id), ("V", jF i.voltage), ("max", jF (fOfBound i.maxPilot)), ("min", jF i.minPilot),
              ("continuous", jB i.continuous), ("allowable", jFs (i.allowable.map fOfBound))]

def parseNet (j : Json) : Except String (NetDesc Float) := do
  let phases ← getFs j "phases"
  let cs ← (← getArr j "constraints").mapM fun c => do
    let cur ← (← getArr c "current").mapM fun p => do
      match ← asArr p with
      | [s, v] => pure (← s.getStr?, ← asF v)
      | _ => throw "current entry must be [station, coefficient]"
    let name ← getOpt c "name" (fun v => v.getStr?)
    pure (Network.Current.ofDict cur, ← getF c "limit", name)
  pure { phases, constraints := cs }

def parseCurrent (c : Json) : Except String (Network.Current Float) := do
  let cur ← (← getArr c "current").mapM fun p => do
    match ← asArr p with
    | [s, v] => pure (← s.getStr?, ← asF v)
    | _ => throw "current entry must be [station, coefficient]"
  pure (Network.Current.ofDict cur)

def parseConOp (o : Json) : Except String (ConOp Float) := do
  let name ← getOpt o "name" (fun v => v.getStr?)
  match ← getStr o "op" with
  | "add" => pure (.add (← parseCurrent o) (← getF o "limit") name)
  | "remove" =>
    match name with
    | some nm => pure (.remove nm)
    | none => throw "remove needs a name"
  | "update" =>
    match name with
    | some nm => pure (.update nm (← parseCurrent o) (← getF o "limit") (← getOpt o "new_name" (fun v => v.getStr?)))
    | none => throw "update needs a name"
  | other => throw s!"unknown network op {other}"

def parseEdits (nj : Json) : Except String (List (NetEdit Float)) :=
  match nj.getObjVal? "edits" with
  | .error _ => pure []
  | .ok v => do
    (← asArr v).mapM fun e => do
      pure { since := ← getNat e "from", ops := ← (← getArr e "ops").mapM parseConOp }

def jInfra (i : Infra Float) : Json :=
  Json.mkObj [("constraint_matrix", jFss i.constraintMatrix), ("constraint_limits", jFs i.constraintLimits),
              ("phases", jFs i.phases), ("voltages", jFs i.voltages),
              ("constraint_ids", jList jS i.constraintIds), ("station_ids", jList jS i.stationIds)]

def handle (j : Json) : Except String Json := do
  let cfg ← parseSimCfg j
  let sched ← parseSched (← j.getObjVal? "sched")
  let ign ← match j.getObjVal? "ignored" with
    | .ok v => (← asArr v).mapM fun x => x.getInt?
    | .error _ => pure []
  let r := if ign.isEmpty then Sim.run cfg sched (fuelFor cfg.core) (Sim.init cfg)
    else Sim.runI cfg sched ign (fuelForI cfg.core ign) (Sim.init cfg)
  let vs := if ign.isEmpty then Sim.runViews cfg sched (fuelFor cfg.core) (Sim.init cfg)
    else Sim.runViewsI cfg sched ign (fuelForI cfg.core ign) (Sim.init cfg)
  let out := ((jResult cfg r).setObjVal! "views" (jList jView vs)).setObjVal! "infra" (jList jStationInfo (infra cfg))
  match j.getObjVal? "net" with
  | .error _ => pure out
  | .ok nj =>
    let nd ← parseNet nj
    let edits ← parseEdits nj
    let ia := vs.map fun v => (jInfra (infraInfoAt cfg nd edits v.iter)).setObjVal! "t" (jN v.iter)
    pure ((out.setObjVal! "infra_full" (jInfra (infraInfo cfg nd))).setObjVal! "infra_at" (Json.arr ia.toArray))

def main : IO Unit := runDriver handle
