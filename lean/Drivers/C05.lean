/-
  Driver for C05: a whole-simulation scenario in (request format of `AcnModel/WireSim.lean`), out
  the full observable trajectory of `Sim.run` (as `drv_C01`) PLUS
    "views" : every view handed to the scheduler along the run (`Sim.runViews`), in call order,
    "infra" : the static infrastructure description (`Sim.infra`).
-/
import AcnModel.WireSim
import AcnModel.SchedView
open Lean Acn Acn.Wire Acn.EventCore Acn.Sim

def jActive (e : Evse.Ev Float) : Json :=
  Json.mkObj [("session", jS e.session), ("station", jS e.station), ("arrival", jI e.arrival),
              ("departure", jI e.departure), ("est", jI e.estDeparture), ("requested", jF e.requested),
              ("delivered", jF e.delivered), ("rate", jF e.rate)]

def jView (v : View Float) : Json :=
  Json.mkObj [("t", jN v.iter), ("active", jList jActive v.active),
              ("last_pilots", jList (fun p => Json.arr #[jS p.1, jF p.2]) v.lastPilots),
              ("peak", jF v.peak), ("evse_pilot", jFs v.evsePilot),
              ("connected", jList (jOpt jS) v.connected)]

def jStationInfo (i : StationInfo Float) : Json :=
  Json.mkObj [("id", jS i.id), ("V", jF i.voltage), ("max", jF (fOfBound i.maxPilot)), ("min", jF i.minPilot),
              ("continuous", jB i.continuous), ("allowable", jFs (i.allowable.map fOfBound))]

def handle (j : Json) : Except String Json := do
  let cfg ← parseSimCfg j
  let sched ← parseSched (← j.getObjVal? "sched")
  let fuel := fuelFor cfg.core
  let r := Sim.run cfg sched fuel (Sim.init cfg)
  let vs := Sim.runViews cfg sched fuel (Sim.init cfg)
  pure (((jResult cfg r).setObjVal! "views" (jList jView vs)).setObjVal! "infra" (jList jStationInfo (infra cfg)))

def main : IO Unit := runDriver handle
