/-
  Driver for C05: a whole-simulation scenario in (request format of `AcnModel/WireSim.lean`), out
  the full observable trajectory of `Sim.run` (as `drv_C01`) PLUS
    "views" : every view handed to the scheduler along the run (`Sim.runViews`), in call order,
    "infra" : the static infrastructure description (`Sim.infra`),
    "infra_full" : every InfrastructureInfo field (`Sim.infraInfo`) when the request carries
                   "net": {"phases":[bits], "constraints":[{"current":[[station,bits]…],"limit":bits,"name":str|null}]}.
    "infra_at" : for every view (same order) {"t": period, + the fields of "infra_full"}: the description
                 handed out in THAT period (`Sim.infraInfoAt`, `AcnModel/NetEdits.lean`) when "net" also carries
                 "edits": [{"from": first period in force, "ops": [{"op": "add"|"remove"|"update", "name": str|null,
                 "current": [[station,bits]…], "limit": bits, "new_name": str|null}…]}…] (application order);
                 without edits it repeats "infra_full".
  An optional "ignored": [timestamp…] lists the events of a type the simulator has no handler for that
  are also in the queue: the run is then `Sim.runI` (`AcnModel/Ignored.lean`), whose "event_history" holds
  the plug-in / unplug / recompute entries only.
  Optional "fail_at": [period…] and / or "steps": [<sched>…] (`AcnModel/SimResume.lean`; not together with "ignored"):
  the scheduler raises when entered in one of the periods `fail_at` (each once) and `run()` is called again on the
  state the abort left (a JSON round trip in between is the identity on the model state, C09); before the first
  `run()` one `Simulator.step(sched)` call per entry of "steps".  The answer is the outcome of the LAST `run()` call,
  "views" holds EVERY view handed out (the failing calls included), plus
    "aborts" : [{"iter","resolve","last_upd","queue_empty","invoked"}…] the states left by the aborted `run()` calls,
    "step_results" : [[err|null, returned flag|null, iteration after the call]…],
    "after_steps" : {"iter","resolve","last_upd","queue_empty"} the state the `step()` prefix left (when "steps" is given);
  when a `step()` call raised, `run()` is not called: the answer is the state after that call with "err" = its error.
-/
import AcnModel.WireSim
import AcnModel.SchedView
import AcnModel.Ignored
import AcnModel.NetEdits
import AcnModel.SimResume
open Lean Acn Acn.Wire Acn.EventCore Acn.Sim

def jActive (e : Evse.Ev Float) : Json :=
  Json.mkObj [("session", jS e.session), ("station", jS e.station), ("arrival", jI e.arrival),
              ("departure", jI e.departure), ("est", jI e.estDeparture), ("requested", jF e.requested),
              ("delivered", jF e.delivered), ("rate", jF e.rate)]

def jView (v : View Float) : Json :=
  Json.mkObj [("t", jN v.iter), ("active", jList jActive v.active),
              ("last_pilots", jList (fun p => Json.arr #[jS p.1, jF p.2]) v.lastPilots),
              ("peak", jF v.peak), ("evse_pilot", jFs v.evsePilot),
              ("connected", jList (jOpt jS) v.connected)]

def jStationInfo (i : StationInfo Float) : Json :=
  Json.mkObj [("id", jS i.id), ("V", jF i.voltage), ("max", jF (fOfBound i.maxPilot)), ("min", jF i.minPilot),
              ("continuous", jB i.continuous), ("allowable", jFs (i.allowable.map fOfBound))]

def parseNet (j : Json) : Except String (NetDesc Float) := do
  let phases ← getFs j "phases"
  let cs ← (← getArr j "constraints").mapM fun c => do
    let cur ← (← getArr c "current").mapM fun p => do
      match ← asArr p with
      | [s, v] => pure (← s.getStr?, ← asF v)
      | _ => throw "current entry must be [station, coefficient]"
    let name ← getOpt c "name" (fun v => v.getStr?)
    pure (Network.Current.ofDict cur, ← getF c "limit", name)
  pure { phases, constraints := cs }

def parseCurrent (c : Json) : Except String (Network.Current Float) := do
  let cur ← (← getArr c "current").mapM fun p => do
    match ← asArr p with
    | [s, v] => pure (← s.getStr?, ← asF v)
    | _ => throw "current entry must be [station, coefficient]"
  pure (Network.Current.ofDict cur)

def parseConOp (o : Json) : Except String (ConOp Float) := do
  let name ← getOpt o "name" (fun v => v.getStr?)
  match ← getStr o "op" with
  | "add" => pure (.add (← parseCurrent o) (← getF o "limit") name)
  | "remove" =>
    match name with
    | some nm => pure (.remove nm)
    | none => throw "remove needs a name"
  | "update" =>
    match name with
    | some nm => pure (.update nm (← parseCurrent o) (← getF o "limit") (← getOpt o "new_name" (fun v => v.getStr?)))
    | none => throw "update needs a name"
  | other => throw s!"unknown network op {other}"

def parseEdits (nj : Json) : Except String (List (NetEdit Float)) :=
  match nj.getObjVal? "edits" with
  | .error _ => pure []
  | .ok v => do
    (← asArr v).mapM fun e => do
      pure { since := ← getNat e "from", ops := ← (← getArr e "ops").mapM parseConOp }

def jInfra (i : Infra Float) : Json :=
  Json.mkObj [("constraint_matrix", jFss i.constraintMatrix), ("constraint_limits", jFs i.constraintLimits),
              ("phases", jFs i.phases), ("voltages", jFs i.voltages),
              ("constraint_ids", jList jS i.constraintIds), ("station_ids", jList jS i.stationIds)]

def jMid (s : Sim.State Float) : Json :=
  Json.mkObj [("iter", jN s.core.iter), ("resolve", jB s.core.resolve), ("last_upd", jOpt jI s.core.lastUpd),
              ("queue_empty", jB s.core.pending.isEmpty), ("invoked", jList jN s.core.invoked)]

def jStepRes (r : Except StepErr Bool × Nat) : Json :=
  match r.1 with
  | .error e => Json.arr #[jS e.name, Json.null, jN r.2]
  | .ok b => Json.arr #[Json.null, jB b, jN r.2]

/-- interrupted / resumed and `step()`-prefixed simulations (`AcnModel/SimResume.lean`) -/
def handleResume (cfg : Sim.Cfg Float) (sched : View Float → Except Err (Schedule Float)) (j : Json) :
    Except String (Json × List (View Float)) := do
  let ks ← match j.getObjVal? "fail_at" with
    | .ok v => (← asArr v).mapM fun x => x.getNat?
    | .error _ => pure []
  let fuel := fuelFor cfg.core
  match j.getObjVal? "steps" with
  | .error _ =>
    let r := Sim.runResume cfg sched fuel ks.length ks (Sim.init cfg)
    pure ((jResult cfg r.result).setObjVal! "aborts" (jList jMid r.aborts), r.views)
  | .ok sj =>
    let scheds ← (← asArr sj).mapM parseSchedule
    let r := Sim.stepsThenRun cfg sched fuel scheds ks (Sim.init cfg)
    let base := fun (o : Json) => (o.setObjVal! "step_results" (jList jStepRes r.stepResults)).setObjVal! "after_steps" (jMid r.afterSteps)
    match r.resumed with
    | none =>
      let e := r.stepResults.findSome? fun x => match x.1 with | .error e => some e.name | .ok _ => none
      let o := Json.mkObj ([("err", jOpt jS e), ("fuel_exhausted", jB false)] ++ jSimState cfg r.afterSteps)
      pure (base (o.setObjVal! "aborts" (Json.arr #[])), [])
    | some rr => pure (base ((jResult cfg rr.result).setObjVal! "aborts" (jList jMid rr.aborts)), rr.views)

def handle (j : Json) : Except String Json := do
  let cfg ← parseSimCfg j
  let sched ← parseSched (← j.getObjVal? "sched")
  let ign ← match j.getObjVal? "ignored" with
    | .ok v => (← asArr v).mapM fun x => x.getInt?
    | .error _ => pure []
  let special := (j.getObjVal? "fail_at").toOption.isSome || (j.getObjVal? "steps").toOption.isSome
  let (res, vs) ← if special then
      if ign.isEmpty then handleResume cfg sched j else throw "fail_at / steps cannot be combined with ignored"
    else
      let r := if ign.isEmpty then Sim.run cfg sched (fuelFor cfg.core) (Sim.init cfg)
        else Sim.runI cfg sched ign (fuelForI cfg.core ign) (Sim.init cfg)
      let vs := if ign.isEmpty then Sim.runViews cfg sched (fuelFor cfg.core) (Sim.init cfg)
        else Sim.runViewsI cfg sched ign (fuelForI cfg.core ign) (Sim.init cfg)
      pure (jResult cfg r, vs)
  let out := (res.setObjVal! "views" (jList jView vs)).setObjVal! "infra" (jList jStationInfo (infra cfg))
  match j.getObjVal? "net" with
  | .error _ => pure out
  | .ok nj =>
    let nd ← parseNet nj
    let edits ← parseEdits nj
    let ia := vs.map fun v => (jInfra (infraInfoAt cfg nd edits v.iter)).setObjVal! "t" (jN v.iter)
    pure ((out.setObjVal! "infra_full" (jInfra (infraInfo cfg nd))).setObjVal! "infra_at" (Json.arr ia.toArray))

def main : IO Unit := runDriver handle
