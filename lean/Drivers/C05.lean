/-
  Driver for C05: a whole-simulation scenario in (request format of `AcnModel/WireSim.lean`), out
  the full observable trajectory of `Sim.run` (as `drv_C01`) PLUS
    "views" : every view handed to the scheduler along the run (`Sim.runViews`), in call order,
    "infra" : the static infrastructure description (`Sim.infra`),
    "infra_full" : every InfrastructureInfo field (`Sim.infraInfo`) when the request carries
                   "net": {"phases":[bits], "constraints":[{"current":[[station,bits]…],"limit":bits,"name":str|null}]}.
  An optional "ignored": [timestamp…] lists the events of a type the simulator has no handler for that
  are also in the queue: the run is then `Sim.runI` (`AcnModel/Ignored.lean`), whose "event_history" holds
  the plug-in / unplug / recompute entries only.
-/
import AcnModel.WireSim
import AcnModel.SchedView
import AcnModel.Ignored
open Lean Acn Acn.Wire Acn.EventCore Acn.Sim

def jActive (e : Evse.Ev Float) : Json :=
  Json.mkObj [("session", jS e.session), ("station", jS e.station), ("arrival", jI e.arrival),
              ("departure", jI e.departure), ("est", jI e.estDeparture), ("requested", jF e.requested),
              ("delivered", jF e.delivered), ("rate", jF e.rate)]

def jView (v : View Float) : Json :=
  Json.mkObj [("t", jN v.iter), ("active", jList jActive v.active),
              ("last_pilots", jList (fun p => Json.arr #[jS p.1, jF p.2]) v.lastPilots),
              ("peak", jF v.peak), ("evse_pilot", jFs v.evsePilot),
              ("connected", jList (jOpt jS) v.connected)]

def jStationInfo (i : StationInfo Float) : Json :=
  Json.mkObj [("id", jS i.id), ("V", jF i.voltage), ("max", jF (fOfBound i.maxPilot)), ("min", jF i.minPilot),
              ("continuous", jB i.continuous), ("allowable", jFs (i.allowable.map fOfBound))]

def parseNet (j : Json) : Except String (NetDesc Float) := do
  let phases ← getFs j "phases"
  let cs ← (← getArr j "constraints").mapM fun c => do
    let cur ← (← getArr c "current").mapM fun p => do
      match ← asArr p with
      | [s, v] => pure (← s.getStr?, ← asF v)
      | _ => throw "current entry must be [station, coefficient]"
    let name ← getOpt c "name" (fun v => v.getStr?)
    pure (Network.Current.ofDict cur, ← getF c "limit", name)
  pure { phases, constraints := cs }

def jInfra (i : Infra Float) : Json :=
  Json.mkObj [("constraint_matrix", jFss i.constraintMatrix), ("constraint_limits", jFs i.constraintLimits),
              ("phases", jFs i.phases), ("voltages", jFs i.voltages),
              ("constraint_ids", jList jS i.constraintIds), ("station_ids", jList jS i.stationIds)]

def handle (j : Json) : Except String Json := do
  let cfg ← parseSimCfg j
  let sched ← parseSched (← j.getObjVal? "sched")
  let ign ← match j.getObjVal? "ignored" with
    | .ok v => (← asArr v).mapM fun x => x.getInt?
    | .error _ => pure []
  let r := if ign.isEmpty then Sim.run cfg sched (fuelFor cfg.core) (Sim.init cfg)
    else Sim.runI cfg sched ign (fuelForI cfg.core ign) (Sim.init cfg)
  let vs := if ign.isEmpty then Sim.runViews cfg sched (fuelFor cfg.core) (Sim.init cfg)
    else Sim.runViewsI cfg sched ign (fuelForI cfg.core ign) (Sim.init cfg)
  let out := ((jResult cfg r).setObjVal! "views" (jList jView vs)).setObjVal! "infra" (jList jStationInfo (infra cfg))
  match j.getObjVal? "net" with
  | .error _ => pure out
  | .ok nj =>
    let nd ← parseNet nj
    pure (out.setObjVal! "infra_full" (jInfra (infraInfo cfg nd)))

def main : IO Unit := runDriver handle
