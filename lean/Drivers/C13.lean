/-
  Driver for C13: a network of EVSEs built by `register_evse` calls, the advertised description after
  every registration (network cache + Interface accessors), a sequence of operations addressed to
  the stations, the observable state after each.
  request : {"kind":…,                       -- the EVSE registered under "S" when "net" is absent
             "net": {"regs":[{"id","kind"}…], -- optional: the `register_evse` calls, in order
                     "queries":[id…]},        -- ids asked through the Interface after every call
             "ops":[{"op":"set_pilot","p","V","T","nu"} | {"op":"plugin","ev":…} | {"op":"unplug"} |
                    {"op":"valid","p","atol"}]}   -- each with an optional "at": station id (default "S")
-/
import AcnModel.WireModels
import AcnModel.EvseNet
import AcnModel.Gen.Consts
open Lean Acn Acn.Wire Acn.Evse Acn.EvseNet

def fixedAtol : Float := fOfBits Acn.Gen.finiteAtolBits

/-- default `atol` of the class's `_valid_rate`, which is what `set_pilot` uses -/
def defaultAtol : Kind Float → Float
  | .cont _ _ => fOfBits Acn.Gen.evseAtolBits
  | .deadband _ _ => fOfBits Acn.Gen.deadbandAtolBits
  | .finite _ => fOfBits Acn.Gen.finiteAtolBits

def jState (s : Evse Float) : List (String × Json) :=
  [("pilot", jF s.pilot), ("ev", jOpt jEv s.ev)]

def stepOp (s : Evse Float) (o : Json) : Except String (Evse Float × Json) := do
  let op ← getStr o "op"
  if op == "set_pilot" then
    match setPilot (defaultAtol s.kind) fixedAtol s (← getF o "p") (← getF o "V") (← getF o "T") (← getF o "nu") with
    | .ok s' => pure (s', Json.mkObj (("err", Json.null) :: jState s'))
    | .error e => pure (s, Json.mkObj (("err", jS (Wire.errName e)) :: jState s))
  else if op == "plugin" then
    let ej ← o.getObjVal? "ev"
    match ← parseEv ej with
    | .error _ => pure (s, Json.mkObj (("err", jS "ValueError") :: jState s))
    | .ok e =>
      match plugin s e with
      | .ok s' => pure (s', Json.mkObj (("err", Json.null) :: jState s'))
      | .error e => pure (s, Json.mkObj (("err", jS (Wire.errName e)) :: jState s))
  else if op == "unplug" then
    let s' := unplug s
    pure (s', Json.mkObj (("err", Json.null) :: jState s'))
  else if op == "valid" then
    let v := validRate (← getF o "atol") fixedAtol s.kind (← getF o "p")
    pure (s, Json.mkObj [("valid", jB v)])
  else throw s!"unknown op {op}"

/-- apply an operation to the station it is addressed to; the other stations are not touched -/
def stepAt (ss : List (Evse Float)) (o : Json) : Except String (List (Evse Float) × Json) := do
  let sid := (← getOpt o "at" (fun v => v.getStr?)).getD "S"
  match ss.findIdx? (fun s => s.station == sid) with
  | none => throw s!"operation addressed to unregistered station {sid}"
  | some i =>
    match ss[i]? with
    | none => throw "unreachable"
    | some s =>
      let (s', r) ← stepOp s o
      pure (ss.set i s', r)

def jBounds (l : List (Bound Float)) : Json := jFs (l.map fOfBound)

def jErr (e : EvseNet.Err) : Json := Json.mkObj [("err", jS (EvseNet.errName e))]

/-- the three Interface accessors for one id -/
def jQuery (n : Net Float) (sid : String) : Json :=
  Json.mkObj [
    ("id", jS sid),
    ("allowable", match ifaceAllowable n sid with
      | .ok (c, a) => Json.mkObj [("err", Json.null), ("cont", jB c), ("vals", jBounds a)]
      | .error e => jErr e),
    ("max", match ifaceMax n sid with
      | .ok m => Json.mkObj [("err", Json.null), ("v", jF (fOfBound m))]
      | .error e => jErr e),
    ("min", match ifaceMin n sid with
      | .ok m => Json.mkObj [("err", Json.null), ("v", jF m)]
      | .error e => jErr e)]

/-- the network cache (`_update_info_store`) and the Interface answers for the queried ids -/
def jSnap (n : Net Float) (queries : List String) : Json :=
  let info := infoStore n
  Json.mkObj [
    ("ids", jList jS info.ids),
    ("maxs", jBounds info.maxs), ("mins", jFs info.mins),
    ("allow", jList jBounds info.allow), ("cont", jList jB info.cont),
    ("infra_ok", jB (infraOk n)),
    ("iface", jList (jQuery n) queries)]

def parseStation (j : Json) : Except String (Station Float) := do
  pure { id := ← getStr j "id", kind := ← parseKind (← j.getObjVal? "kind") }

def handle (j : Json) : Except String Json := do
  let kind ← parseKind (← j.getObjVal? "kind")
  let ops ← getArr j "ops"
  let (regs, queries) ← match j.getObjVal? "net" with
    | .ok nj => do
      let rs ← (← getArr nj "regs").mapM parseStation
      let qs ← (← getArr nj "queries").mapM (fun v => v.getStr?)
      pure (rs, qs)
    | .error _ => pure ([({ id := "S", kind } : Station Float)], ["S"])
  -- the description after each `register_evse` call
  let snaps := (List.range regs.length).map fun k => jSnap (Net.run (regs.take (k + 1))) queries
  let net := Net.run regs
  let info := Json.mkObj [
    ("max", jF (fOfBound (maxRate kind))), ("min", jF (minRate kind)),
    ("cont", jB (isContinuous kind)),
    ("allowable", jFs ((allowable kind).map fOfBound))]
  let mut ss : List (Evse Float) :=
    net.stations.map fun st => { station := st.id, kind := st.kind, pilot := 0, ev := none }
  let mut outs : Array Json := #[]
  for o in ops do
    let (ss', r) ← stepAt ss o
    ss := ss'
    outs := outs.push r
  let final := ss.map fun s => Json.mkObj (("id", jS s.station) :: jState s)
  pure (Json.mkObj [("info", info), ("steps", Json.arr outs), ("snaps", Json.arr snaps.toArray),
                    ("final", Json.arr final.toArray)])

def main : IO Unit := runDriver handle
