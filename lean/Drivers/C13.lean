/-
  Driver for C13: a network of EVSEs built by `register_evse` calls with save / resume steps
  (`from_json(to_json())`) anywhere between them, the advertised description after every entry of that
  history (stored cache + Interface accessors), a sequence of operations addressed to the stations —
  again with save / resume steps between them — and the observable state after each.
  request : {"kind":…,                       -- the EVSE registered under the primary id when "net" is absent
             "primary": id,                   -- optional, default "S": the station an op without "at" goes to
             "net": {"hist":[{"id","kind"} | {"restore":true} …],   -- optional: the history, in order
                             (legacy: "regs":[{"id","kind"}…], registrations only)
                     "queries":[id…]},        -- ids asked through the Interface after every entry
             "ops":[{"op":"set_pilot","p","V","T","nu"} | {"op":"plugin","ev":…} | {"op":"unplug"} |
                    {"op":"valid","p","atol"}    -- each with an optional "at": station id
                    | {"op":"restore"}]}         -- save / resume of the whole network between uses
-/
import AcnModel.WireModels
import AcnModel.EvseNet
import AcnModel.Gen.Consts
open Lean Acn Acn.Wire Acn.Evse Acn.EvseNet

def fixedAtol : Float := fOfBits Acn.Gen.finiteAtolBits

/-- default `atol` of the class's `_valid_rate`, which is what `set_pilot` uses -/
def defaultAtol : Kind Float → Float
  | .cont _ _ => fOfBits Acn.Gen.evseAtolBits
  | .deadband _ _ => fOfBits Acn.Gen.deadbandAtolBits
  | .finite _ => fOfBits Acn.Gen.finiteAtolBits

def jState (s : Evse Float) : List (String × Json) :=
  [("pilot", jF s.pilot), ("ev", jOpt jEv s.ev)]

def stepOp (s : Evse Float) (o : Json) : Except String (Evse Float × Json) := do
  let op ← getStr o "op"
  if op == "set_pilot" then
    match setPilot (defaultAtol s.kind) fixedAtol s (← getF o "p") (← getF o "V") (← getF o "T") (← getF o "nu") with
    | .ok s' => pure (s', Json.mkObj (("err", Json.null) :: jState s'))
    | .error e => pure (s, Json.mkObj (("err", jS (Wire.errName e)) :: jState s))
  else if op == "plugin" then
    let ej ← o.getObjVal? "ev"
    match ← parseEv ej with
    | .error _ => pure (s, Json.mkObj (("err", jS "ValueError") :: jState s))
    | .ok e =>
      match plugin s e with
      | .ok s' => pure (s', Json.mkObj (("err", Json.null) :: jState s'))
      | .error e => pure (s, Json.mkObj (("err", jS (Wire.errName e)) :: jState s))
  else if op == "unplug" then
    let s' := unplug s
    pure (s', Json.mkObj (("err", Json.null) :: jState s'))
  else if op == "valid" then
    let v := validRate (← getF o "atol") fixedAtol s.kind (← getF o "p")
    pure (s, Json.mkObj [("valid", jB v)])
  else throw s!"unknown op {op}"

/-- apply an operation to the station it is addressed to; the other stations are not touched -/
def stepAt (primary : String) (ss : List (Evse Float)) (o : Json) :
    Except String (List (Evse Float) × Json) := do
  let sid := (← getOpt o "at" (fun v => v.getStr?)).getD primary
  match ss.findIdx? (fun s => s.station == sid) with
  | none => throw s!"operation addressed to unregistered station {sid}"
  | some i =>
    match ss[i]? with
    | none => throw "unreachable"
    | some s =>
      let (s', r) ← stepOp s o
      pure (ss.set i s', r)

def jBounds (l : List (Bound Float)) : Json := jFs (l.map fOfBound)

def jErr (e : EvseNet.Err) : Json := Json.mkObj [("err", jS (EvseNet.errName e))]

/-- the three Interface accessors for one id, on a network with a STORED cache -/
def jQuery (n : CNet Float) (sid : String) : Json :=
  Json.mkObj [
    ("id", jS sid),
    ("allowable", match ifaceAllowableC n sid with
      | .ok (c, a) => Json.mkObj [("err", Json.null), ("cont", jB c), ("vals", jBounds a)]
      | .error e => jErr e),
    ("max", match ifaceMaxC n sid with
      | .ok m => Json.mkObj [("err", Json.null), ("v", jF (fOfBound m))]
      | .error e => jErr e),
    ("min", match ifaceMinC n sid with
      | .ok m => Json.mkObj [("err", Json.null), ("v", jF m)]
      | .error e => jErr e)]

/-- the stored cache (`_update_info_store` / restored verbatim by `_from_dict`), aligned with the keys of
    `_EVSEs`, and the Interface answers for the queried ids -/
def jSnap (n : CNet Float) (queries : List String) : Json :=
  Json.mkObj [
    ("ids", jList jS (n.net.stations.map (·.id))),
    ("maxs", jBounds n.cache.maxs), ("mins", jFs n.cache.mins),
    ("allow", jList jBounds n.cache.allow), ("cont", jList jB n.cache.cont),
    ("infra_ok", jB (infraOkC n)),
    ("iface", jList (jQuery n) queries)]

def parseStation (j : Json) : Except String (Station Float) := do
  pure { id := ← getStr j "id", kind := ← parseKind (← j.getObjVal? "kind") }

/-- an entry of the history before the first use: a `register_evse` call or `{"restore": true}` -/
def parseNetEv (j : Json) : Except String (NetEv Float) :=
  match j.getObjVal? "restore" with
  | .ok _ => pure .restore
  | .error _ => do pure (.reg (← parseStation j))

def handle (j : Json) : Except String Json := do
  let kind ← parseKind (← j.getObjVal? "kind")
  let primary := (← getOpt j "primary" (fun v => v.getStr?)).getD "S"
  let ops ← getArr j "ops"
  let (hist, queries) ← match j.getObjVal? "net" with
    | .ok nj => do
      let hs ← match nj.getObjVal? "hist" with
        | .ok _ => (← getArr nj "hist").mapM parseNetEv
        | .error _ => do pure ((← (← getArr nj "regs").mapM parseStation).map NetEv.reg)
      let qs ← (← getArr nj "queries").mapM (fun v => v.getStr?)
      pure (hs, qs)
    | .error _ => pure ([NetEv.reg ({ id := primary, kind } : Station Float)], [primary])
  -- the description after each entry of the history (`register_evse` call or save / resume)
  let snaps := (List.range hist.length).map fun k => jSnap (CNet.run (hist.take (k + 1))) queries
  let mut net := CNet.run hist
  let info := Json.mkObj [
    ("max", jF (fOfBound (maxRate kind))), ("min", jF (minRate kind)),
    ("cont", jB (isContinuous kind)),
    ("allowable", jFs ((allowable kind).map fOfBound))]
  let mut ss : List (Evse Float) :=
    net.net.stations.map fun st => { station := st.id, kind := st.kind, pilot := 0, ev := none }
  let mut outs : Array Json := #[]
  for o in ops do
    if (← getStr o "op") == "restore" then
      -- save / resume between uses: the containers go through the file, the stations keep their state
      net := net.restore
      let states := ss.map fun s => Json.mkObj (("id", jS s.station) :: jState s)
      outs := outs.push (Json.mkObj [("restore", jB true), ("snap", jSnap net queries),
                                     ("states", Json.arr states.toArray)])
    else
      let (ss', r) ← stepAt primary ss o
      ss := ss'
      outs := outs.push r
  let final := ss.map fun s => Json.mkObj (("id", jS s.station) :: jState s)
  pure (Json.mkObj [("info", info), ("steps", Json.arr outs), ("snaps", Json.arr snaps.toArray),
                    ("last", jSnap net queries), ("final", Json.arr final.toArray)])

def main : IO Unit := runDriver handle
