/-
  Driver for C13: one EVSE, a sequence of operations, the observable state after each.
  request : {"kind":…, "atol":bits, "ops":[{"op":"set_pilot","p","V","T","nu"} |
             {"op":"plugin","ev":…} | {"op":"unplug"} | {"op":"valid","p","atol"}]}
-/
import AcnModel.WireModels
import AcnModel.Gen.Consts
open Lean Acn Acn.Wire Acn.Evse

def fixedAtol : Float := fOfBits Acn.Gen.finiteAtolBits

/-- default `atol` of the class's `_valid_rate`, which is what `set_pilot` uses -/
def defaultAtol : Kind Float → Float
  | .cont _ _ => fOfBits Acn.Gen.evseAtolBits
  | .deadband _ _ => fOfBits Acn.Gen.deadbandAtolBits
  | .finite _ => fOfBits Acn.Gen.finiteAtolBits

def jState (s : Evse Float) : List (String × Json) :=
  [("pilot", jF s.pilot), ("ev", jOpt jEv s.ev)]

def stepOp (s : Evse Float) (o : Json) : Except String (Evse Float × Json) := do
  let op ← getStr o "op"
  if op == "set_pilot" then
    match setPilot (defaultAtol s.kind) fixedAtol s (← getF o "p") (← getF o "V") (← getF o "T") (← getF o "nu") with
    | .ok s' => pure (s', Json.mkObj (("err", Json.null) :: jState s'))
    | .error e => pure (s, Json.mkObj (("err", jS (errName e)) :: jState s))
  else if op == "plugin" then
    let ej ← o.getObjVal? "ev"
    match ← parseEv ej with
    | .error _ => pure (s, Json.mkObj (("err", jS "ValueError") :: jState s))
    | .ok e =>
      match plugin s e with
      | .ok s' => pure (s', Json.mkObj (("err", Json.null) :: jState s'))
      | .error e => pure (s, Json.mkObj (("err", jS (errName e)) :: jState s))
  else if op == "unplug" then
    let s' := unplug s
    pure (s', Json.mkObj (("err", Json.null) :: jState s'))
  else if op == "valid" then
    let v := validRate (← getF o "atol") fixedAtol s.kind (← getF o "p")
    pure (s, Json.mkObj [("valid", jB v)])
  else throw s!"unknown op {op}"

def handle (j : Json) : Except String Json := do
  let kind ← parseKind (← j.getObjVal? "kind")
  let ops ← getArr j "ops"
  let s0 : Evse Float := { station := "S", kind, pilot := 0, ev := none }
  let info := Json.mkObj [
    ("max", jF (fOfBound (maxRate kind))), ("min", jF (minRate kind)),
    ("cont", jB (isContinuous kind)),
    ("allowable", jFs ((allowable kind).map fOfBound))]
  let mut s := s0
  let mut outs : Array Json := #[]
  for o in ops do
    let (s', r) ← stepOp s o
    s := s'
    outs := outs.push r
  pure (Json.mkObj [("info", info), ("steps", Json.arr outs)])

def main : IO Unit := runDriver handle
