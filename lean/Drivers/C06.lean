/-
  Driver for C06: one network (stations, phasors, optional constraint matrix, limits, tolerances),
  one schedule in three shapes (the `{station: rates}` mapping for `Interface.is_feasible`, the
  dense matrix for `ChargingNetwork.is_feasible` and the algorithm side, optionally a 1-D vector
  for the algorithm side) → the three Booleans in both modes, the infrastructure view, and the
  per-constraint squared magnitudes / linear aggregates / bounds.

  request : {"stations":[str], "has_matrix":bool, "cols":n, "M":[[bits]], "lims":[bits],
             "cids":[str], "c_net":[bits], "s_net":[bits], "c_alg":[bits], "s_alg":[bits],
             "voltages":[bits], "net_vt":bits|null, "net_rt":bits|null (null = constructor defaults, Gen.Consts), "vt":bits|null, "rt":bits|null,
             "sched":[[str,[bits]]] | null, "S":[[bits]] | null, "x":[bits] | null,
             "sel":{"names":[str]|null, "ts":[nat]|null} | null,
             "restores": n (optional, default 0)}
  `restores` = number of `from_json(to_json())` round trips the objects have been through before this
  query: the model network goes through its own codec (`AcnModel/FeasRestore.lean`) that many times and
  every answer (also the matrix / phasors of the magnitudes) is read from what comes back.
  The phasor coordinates are the implementation's own doubles (`np.exp(1j·deg2rad φ)` for the
  network side, `np.cos/np.sin(deg2rad φ)` for the algorithm side), computed by the harness.
-/
import AcnModel.Wire
import AcnModel.Feas
import AcnModel.FeasRestore
import AcnModel.Gen.Consts
open Lean Acn Acn.Wire Acn.Feas

def jRes : Except FeasErr Bool → Json
  | .ok b => jB b
  | .error e => jS e.name

def parseSched (j : Json) : Except String (List (String × List Float)) := do
  let a ← asArr j
  a.mapM fun p => do
    let kv ← asArr p
    match kv with
    | [k, v] => pure ((← k.getStr?), (← asFs v))
    | _ => throw "sched entry must be [station, rates]"

def handleOne (j : Json) : Except String Json := do
  let stations ← (← getArr j "stations").mapM (·.getStr?)
  let cids ← (← getArr j "cids").mapM (·.getStr?)
  let hasM ← getBool j "has_matrix"
  let cols ← getNat j "cols"
  let rows ← getFss j "M"
  let lims ← getFs j "lims"
  let nres := (← getOpt j "restores" (·.getNat?)).getD 0
  let net0 : Net Float := {
    stations, c := (← getFs j "c_net"), s := (← getFs j "s_net"), voltages := (← getFs j "voltages"),
    matrix := if hasM then some { cols, rows } else none, lims, cids,
    vt := (← getOpt j "net_vt" asF).getD (fOfBits Acn.Gen.netAbsTolBits),
    rt := (← getOpt j "net_rt" asF).getD (fOfBits Acn.Gen.netRelTolBits) }
  let net := net0.restoreN nres
  let stations := net.stations
  let rows := net.mat.rows
  let lims := net.lims
  let cids := net.cids
  let netAlg : Net Float := { net with c := (← getFs j "c_alg"), s := (← getFs j "s_alg") }
  let vt? ← getOpt j "vt" asF
  let rt? ← getOpt j "rt" asF
  let vt := vt?.getD net.vt
  let rt := rt?.getD net.rt
  let sched? ← getOpt j "sched" parseSched
  let S? ← getOpt j "S" (fun v => do let a ← asArr v; a.mapM asFs)
  let x? ← getOpt j "x" asFs
  let mut out : List (String × Json) := []
  -- infrastructure view
  let infra := netAlg.infraInfo
  out := out ++ [("infra", match infra with
    | .ok i => Json.mkObj [("err", Json.null), ("shape", Json.arr #[jN i.nCons, jN i.nCols]),
                           ("nlims", jN i.lims.length), ("ncids", jN i.cids.length),
                           ("nstations", jN i.stations.length)]
    | .error e => Json.mkObj [("err", jS e.name)])]
  -- interface side
  match sched? with
  | some sched =>
    out := out ++ [("iface", jRes (net.ifaceIsFeasible sched false vt? rt?)),
                   ("iface_lin", jRes (net.ifaceIsFeasible sched true vt? rt?)),
                   ("dense", match sched with
                     | [] => Json.null
                     | (_, r) :: _ => jFss (densify stations sched r.length))]
  | none => pure ()
  -- network side, algorithm side (2-D), magnitudes
  match S? with
  | some S =>
    out := out ++ [("net", jRes (net.isFeasible S false vt? rt?)),
                   ("net_lin", jRes (net.isFeasible S true vt? rt?))]
    match infra with
    | .ok i =>
      out := out ++ [("alg", jB (i.feasible2 S false vt rt)), ("alg_lin", jB (i.feasible2 S true vt rt))]
    | .error _ => pure ()
    let ts := List.range (periods S)
    out := out ++ [
      ("sq", jFss (rows.map fun row => ts.map fun t => sqMag row net.c net.s (col S t))),
      ("lin", jFss (rows.map fun row => ts.map fun t => linAggFixed row (col S t))),
      ("bound", jFs (lims.map fun lim => lim + tolOf vt rt lim))]
  | none => pure ()
  -- constraint_current(constraints=…, time_indices=…)
  match S?, (← getOpt j "sel" pure) with
  | some S, some sel =>
    let names? ← getOpt sel "names" (fun v => do let a ← asArr v; a.mapM (·.getStr?))
    let ts? ← getOpt sel "ts" (fun v => do let a ← asArr v; a.mapM (·.getNat?))
    let enc := fun (r : Except FeasErr (List (List Float))) =>
      match r with | .ok t => jFss t | .error e => jS e.name
    out := out ++ [("sel_sq", enc (constraintCurrentSq cids rows net.c net.s S names? ts?)),
                   ("sel_lin", enc (constraintCurrentLin cids rows S names? ts?))]
  | _, _ => pure ()
  -- algorithm side, 1-D
  match x?, infra with
  | some x, .ok i =>
    out := out ++ [("alg1", jB (i.feasible1 x false vt rt)), ("alg1_lin", jB (i.feasible1 x true vt rt))]
  | _, _ => pure ()
  pure (Json.mkObj out)

/-- a history: `{"batch":[request, …]}` — one request per query of the same network object, each
    carrying the CURRENT constraint list; answered by `{"batch":[answer, …]}` -/
def handle (j : Json) : Except String Json :=
  match j.getObjVal? "batch" with
  | .ok b => do
    let rs ← (← asArr b).mapM handleOne
    pure (Json.mkObj [("batch", Json.arr rs.toArray)])
  | .error _ => handleOne j

def main : IO Unit := runDriver handle
