/-
  Driver for C08: same protocol as C07.  Every sorted-algorithm call goes through the
  estimator-parametric model: requests marked `"custom_est": true` (an ARBITRARY upper-bound estimator:
  the dict the implementation's estimator returned is an input of every call) are answered by
  `Sorted.scheduleCallEst` (`AcnModel/SortedEst.lean`, handler `WireSortedEst.handleCallsEst`); the
  others by `Sorted.scheduleCall`, which is the instance "dict of the modelled `SimpleRampdown`"
  of the same function (`Acn.C07.rampdown_is_an_estimator`).  The C08 harness reads the intermediate
  states (sorted order, per-session bounds, round-robin trace and level lists, `est_in`).
-/
import AcnModel.WireSortedEst
open Acn.Wire

def main : IO Unit := runDriver Acn.WireSortedEst.handle
