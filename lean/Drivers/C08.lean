/-
  Driver for C08: same protocol as C07 (`AcnModel/WireSorted.lean`); the C08 harness reads the
  intermediate states (sorted order, per-session bounds, round-robin trace and level lists).
-/
import AcnModel.WireSorted
open Acn.Wire

def main : IO Unit := runDriver Acn.WireSorted.handle
