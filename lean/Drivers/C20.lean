/-
  Driver for C20: the ACN-Data client model against a fake server described in the request.

  ops
    {"op":"sessions", base, site, cond, project, sort, timeseries, server, fuel, zones}
    {"op":"by_time",  base, site, start, end, min_energy, timeseries, count, server, head, fuel, zones}
    {"op":"count",    base, site, cond, head}
    {"op":"http_date", dt}                     dt = {"f":[y,mo,d,h,mi,s], "off":seconds}
    {"op":"parse", s, zone}                    zone = {"init":o, "trans":[[t,o],…]}
    {"op":"calendar", from, n}                 sweep of civilFromDays / weekday / daysFromCivil over n days
    {"op":"dates", zones, items:[{"dt":aware | "s":str, "zone":name}…]}   http_date then parse_http_date
  server = [[url, resp]…]; resp = {"kind":"page","items":[doc…],"next":{"t":"last"|"broken"|"next","href":…}}
                                | {"kind":"fail","err":name};  unknown URL = KeyError (error payload)
  doc    = [[key, {"s":str} | {"ts":[str…]} | {"o":true}]…]
-/
import AcnModel.Wire
import AcnModel.DataClient
open Lean Acn Acn.Wire Acn.HttpDate Acn.DataClient

def getOptStr (j : Json) (k : String) : Except String (Option String) :=
  getOpt j k (fun v => v.getStr?)

def asInt (v : Json) : Except String Int := v.getInt?

def parseZone (j : Json) : Except String Zone := do
  let init ← getInt j "init"
  let tr ← getArr j "trans"
  let trans ← tr.mapM fun p => do
    let a ← asArr p
    match a with
    | [t, o] => pure ((← asInt t), (← asInt o))
    | _ => throw "bad transition"
  pure { init, trans }

def parseZones (j : Json) : Except String (List (String × Zone)) := do
  let a ← getArr j "zones"
  a.mapM fun p => do
    match ← asArr p with
    | [n, z] => pure ((← n.getStr?), (← parseZone z))
    | _ => throw "bad zone entry"

def zoneLookup (zs : List (String × Zone)) (name : String) : Option Zone :=
  match zs.find? (fun p => p.1 == name) with
  | some p => some p.2
  | none => none

def parseAware (j : Json) : Except String Aware := do
  let f ← getArr j "f"
  let off ← getInt j "off"
  match f with
  | [y, mo, d, h, mi, s] =>
    pure { loc := { y := ← asInt y, mo := ← asInt mo, d := ← asInt d, h := ← asInt h,
                    mi := ← asInt mi, s := ← asInt s }, off }
  | _ => throw "bad fields"

def parseVal (j : Json) : Except String Val := do
  match j.getObjVal? "s" with
  | .ok v => pure (.str (← v.getStr?))
  | .error _ =>
    match j.getObjVal? "ts" with
    | .ok v => do
      let a ← asArr v
      pure (.ts (← a.mapM fun x => x.getStr?))
    | .error _ => pure .other

def parseDoc (j : Json) : Except String Doc := do
  let a ← asArr j
  a.mapM fun p => do
    match ← asArr p with
    | [k, v] => pure ((← k.getStr?), (← parseVal v))
    | _ => throw "bad field"

def errOfName (s : String) : Err :=
  if s == "ValueError" then .valueError else if s == "KeyError" then .keyError
  else if s == "JSONDecodeError" then .jsonError else if s == "UnknownTimeZoneError" then .unknownTz
  else .transport

def parseResp (j : Json) : Except String (Resp Doc) := do
  let kind ← getStr j "kind"
  if kind == "page" then
    let items ← (← getArr j "items").mapM parseDoc
    let n ← j.getObjVal? "next"
    let t ← getStr n "t"
    let next ← if t == "last" then pure Next.last
               else if t == "broken" then pure Next.broken
               else do pure (Next.next (← getStr n "href"))
    pure (.page { items, next })
  else pure (.fail (errOfName (← getStr j "err")))

def parseServer (j : Json) : Except String (List (String × Resp Doc)) := do
  let a ← getArr j "server"
  a.mapM fun p => do
    match ← asArr p with
    | [u, r] => pure ((← u.getStr?), (← parseResp r))
    | _ => throw "bad server entry"

/-- unknown URL: the API answers with an error document, which has no `_items` -/
def fetchOf (srv : List (String × Resp Doc)) (u : String) : Resp Doc :=
  match srv.find? (fun p => p.1 == u) with
  | some p => p.2
  | none => .fail .keyError

def parseHead (j : Json) : Except String (List (String × Option String)) := do
  let a ← getArr j "head"
  a.mapM fun p => do
    match ← asArr p with
    | [u, v] => pure ((← u.getStr?), (match v.getStr? with | .ok s => some s | .error _ => none))
    | _ => throw "bad head entry"

/-- unknown URL: no `x-total-count` header -/
def headOf (hs : List (String × Option String)) (u : String) : Option String :=
  match hs.find? (fun p => p.1 == u) with
  | some p => p.2
  | none => none

def jAware (a : Aware) : Json :=
  Json.arr #[jI a.instant, jI a.off, jI a.loc.y, jI a.loc.mo, jI a.loc.d, jI a.loc.h, jI a.loc.mi, jI a.loc.s]

def jPVal : PVal → Json
  | .str s => Json.mkObj [("s", jS s)]
  | .date a => Json.mkObj [("d", jAware a)]
  | .ts l => Json.mkObj [("ts", jList jAware l)]
  | .other => Json.mkObj [("o", jB true)]

def jPDoc (d : PDoc) : Json := jList (fun p => Json.arr #[jS p.1, jPVal p.2]) d

def jErr (e : Option Err) : Json := jOpt (fun e => jS e.name) e

def jTrace (r : Except Err (Trace PDoc)) : Json :=
  match r with
  | .error e => Json.mkObj [("pre", jS e.name)]
  | .ok t => Json.mkObj [("pre", Json.null), ("urls", jList jS t.urls), ("items", jList jPDoc t.items),
                         ("stop", jErr t.stop)]

def jCount (r : Except Err (String × Except Err String)) : Json :=
  match r with
  | .error e => Json.mkObj [("pre", jS e.name)]
  | .ok (u, .ok v) => Json.mkObj [("pre", Json.null), ("urls", jList jS [u]), ("count", jS v), ("stop", Json.null)]
  | .ok (u, .error e) => Json.mkObj [("pre", Json.null), ("urls", jList jS [u]), ("count", Json.null), ("stop", jS e.name)]

/-- exhaustive calendar sweep: rolling hash of (y, m, d, weekday) over `n` consecutive day numbers,
    and the number of days on which `daysFromCivil ∘ civilFromDays` is not the identity -/
def calendarSweep (z0 : Int) (n : Nat) : Nat × Nat := Id.run do
  let mut h : Nat := 0
  let mut bad : Nat := 0
  for i in [0:n] do
    let z := z0 + (i : Int)
    let c := Acn.Calendar.civilFromDays z
    let key := (((c.1 * 100 + c.2.1) * 100 + c.2.2) * 7 + Acn.Calendar.weekday z).toNat
    h := (h * 1000003 + key) % 2305843009213693951
    if Acn.Calendar.daysFromCivil c.1 c.2.1 c.2.2 != z then bad := bad + 1
  return (h, bad)

def handle (j : Json) : Except String Json := do
  let op ← getStr j "op"
  if op == "sessions" then
    let zs ← parseZones j
    let srv ← parseServer j
    let q : Query := { cond := ← getOptStr j "cond", project := ← getOptStr j "project",
                       sort := ← getOptStr j "sort", timeseries := ← getBool j "timeseries" }
    let r := getSessions (← getStr j "base") (← getStr j "site") q (fetchOf srv)
      (parseDates (zoneLookup zs)) (← getNat j "fuel")
    pure (jTrace r)
  else if op == "by_time" then
    let start ← getOpt j "start" parseAware
    let stop ← getOpt j "end" parseAware
    let me ← getOptStr j "min_energy"
    let ts ← getBool j "timeseries"
    let base ← getStr j "base"
    let site ← getStr j "site"
    let dom := (match start with | some a => inFormatDomain a.instant | none => true) &&
               (match stop with | some a => inFormatDomain a.instant | none => true)
    if !dom then return Json.mkObj [("domain", jB false)]
    if ← getBool j "count" then
      let hs ← parseHead j
      pure (jCount (countSessions base site (some (timeCond start stop me)) (headOf hs)))
    else
      let zs ← parseZones j
      let srv ← parseServer j
      let r := getSessions base site (timeQuery start stop me ts) (fetchOf srv)
        (parseDates (zoneLookup zs)) (← getNat j "fuel")
      pure (jTrace r)
  else if op == "count" then
    let hs ← parseHead j
    pure (jCount (countSessions (← getStr j "base") (← getStr j "site") (← getOptStr j "cond") (headOf hs)))
  else if op == "http_date" then
    let a ← parseAware (← j.getObjVal? "dt")
    pure (Json.mkObj [("s", jS (httpDate a)), ("domain", jB (inFormatDomain a.instant)),
                      ("instant", jI a.instant)])
  else if op == "parse" then
    let z ← parseZone (← j.getObjVal? "zone")
    pure (Json.mkObj [("r", jOpt jAware (parseHttpDate z.off (← getStr j "s")))])
  else if op == "calendar" then
    let z0 ← getInt j "from"
    let n ← getNat j "n"
    let (h, bad) := calendarSweep z0 n
    let c0 := Acn.Calendar.civilFromDays z0
    pure (Json.mkObj [("hash", jN h), ("bad", jN bad), ("first", Json.arr #[jI c0.1, jI c0.2.1, jI c0.2.2])])
  else if op == "dates" then
    let zs ← parseZones j
    let items ← getArr j "items"
    let outs ← items.mapM fun it => do
      let zn ← getStr it "zone"
      let z ← match zoneLookup zs zn with
        | some z => pure z
        | none => throw s!"zone {zn} not supplied"
      match it.getObjVal? "dt" with
      | .ok d => do
        let a ← parseAware d
        let s := httpDate a
        pure (Json.mkObj [("s", jS s), ("domain", jB (inFormatDomain a.instant)), ("instant", jI a.instant),
                          ("r", jOpt jAware (parseHttpDate z.off s))])
      | .error _ => do
        let s ← getStr it "s"
        pure (Json.mkObj [("s", jS s), ("domain", jB true), ("instant", Json.null),
                          ("r", jOpt jAware (parseHttpDate z.off s))])
    pure (Json.mkObj [("results", Json.arr outs.toArray)])
  else throw s!"unknown op {op}"

def main : IO Unit := runDriver handle
