/-
  Driver for C16: a predefined site network (topology regenerated from the working tree), capacities
  and a schedule in; the model's limits, feasibility, aggregate-current magnitudes, per-transformer
  current sums / power / bound, pod and panel sums out.
  (a request with "kind":"simple" goes to `handleSimple`: the `simple_acn` model of AcnModel/SimpleAcn.lean)
  request : {"site":"caltech"|"jpl"|"office001", "voltage":bits, "caps":[bits…], "vt":bits, "rt":bits,
             "S":[[bits…]…]  (one row per station, one column per period)}
-/
import AcnModel.Wire
import AcnModel.Sites
import AcnModel.Gen.SitesSrc
import AcnModel.SimpleAcn
open Lean Acn Acn.Wire Acn.Sites Acn.Gen.Sites

def r3 : Float := Float.sqrt 3

def errName : SiteErr → String
  | .capCount => "capCount"
  | .badAngle j => s!"badAngle:{j}"
  | .unknownLimit i => s!"unknownLimit:{i}"
  | .shape => "shape"

/-- two limits denote the same function of the capacities (literal = literal; same capacity, same normal form) -/
def sameLim (a b : Lim) : Bool :=
  match a, b with
  | .const n d, .const n' d' => n * (d' : Int) == n' * (d : Int) && d != 0 && d' != 0
  | .ofCap k ops, .ofCap k' ops' =>
    k == k' && (match normOps ops, normOps ops' with
      | some (N, D, odd), some (N', D', odd') => N * D' == N' * D && odd == odd' && D != 0 && D' != 0
      | _, _ => false)
  | _, _ => false

/-- The topology the driver EVALUATES: the limits of `T` in the source's operation order when the AST hint
    (`Gen/SitesSrc.lean`) has a chain for every row that denotes the same monomial — then the doubles of the source
    are reproduced bit for bit —, `T` itself otherwise.  Exact-arithmetic meaning identical by `sameLim`. -/
def withSrcOrder (T : Topo) : Topo :=
  match topos.findIdx? (· == T) with
  | none => T
  | some k =>
    match Acn.Gen.SitesSrc.srcLims[k]? with
    | some ls =>
      if ls.length == T.lims.length && (List.zip T.lims ls).all (fun (a, b) => sameLim a b) then { T with lims := ls } else T
    | none => T

def perPeriod (S : List (List Float)) (f : List Float → Float) : List Float :=
  (List.range (Feas.periods S)).map fun t => f (period S t)

/-- `simple_acn` (auto_acn.py).
    request : {"kind":"simple", "ids":[str…], "voltage":bits|null, "cap":bits|null  (null = argument omitted: signature
               default of the regenerated data), "vt":bits, "rt":bits, "S":[[bits…]…] | null}
    answer  : stations, voltages, angles, M, limits, names; with a schedule: feasible, feas_t, |Σ| and kW per period -/
def handleSimple (j : Json) : Except String Json := do
  let ids ← (do let a ← getArr j "ids"; a.mapM fun v => v.getStr?)
  let volt? ← getOpt j "voltage" asF
  let cap? ← getOpt j "cap" asF
  let vt ← getF j "vt"
  let rt ← getF j "rt"
  let S? ← getOpt j "S" (fun v => do let a ← asArr v; a.mapM asFs)
  let args : Except SimpleAcn.SimpleErr (Float × Float) := do
    let v ← match volt? with
      | some v => pure v
      | none => SimpleAcn.defaultK Gen.SimpleAcn.defaultVoltage
    let c ← match cap? with
      | some c => pure c
      | none => SimpleAcn.defaultK Gen.SimpleAcn.defaultCap
    pure (v, c)
  let shapeOk := ("limit_fitted", jB Gen.SimpleAcn.limitMono.isSome)
  match args with
  | .error e => pure (Json.mkObj [("err", jS e.name), shapeOk])
  | .ok (v, c) =>
    match SimpleAcn.simpleAcn ids v c with
    | .error e => pure (Json.mkObj [("err", jS e.name), shapeOk])
    | .ok N =>
      let static : List (String × Json) :=
        [shapeOk, ("stations", jList jS N.stations), ("voltages", jFs N.voltages), ("angles", jFs N.angles),
         ("M", jFss N.M), ("limits", jFs N.lims), ("names", jList jS N.names),
         ("voltage", jF v), ("cap", jF c), ("default_evse_type", jS Gen.SimpleAcn.defaultEvseType),
         ("bounds", jFs (N.lims.map fun l => l + Feas.tolOf vt rt l))]
      match S? with
      | none => pure (Json.mkObj (("err", Json.null) :: static))
      | some S =>
        if S.length ≠ ids.length then pure (Json.mkObj (("err", jS "shape") :: static))
        else match SimpleAcn.netFeasible0 N vt rt S with
          | .error e => pure (Json.mkObj (("err", jS e.name) :: static))
          | .ok feas =>
            let T := Feas.periods S
            let feasT ← (List.range T).mapM fun t =>
              match SimpleAcn.netFeasible0 N vt rt ((Feas.col S t).map fun x => [x]) with
              | .ok b => pure b
              | .error e => throw e.name
            pure (Json.mkObj ([("err", Json.null), ("feasible", jB feas), ("feas_t", jList jB feasT),
              ("total", jFs ((List.range T).map fun t => SimpleAcn.total S t)),
              ("powerKW", jFs ((List.range T).map fun t => SimpleAcn.powerKW v S t))] ++ static))

def handleSite (j : Json) : Except String Json := do
  let site ← getStr j "site"
  let caps ← getFs j "caps"
  let vt ← getF j "vt"
  let rt ← getF j "rt"
  let S ← getFss j "S"
  let volt ← getF j "voltage"
  match topos.find? (fun T => T.site == site && (ratK T.nominalV.1 T.nominalV.2 : Float) == volt) with
  | none => pure (Json.mkObj [("err", jS "no such topology in the dump")])
  | some T0 =>
    let T := withSrcOrder T0
    let static : List (String × Json) :=
      [("structure_ok", jB (topoOk T0)), ("structure_diag", jList jS ((topoDiag T0).take 12)),
       ("source_order", jB (T.lims != T0.lims)), ("stations", jList jS T.stations), ("names", jList jS T.conNames),
       ("angles", jList (fun (a : Int × Nat) => Json.arr #[jI a.1, jN a.2]) T.angles)]
    match siteNet T r3 caps with
    | .error e => pure (Json.mkObj (("err", jS (errName e)) :: static))
    | .ok N =>
      if S.length ≠ nStations T then
        pure (Json.mkObj (("err", jS "shape") :: static))
      else
        let feas := feasible T r3 vt rt caps S
        let mags := (List.range T.rows.length).map fun i =>
          perPeriod S fun x => Float.sqrt (aggSq T r3 caps i x)
        let bounds := (List.range T.rows.length).map fun i => boundOf T r3 vt rt caps i
        let xf := T.xfmrs.map fun x =>
          let cap : Float := match xfmrCap T x with
            | some (k, _) => caps.getD k 0
            | none => 0
          Json.mkObj [("name", jS x.name), ("cap", jF cap),
            ("sum", jFs (perPeriod S fun v => groupSum x.sec.evses v)),
            ("powerW", jFs (perPeriod S fun v => 120 * r3 * groupSum x.sec.evses v)),
            ("boundW", jF (360 * boundOf T r3 vt rt caps x.sec.a)),
            ("evses", jList jN x.sec.evses)]
        let pods := T.pods.map fun p =>
          Json.mkObj [("name", jS p.name), ("sum", jFs (perPeriod S fun v => groupSum p.evses v)),
            ("bound", jF (boundOf T r3 vt rt caps p.row))]
        let feasT := (List.range (Feas.periods S)).map fun t =>
          feasible T r3 vt rt caps ((period S t).map fun v => [v])
        pure (Json.mkObj ([("err", Json.null), ("feasible", jB feas), ("feas_t", jList jB feasT), ("limits", jFs N.lims),
          ("bounds", jFs bounds), ("mags", jFss mags), ("xfmrs", Json.arr xf.toArray),
          ("pods", Json.arr pods.toArray)] ++ static))

def handle (j : Json) : Except String Json :=
  match getStr j "kind" with
  | .ok "simple" => handleSimple j
  | _ => handleSite j

def main : IO Unit := runDriver handle
