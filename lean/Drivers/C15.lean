/-
  Driver for C15 (generated sessions).  One request per line:
    {"op":"docs","start":f,"period":f,"V":f,"maxp":f,"max_len":int|null,"ff":bool,"bp":BP|null,
     "pilot":f,"nmax":nat,"docs":[{"c":f,"d":f,"kwh":f,"sid":str,"space":str}…]}
    {"op":"samples","period":f,"V":f,"maxp":f,"max_len":f|null,"ff":bool,"bp":BP|null,
     "pilot":f,"nmax":nat,"days":[[[a,d,e]…]…]}
    {"op":"fit","E":f,"T":f,"V":f,"P":f,"n":nat}
    {"op":"e2e","base":str,"site":str,"start":int,"end":int,"period":f,"V":f,"maxp":f,"max_len":…,"ff":…,
     "bp":BP|null,"pilot":f,"nmax":nat,"fuel":nat,"zones":[[name,{"init":int,"trans":[[t,off]…]}]…],
     "server":[[url,{"kind":"page","items":[{"fields":[[key,{"s":str}|{"ts":[str]}|{"o":true}]…],"kwh":f}…],
                     "next":{"t":"last"|"broken"|"next","href":str}} | {"kind":"fail","err":str}]…]}
       — the REAL client path: time-window query, pagination, parse_dates, conversion (model of C20 ∘ C15)
  BP = {"type":"ideal"|"two","capfn":null|"fit"|[a,b,c,d],"noise":f,"ts":f,"calc":str}
    {"op":"tz","batches":[{"start":R,"period":f,"V":f,"maxp":f,"max_len":int|null,"ff":bool,"bp":BP|null,
                           "pilot":f,"nmax":nat,"docs":[{"c":R,"d":R,"kwh":f,"sid":str,"space":str}…]}…]}
       — several `get_evs` calls in one process on aware datetimes of any tzinfo; R = {"w":f,"o":f}
         (wall-clock seconds, utcoffset seconds); answer {"batches":[answer of each call…]}
  (f = IEEE bit pattern of a double).  Answers are canonical: EVs in input order, events
  sorted by (arrival, session).
-/
import AcnModel.WireModels
import AcnModel.Sessions
import AcnModel.SessionsE2E
import AcnModel.SessionsTz
open Lean Acn Acn.Wire Acn.Battery Acn.Evse Acn.Sessions

def errStr : Sessions.Err → String
  | .zeroDivision => "Other:ZeroDivisionError"
  | .valueError => "ValueError"
  | .recursion => "Other:RecursionError"

def fitF : CapFn Float := fun E T V P => battCapFnGen E T V P

def parseBP (j : Json) : Except String (BattParams Float) := do
  if j.isNull then return defaultParams
  let t ← getStr j "type"
  let cf ← j.getObjVal? "capfn"
  let capFn : Option (CapFn Float) ←
    if cf.isNull then pure none
    else match cf with
      | .str _ => pure (some fitF)
      | _ => do
        let c ← asFs cf
        match c with
        | [a, b, c, d] => pure (some (fun (E _T _V _P : Float) => .ok (a * E + b, c * E + d)))
        | _ => throw "capfn: expected 4 coefficients"
  let noise ← getF j "noise"
  let ts ← getF j "ts"
  let cstr ← getStr j "calc"
  pure { type := if t == "two" then .twoStage else .ideal, capFn, noise, ts,
         cmode := if cstr == "stepwise" then .stepwise else .continuous }

/-- energy taken by the battery when charged at `pilot` for `n` periods (`null` on error or when
    the capacity is not positive) -/
def fullCharge (b : Batt Float) (pilot V P : Float) (n : Nat) : Json :=
  if 0 < b.capacity then
    match chargeN b pilot V P n with
    | .ok b' => jF (b'.charge - b.init)
    | .error _ => Json.null
  else Json.null

def jEvC (pilot V P : Float) (nmax : Nat) (e : Ev Float) : Json :=
  let n := (e.departure - e.arrival).toNat
  Json.mkObj [("session", jS e.session), ("station", jS e.station), ("arrival", jI e.arrival),
    ("departure", jI e.departure), ("est", jI e.estDeparture), ("requested", jF e.requested),
    ("cap", jF e.batt.capacity), ("init", jF e.batt.init), ("maxp", jF e.batt.maxPower),
    ("two", jB e.batt.twoStage), ("ts", jF e.batt.ts), ("noise", jF e.batt.noiseLevel),
    ("full", if e.arrival ≤ e.departure ∧ n ≤ nmax then fullCharge e.batt pilot V P n else Json.null)]

def insertEv (x : Int × String) : List (Int × String) → List (Int × String)
  | [] => [x]
  | y :: ys => if x.1 < y.1 ∨ (x.1 = y.1 ∧ x.2 ≤ y.2) then x :: y :: ys else y :: insertEv x ys

def answer (pilot V P : Float) (nmax : Nat) : Except Sessions.Err (List (Ev Float)) → Json
  | .error e => Json.mkObj [("err", jS (errStr e))]
  | .ok evs =>
    let evts := (pluginEvents evs).foldr insertEv []
    Json.mkObj [("err", Json.null), ("evs", jList (jEvC pilot V P nmax) evs),
      ("events", jList (fun (p : Int × String) => Json.arr #[jI p.1, jS p.2]) evts)]

def parseDoc (j : Json) : Except String (Doc Float) := do
  pure { connect := ← getF j "c", disconnect := ← getF j "d", kWh := ← getF j "kwh",
         session := ← getStr j "sid", space := ← getStr j "space" }

def parseSample (j : Json) : Except String (Sample Float) := do
  match ← asFs j with
  | [a, d, e] => pure { arrival := a, duration := d, energy := e }
  | _ => throw "sample: expected 3 numbers"

/-! ### aware datetimes of any tzinfo, several batches -/
section tz
open Acn.SessionsTz

def parseReading (j : Json) : Except String (Reading Float) := do
  pure { wall := ← getF j "w", off := ← getF j "o" }

def parseWDoc (j : Json) : Except String (WDoc Float) := do
  pure { connect := ← parseReading (← j.getObjVal? "c"), disconnect := ← parseReading (← j.getObjVal? "d"),
         kWh := ← getF j "kwh", session := ← getStr j "sid", space := ← getStr j "space" }

def parseBatch (j : Json) : Except String (Batch Float × Float × Nat) := do
  let b : Batch Float :=
    { start := ← parseReading (← j.getObjVal? "start"), docs := ← (← getArr j "docs").mapM parseWDoc,
      period := ← getF j "period", V := ← getF j "V", maxPower := ← getF j "maxp",
      maxLen := ← getOpt j "max_len" (fun v => v.getInt?), bp := ← parseBP (← j.getObjVal? "bp"),
      ff := ← getBool j "ff" }
  pure (b, ← getF j "pilot", ← getNat j "nmax")

def handleTz (j : Json) : Except String Json := do
  let bs ← (← getArr j "batches").mapM parseBatch
  let rs := runBatches (bs.map (·.1))
  pure (Json.mkObj [("batches", Json.arr ((bs.zip rs).map fun (p, r) =>
    answer p.2.1 p.1.V p.1.period p.2.2 r).toArray)])

end tz

/-! ### end to end (client of C20 ∘ converter) -/
section e2e
open Acn.HttpDate Acn.DataClient Acn.SessionsE2E

def parseZoneE (j : Json) : Except String Zone := do
  let trans ← (← getArr j "trans").mapM fun p => do
    match ← asArr p with
    | [t, o] => pure ((← t.getInt?), (← o.getInt?))
    | _ => throw "bad transition"
  pure { init := ← getInt j "init", trans }

def parseZonesE (j : Json) : Except String (String → Option Zone) := do
  let zs ← (← getArr j "zones").mapM fun p => do
    match ← asArr p with
    | [n, z] => pure ((← n.getStr?), (← parseZoneE z))
    | _ => throw "bad zone entry"
  pure fun name => match zs.find? (fun p => p.1 == name) with
    | some p => some p.2
    | none => none

def parseValE (j : Json) : Except String Val := do
  match j.getObjVal? "s" with
  | .ok v => pure (.str (← v.getStr?))
  | .error _ =>
    match j.getObjVal? "ts" with
    | .ok v => do pure (.ts (← (← asArr v).mapM fun x => x.getStr?))
    | .error _ => pure .other

def parseRaw (j : Json) : Except String (RawSession Float) := do
  let fields ← (← getArr j "fields").mapM fun p => do
    match ← asArr p with
    | [k, v] => pure ((← k.getStr?), (← parseValE v))
    | _ => throw "bad field"
  pure { fields, kWh := ← getF j "kwh" }

def errOfNameE (s : String) : DataClient.Err :=
  if s == "ValueError" then .valueError else if s == "KeyError" then .keyError
  else if s == "JSONDecodeError" then .jsonError else if s == "UnknownTimeZoneError" then .unknownTz
  else .transport

def parseRespE (j : Json) : Except String (Resp (RawSession Float)) := do
  if (← getStr j "kind") == "page" then
    let items ← (← getArr j "items").mapM parseRaw
    let n ← j.getObjVal? "next"
    let t ← getStr n "t"
    let next ← if t == "last" then pure Next.last
               else if t == "broken" then pure Next.broken
               else do pure (Next.next (← getStr n "href"))
    pure (.page { items, next })
  else pure (.fail (errOfNameE (← getStr j "err")))

/-- unknown URL: the API answers with an error document, which has no `_items` -/
def parseServerE (j : Json) : Except String (String → Resp (RawSession Float)) := do
  let srv ← (← getArr j "server").mapM fun p => do
    match ← asArr p with
    | [u, r] => pure ((← u.getStr?), (← parseRespE r))
    | _ => throw "bad server entry"
  pure fun u => match srv.find? (fun p => p.1 == u) with
    | some p => p.2
    | none => .fail .keyError

def handleE2E (j : Json) : Except String Json := do
  let period ← getF j "period"; let V ← getF j "V"; let maxp ← getF j "maxp"
  let ff ← getBool j "ff"
  let bp ← parseBP (← j.getObjVal? "bp")
  let pilot ← getF j "pilot"
  let nmax ← getNat j "nmax"
  let maxLen ← getOpt j "max_len" (fun v => v.getInt?)
  let zones ← parseZonesE j
  let fetch ← parseServerE j
  let start := toZone (fun _ => 0) (← getInt j "start")
  let stop := toZone (fun _ => 0) (← getInt j "end")
  match generateEvents zones (← getStr j "base") (← getStr j "site") start stop period V maxp maxLen bp ff
      fetch (← getNat j "fuel") with
  | .error .zeroDivision => pure (Json.mkObj [("err", jS "Other:ZeroDivisionError"), ("urls", Json.arr #[])])
  | .error (.client e) => pure (Json.mkObj [("err", jS e.name), ("urls", Json.arr #[])])
  | .ok tr =>
    match tr.stop with
    | some e => pure (Json.mkObj [("err", jS e.name), ("urls", jList jS tr.urls),
                                  ("n_before", jN tr.items.length)])
    | none =>
      match answer pilot V period nmax (.ok tr.items) with
      | .obj kvs => pure (Json.obj (kvs.insert "urls" (jList jS tr.urls)))
      | x => pure x

end e2e

def handle (j : Json) : Except String Json := do
  let op ← getStr j "op"
  if op == "e2e" then handleE2E j
  else if op == "tz" then handleTz j
  else if op == "fit" then
    let E ← getF j "E"; let T ← getF j "T"; let V ← getF j "V"; let P ← getF j "P"
    let n ← getNat j "n"
    match (battCapFnGen E T V P : Except Sessions.Err (Float × Float)) with
    | .error e => pure (Json.mkObj [("err", jS (errStr e))])
    | .ok (cap, init) =>
      let ts : Float := ratK Gen.fitTransitionSoc
      let (_, _, s0) := closedInitSoc (ratK Gen.fitMaxRate) ts E T V P cap
      let maxp : Float := ratK Gen.fitMaxRate * V / (1000 : Nat)
      let full := match mkTwoStage cap init maxp 0 ts .continuous with
        | .ok b => fullCharge b (ratK Gen.fitMaxRate) V P n
        | .error _ => Json.null
      pure (Json.mkObj [("err", Json.null), ("cap", jF cap), ("init", jF init),
        ("closed", jB (decide (ts ≤ s0))), ("full", full)])
  else
    let period ← getF j "period"; let V ← getF j "V"; let maxp ← getF j "maxp"
    let ff ← getBool j "ff"
    let bp ← parseBP (← j.getObjVal? "bp")
    let pilot ← getF j "pilot"
    let nmax ← getNat j "nmax"
    if op == "docs" then
      let start ← getF j "start"
      let maxLen ← getOpt j "max_len" (fun v => v.getInt?)
      let docs ← (← getArr j "docs").mapM parseDoc
      pure (answer pilot V period nmax (getEvs start docs period V maxp maxLen bp ff))
    else if op == "samples" then
      let maxLen ← getOpt j "max_len" asF
      let days ← (← getArr j "days").mapM fun d => do (← asArr d).mapM parseSample
      pure (answer pilot V period nmax (convertMatrix (shiftDays days) period V maxp maxLen bp ff))
    else throw s!"unknown op {op}"

def main : IO Unit := runDriver handle
