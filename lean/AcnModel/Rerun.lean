/-
  Rerun — the same EV objects in a SECOND simulation.

  `EV.reset()` (ev.py:146-153) sets `_energy_delivered = 0` and calls `Battery.reset()` (battery.py:72-89 with
  `init_charge=None`: `_current_charge = _init_charge`, `_current_charging_power = 0`).  It does NOT touch
  `_current_charging_rate`: an EV that left its first simulation while charging enters the second one with that
  stale rate (what `ChargingNetwork.current_charging_rates` and `Interface.last_actual_charging_rate` would
  show until the first `charge()` call of the new run overwrites it).

  `rerunCfg cfg s1` is the configuration of a second `Simulator` built around the EV objects as the state `s1`
  left them and `reset()` put them back: fresh network (same stations), fresh queue (same events), the cyclic
  stream of `numpy.random.normal` draws continued where it stopped.
-/
import AcnModel.Sim

namespace Acn.Rerun
open Acn Acn.Sim

variable {K : Type} [OfNat K 0]

/-- ev.py:146-153, battery.py:83-84, 89 -/
def resetEv (e : Evse.Ev K) : Evse.Ev K :=
  { e with delivered := 0, batt := { e.batt with charge := e.batt.init, power := 0 } }

/-- draws `k, k+1, …` of the cyclic stream `noise` (as a cyclic stream again) -/
def rotate (noise : List K) (k : Nat) : List K :=
  match noise with
  | [] => []
  | _ => noise.drop (k % noise.length) ++ noise.take (k % noise.length)

def rerunCfg (cfg : Cfg K) (s1 : State K) : Cfg K :=
  { cfg with evs := s1.evs.map resetEv, noise := rotate cfg.noise s1.noiseIdx }

end Acn.Rerun
