/-
  C17, growth: ANY rational period, microsecond starts, and the explicit-tariff contract of the cost
  functions.

  `Simulator(period=…)` accepts any number of minutes (0.5, 2.5, 0.01 …).  Every place that turns
  simulation time into a datetime does it with `timedelta(minutes=period)`:
    * `TimeOfUseTariff.get_tariffs`   start + t * timedelta(minutes=period)        tou_tariff.py:141-145
    * `Interface.get_prices`          sim.start + timedelta(minutes=period) * start interface.py:690
    * `Interface.get_demand_charge`   the same                                      interface.py:712
    * `acnsim.energy_cost`            tariff.get_tariffs(sim.start, len(agg), sim.period)   analysis:187
  A `timedelta` is a whole number of microseconds (the constructor rounds half-even), `int * timedelta`
  and `datetime + timedelta` are exact, and `get_tariff` reads `.hour/.minute/.second` only
  (tou_tariff.py:113-117): the microseconds of the instant are DROPPED (floor to the whole second), never
  rounded.  So with `startUs` = the start in µs since the epoch, element `t` is looked up at the whole
  second `⌊(startUs + t · tdUs period) / 10⁶⌋`.
-/
import AcnModel.Tariff
import AcnModel.Analysis

namespace Acn.Tariff
open Acn Acn.Calendar

/-- round-half-even of a rational to an integer (`timedelta` rounds a fractional number of µs this way) -/
def roundHalfEvenQ (q : Rat) : Int :=
  let n := q.num
  let d : Int := (q.den : Int)
  let f := n / d
  let r := n % d
  if 2 * r < d then f else if d < 2 * r then f + 1 else if f % 2 = 0 then f else f + 1

/-- `timedelta(minutes=p)` in microseconds, `p` the exact value of the period.
    (CPython reaches the same integer through double arithmetic; that the two agree for the period at hand
    is checked by the harness on every case — a trusted primitive, like `datetime` itself.) -/
def tdUs (p : Rat) : Int := roundHalfEvenQ (p * 60000000)

section vec
variable {K : Type} [LT K] [DecidableLT K]

/-- `get_tariffs(start, n, period)` for ANY period: `startUs` = the start in µs since the epoch -/
def getTariffsP (l : List (Schedule K)) (startUs : Int) (n : Nat) (p : Rat) : Except Err (List K) :=
  getTariffsUs l startUs n (tdUs p)

/-- `Interface.get_prices(n, start)` for any period and any (microsecond) simulation start
    (interface.py:688-695): `price_start = sim.start + timedelta(minutes=period) * start` -/
def interfacePricesP (l : List (Schedule K)) (simStartUs : Int) (p : Rat) (iteration : Nat)
    (start : Option Int) (n : Nat) : Except Err (List K) :=
  getTariffsUs l (simStartUs + tdUs p * queryStep iteration start) n (tdUs p)

/-- `Interface.get_demand_charge(start)` for any period (interface.py:710-713) -/
def interfaceDemandP (l : List (Schedule K)) (simStartUs : Int) (p : Rat) (iteration : Nat)
    (start : Option Int) : Except Err K :=
  getDemandAt l ((simStartUs + tdUs p * queryStep iteration start) / 1000000)

variable [Add K] [Mul K] [Div K] [OfNat K 0] [NatCast K]

/-- `acnsim.energy_cost` for any period: the period enters twice — as the `timedelta` step of the price
    vector (`p`, exact) and as the number `sim.period` in `· * (sim.period / 60)` (`pK`, the same value in
    the carrier of the rates). -/
def energyCostP (l : List (Schedule K)) (simStartUs : Int) (p : Rat) (pK : K) (agg : List K) : Except Err K := do
  let prices ← getTariffsUs l simStartUs agg.length (tdUs p)
  pure (dotK prices agg * (pK / (60 : Nat)))

/-- `acnsim.demand_charge` for a microsecond start: `get_demand_charge(sim.start)` reads the date only -/
def demandChargeP (l : List (Schedule K)) (simStartUs : Int) (agg : List K) : Except Err K := do
  let dc ← getDemandAt l (simStartUs / 1000000)
  let mx ← listMax agg
  pure (dc * mx)

end vec

/-! ### the explicit-tariff contract (analysis/__init__.py:180-185, 204-209) -/

/-- what a cost function can raise: choosing the tariff fails, or the chosen tariff raises -/
inductive CostErr
  | pick (e : Analysis.Err)     -- "No pricing method is specified." / `"tariff" in None`
  | tariff (e : Err)
  deriving DecidableEq, Repr

def costErrName : CostErr → String
  | .pick e => "pick:" ++ e.name
  | .tariff e => errName e

/-- choose the tariff (`Analysis.pickTariff`: the ARGUMENT if one is given, else `signals["tariff"]`, else an
    error) and evaluate `f` on it -/
def withPicked {α β : Type} (arg : Option α) (signals : Option (Option α)) (f : α → Except Err β) :
    Except CostErr β :=
  match Analysis.pickTariff arg signals with
  | .error e => .error (.pick e)
  | .ok t =>
    match f t with
    | .error e => .error (.tariff e)
    | .ok x => .ok x

section cost
variable {K : Type} [LT K] [DecidableLT K] [Add K] [Mul K] [Div K] [OfNat K 0] [NatCast K]

/-- `acnsim.energy_cost(sim, tariff)`: `arg` = the `tariff=` argument, `signals` = `sim.signals`
    (`none`: the attribute is `None`; `some none`: a dict without `"tariff"`) -/
def energyCostWith (arg : Option (List (Schedule K))) (signals : Option (Option (List (Schedule K))))
    (simStartUs : Int) (p : Rat) (pK : K) (agg : List K) : Except CostErr K :=
  withPicked arg signals (fun l => energyCostP l simStartUs p pK agg)

/-- `acnsim.demand_charge(sim, tariff)` -/
def demandChargeWith (arg : Option (List (Schedule K))) (signals : Option (Option (List (Schedule K))))
    (simStartUs : Int) (agg : List K) : Except CostErr K :=
  withPicked arg signals (fun l => demandChargeP l simStartUs agg)

end cost

end Acn.Tariff
