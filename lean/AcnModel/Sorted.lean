/-
  Sorting-based scheduling algorithms — transcription of
    * acnportal/algorithms/sorted_algorithms.py   (SortedSchedulingAlgo.sorting_algorithm,
      max_feasible_rate (bisection), discrete_max_feasible_rate, RoundRobin.round_robin,
      the five sort functions)
    * acnportal/algorithms/preprocessing.py       (remove_finished_sessions, enforce_pilot_limit,
      apply_upper_bound_estimate, reconcile_max_and_min, apply_minimum_charging_rate)
    * acnportal/algorithms/postprocessing.py      (format_array_schedule)
    * acnportal/algorithms/upper_bound_estimator.py (SimpleRampdown, a state machine over calls)
    * acnportal/algorithms/uncontrolled_charging.py
    * acnportal/acnsim/interface.py               (remaining_amp_periods, max_pilot_signal)

  The feasibility oracle (`infrastructure_constraints_feasible(rates, infrastructure)`) is a
  PARAMETER `feas : List K → Bool` of every allocation function; the drivers instantiate it with
  `Acn.Feas.algFeasible` at the default tolerances.  A schedule is the 1-D array of rates in
  station order (`np.zeros(num_stations)`), a `List K` here.

  Only index 0 of `min_rates` / `max_rates` is read by these algorithms and every update of those
  arrays is elementwise, so a session carries the two scalars (`remaining_time ≥ 1` for every
  session an `Interface` hands out; an empty array would raise IndexError in the source).
-/
import AcnModel.Num

namespace Acn.Sorted
open Acn

/-- `float(int)` for the laxity key; `Float` has no `IntCast` in core. -/
instance : IntCast Float := ⟨Float.ofInt⟩

/-- `math.ceil` to a non-negative integer (numpy `arange` length); supplied per carrier. -/
class HasCeilNat (K : Type) where
  ceilNat : K → Nat

instance : HasCeilNat Float :=
  ⟨fun x => if x > 0 then x.ceil.toUInt64.toNat else 0⟩

/-- error classes of the source: `KeyError` (unknown station id) and the three `ValueError`s -/
inductive Err
  | keyError            -- InfrastructureInfo.get_station_index: unknown station
  | lbInfeasible        -- "Charging all sessions at their lower bound is not feasible."
  | initialInfeasible   -- "The initial schedule is not feasible."
  deriving DecidableEq, Repr

/-- the per-station part of `InfrastructureInfo` (interface.py:150-222); the constraint matrix,
    limits and phases live inside the feasibility parameter -/
structure Infra (K : Type) where
  ids : List String
  maxPilot : List K
  minPilot : List K
  volt : List K
  cont : List Bool
  allow : List (List K)

/-- `SessionInfo` (interface.py:17-147) restricted to what the sorted algorithms read.
    `idx` is `infrastructure.get_station_index(station_id)`, filled in by `resolve`. -/
structure Session (K : Type) where
  station : String
  session : String
  idx : Nat
  arrival : Int
  estDeparture : Int
  remainingTime : Nat
  requested : K
  delivered : K
  minRate : K
  maxRate : K

inductive SortKind | fcfs | lcfs | edf | llf | lrpt
  deriving DecidableEq, Repr

inductive Algo | greedy | roundRobin
  deriving DecidableEq, Repr

/-! ### generic list helpers -/

/-- stable insertion: `x` (which precedes every element of the list in the original order) is
    moved behind exactly those elements that are strictly smaller -/
def insertBy {α : Type} (lt : α → α → Bool) (x : α) : List α → List α
  | [] => [x]
  | y :: ys => if lt y x then y :: insertBy lt x ys else x :: y :: ys

/-- Python's `sorted(l, key=…)` (stable; uses `<` on keys only).  `reverse=True` is the same
    sort with the comparison flipped, which keeps equal keys in their original order. -/
def sortBy {α : Type} (lt : α → α → Bool) (l : List α) : List α := l.foldr (insertBy lt) []

/-- dict assignment `d[k] = v` on an insertion-ordered association list -/
def dictSet {V : Type} (d : List (String × V)) (k : String) (v : V) : List (String × V) :=
  match d with
  | [] => [(k, v)]
  | (k', v') :: r => if k' == k then (k', v) :: r else (k', v') :: dictSet r k v

section
variable {K : Type} [Add K] [Sub K] [Mul K] [Div K] [LT K] [LE K]
  [DecidableLT K] [DecidableLE K] [OfNat K 0] [NatCast K] [IntCast K]

/-- `session.remaining_demand` (interface.py:118-121) [kWh] -/
def remainingDemand (s : Session K) : K := s.requested - s.delivered

/-- `Interface.remaining_amp_periods` (interface.py:569-588) and
    `algorithms.utils.remaining_amp_periods` (utils.py:57-75): `kwh * 1000 / V * 60 / period` -/
def rap (infra : Infra K) (period : K) (s : Session K) : K :=
  remainingDemand s * ((1000 : Nat) : K) / infra.volt.getD s.idx 0 * ((60 : Nat) : K) / period

/-- `infrastructure.get_station_index` for every session (first thing every entry point does,
    preprocessing.py:181); unknown station ⇒ KeyError -/
def resolve (infra : Infra K) (l : List (Session K)) : Except Err (List (Session K)) :=
  l.mapM fun s =>
    match infra.ids.findIdx? (· == s.station) with
    | some i => .ok { s with idx := i }
    | none => .error .keyError

/-! ### preprocessing -/

/-- preprocessing.py:163-190 -/
def removeFinished (infra : Infra K) (period : K) (l : List (Session K)) : List (Session K) :=
  l.filter fun s =>
    let threshold := infra.minPilot.getD s.idx 0 * infra.volt.getD s.idx 0
                      / (((60 : Nat) : K) / period) / ((1000 : Nat) : K)
    decide (threshold < remainingDemand s)

/-- preprocessing.py:13-31 (`np.minimum(session.max_rates, max_pilot[i])`) -/
def enforcePilotLimit (infra : Infra K) (l : List (Session K)) : List (Session K) :=
  l.map fun s => { s with maxRate := pyMin s.maxRate (infra.maxPilot.getD s.idx 0) }

/-- preprocessing.py:34-53 with `choose_min=True` -/
def reconcile (s : Session K) : Session K :=
  if s.maxRate < s.minRate then { s with maxRate := s.minRate } else s

/-- `SimpleRampdown` (upper_bound_estimator.py:77-140): thresholds and the persistent dict -/
structure Rampdown (K : Type) where
  upTh : K
  downTh : K
  upInc : K
  bounds : List (String × K)

/-- one iteration of the loop body of `get_maximum_rates` (upper_bound_estimator.py:118-139).
    `prev = some (pilot, rate)` iff `session_id in prev_pilot`. -/
def rampStep (maxPilot : K) (sid : String) (prev : Option (K × K)) (rd : Rampdown K) : Rampdown K :=
  let b0 := match rd.bounds.lookup sid with
    | some _ => rd.bounds
    | none => dictSet rd.bounds sid maxPilot
  match prev with
  | none => { rd with bounds := b0 }
  | some (pp, pr) =>
    let ub := match b0.lookup sid with
      | some u => u
      | none => maxPilot
    let ub := if rd.downTh < pp - pr then pr + rd.upInc
              else if ub - pr < rd.upTh then ub + rd.upInc else ub
    -- np.clip(ub, 0, max_pilot) = minimum(max_pilot, maximum(ub, 0))
    let ub := if ub < 0 then 0 else ub
    let ub := if maxPilot < ub then maxPilot else ub
    { rd with bounds := dictSet b0 sid ub }

/-- `SimpleRampdown.get_maximum_rates` over the call's sessions, in order -/
def rampdownCall (infra : Infra K) (prev : String → Option (K × K)) (rd : Rampdown K)
    (l : List (Session K)) : Rampdown K :=
  l.foldl (fun rd s => rampStep (infra.maxPilot.getD s.idx 0) s.session (prev s.session) rd) rd

/-- preprocessing.py:78-105, as repaired by 50d09ba (finding F6): the bound is looked up by
    **session id**; an absent entry means `inf` (no change) -/
def applyUpperBound (bounds : List (String × K)) (l : List (Session K)) : List (Session K) :=
  l.map fun s =>
    match bounds.lookup s.session with
    | some b => reconcile { s with maxRate := pyMin s.maxRate b }
    | none => reconcile s

/-- state of the loop in `apply_minimum_charging_rate`: the `rates` vector and the sessions done -/
def minRateStep (feas : List K → Bool) (infra : Infra K) (period : K)
    (acc : List K × List (Session K)) (s : Session K) : List K × List (Session K) :=
  let rates := acc.1.set s.idx (infra.minPilot.getD s.idx 0)     -- min(min_pilot[i], inf)
  if decide (infra.minPilot.getD s.idx 0 ≤ rap infra period s) && feas rates then
    let s1 := { s with minRate := pyMax (infra.minPilot.getD s.idx 0) s.minRate }
    (rates, acc.2 ++ [reconcile s1])
  else
    (acc.1.set s.idx 0, acc.2 ++ [{ s with minRate := 0, maxRate := 0 }])

/-- preprocessing.py:108-160 (`override = inf`).  Returns the sessions in the order of
    `sorted(active_sessions, key=remaining_time)`. -/
def applyMinimumRate (feas : List K → Bool) (infra : Infra K) (period : K)
    (l : List (Session K)) : List (Session K) :=
  let q := sortBy (fun a b => decide (a.remainingTime < b.remainingTime)) l
  (q.foldl (minRateStep feas infra period) (List.replicate infra.ids.length 0, [])).2

/-! ### sort functions (sorted_algorithms.py:449-553) -/

def laxity (infra : Infra K) (period : K) (time : Int) (s : Session K) : K :=
  ((s.estDeparture - time : Int) : K) - rap infra period s / infra.maxPilot.getD s.idx 0

def processingTime (infra : Infra K) (period : K) (s : Session K) : K :=
  rap infra period s / infra.maxPilot.getD s.idx 0

def sortLt (kind : SortKind) (infra : Infra K) (period : K) (time : Int)
    (a b : Session K) : Bool :=
  match kind with
  | .fcfs => decide (a.arrival < b.arrival)
  | .lcfs => decide (b.arrival < a.arrival)
  | .edf => decide (a.estDeparture < b.estDeparture)
  | .llf => decide (laxity infra period time a < laxity infra period time b)
  | .lrpt => decide (processingTime infra period b < processingTime infra period a)

def sortSessions (kind : SortKind) (infra : Infra K) (period : K) (time : Int)
    (l : List (Session K)) : List (Session K) :=
  sortBy (sortLt kind infra period time) l

/-! ### greedy allocation (sorted_algorithms.py:118-279) -/

/-- `lb = max(0, session.min_rates[0])` -/
def lbOf (s : Session K) : K := pyMax 0 s.minRate

/-- `ub = min(session.max_rates[0], remaining_amp_periods(session))` -/
def ubOf (infra : Infra K) (period : K) (s : Session K) : K := pyMin s.maxRate (rap infra period s)

/-- "Start each EV at its lower bound" (sorted_algorithms.py:139-143) -/
def initSchedule (n : Nat) (queue : List (Session K)) : List K :=
  queue.foldl (fun sch s => sch.set s.idx (lbOf s)) (List.replicate n 0)

/-- the inner `bisection` (sorted_algorithms.py:213-227): exact loop condition, `mid` computed as
    `(_ub + _lb) / 2`, returns the LOWER end.  Fuelled; out of fuel it also returns the lower end. -/
def bisect (feas : List K → Bool) (sched : List K) (i : Nat) (eps : K) : Nat → K → K → K
  | 0, lb, _ => lb
  | fuel + 1, lb, ub =>
    let mid := (ub + lb) / ((2 : Nat) : K)
    if ub - lb ≤ eps then lb
    else if feas (sched.set i mid) then bisect feas sched i eps fuel mid ub
    else bisect feas sched i eps fuel lb mid

/-- `max_feasible_rate` (sorted_algorithms.py:180-236) -/
def maxFeasibleRate (feas : List K → Bool) (fuel : Nat) (i : Nat) (ub : K) (sched : List K)
    (eps lb : K) : Except Err K :=
  if !feas sched then .error .initialInfeasible
  else if feas (sched.set i ub) then .ok ub
  else .ok (bisect feas sched i eps fuel lb ub)

/-- the `while` loop of `discrete_max_feasible_rate` over the levels from the top down;
    falls back to 0 when every level fails -/
def walkDown (feas : List K → Bool) (sched : List K) (i : Nat) : List K → K
  | [] => 0
  | a :: rest => if feas (sched.set i a) then a else walkDown feas sched i rest

/-- `discrete_max_feasible_rate` (sorted_algorithms.py:238-279); `allowable` ascending, non-empty -/
def discreteMax (feas : List K → Bool) (sched : List K) (i : Nat) (allowable : List K) :
    Except Err K :=
  if !feas sched then .error .initialInfeasible
  else .ok (walkDown feas sched i allowable.reverse)

/-- the allowable levels of a finite-rate station within `[lb, ub]` (sorted_algorithms.py:159-163) -/
def levelsIn (infra : Infra K) (i : Nat) (lb ub : K) : List K :=
  (infra.allow.getD i []).filter fun a => decide (lb ≤ a) && decide (a ≤ ub)

/-- the rate granted to one session given the current schedule (loop body, lines 150-177) -/
def greedyRate (feas : List K → Bool) (fuel : Nat) (eps : K) (infra : Infra K) (period : K)
    (sched : List K) (s : Session K) : Except Err K :=
  let ub := ubOf infra period s
  let lb := lbOf s
  if infra.cont.getD s.idx true then
    maxFeasibleRate feas fuel s.idx ub sched eps lb
  else
    let allowable := levelsIn infra s.idx lb ub
    if allowable.isEmpty then .ok 0 else discreteMax feas sched s.idx allowable

/-- the second `for session in queue` loop -/
def greedyLoop (feas : List K → Bool) (fuel : Nat) (eps : K) (infra : Infra K) (period : K) :
    List (Session K) → List K → Except Err (List K)
  | [], sch => .ok sch
  | s :: rest, sch =>
    match greedyRate feas fuel eps infra period sch s with
    | .error e => .error e
    | .ok r => greedyLoop feas fuel eps infra period rest (sch.set s.idx r)

/-- `sorting_algorithm` after the sort (sorted_algorithms.py:137-178) -/
def sortingAlgorithm (feas : List K → Bool) (fuel : Nat) (eps : K) (infra : Infra K) (period : K)
    (queue : List (Session K)) : Except Err (List K) :=
  let sch0 := initSchedule infra.ids.length queue
  if !feas sch0 then .error .lbInfeasible
  else greedyLoop feas fuel eps infra period queue sch0

/-! ### round robin (sorted_algorithms.py:353-427) -/

/-- `ub = min(max_rates[0], max_pilot[i], remaining_amp_periods)` -/
def rrUb (infra : Infra K) (period : K) (s : Session K) : K :=
  pyMin3 s.maxRate (infra.maxPilot.getD s.idx 0) (rap infra period s)

/-- `np.arange(start, stop, step)` for doubles: length `ceil((stop-start)/step)`, element `k` is
    `start + k * ((start + step) - start)` (numpy fills from the first two elements) -/
def arange [HasCeilNat K] (start stop step : K) : List K :=
  let n := HasCeilNat.ceilNat ((stop - start) / step)
  let nxt := start + step
  let d := nxt - start
  (List.range n).map fun (k : Nat) =>
    if k == 0 then start else if k == 1 then nxt else start + ((k : Nat) : K) * d

/-- the (filtered) level list of one session (lines 386-403) -/
def rrLevels [HasCeilNat K] (infra : Infra K) (period inc : K) (s : Session K) : List K :=
  let base :=
    if infra.cont.getD s.idx true then
      arange s.minRate (s.maxRate + inc / ((2 : Nat) : K)) inc
    else infra.allow.getD s.idx []
  let ub := rrUb infra period s
  let lb := lbOf s
  (base.filter fun a => decide (lb ≤ a)).filter fun a => decide (a ≤ ub)

structure RRState (K : Type) where
  sched : List K
  rateIdx : List Nat
  queue : List (Session K)
  /-- newest first: (session id, station index, `true` = incremented and re-queued) -/
  trace : List (String × Nat × Bool)

/-- the first loop (lines 383-405): per-station level lists and starting rates.
    `levelsOf` is `rrLevels …` in the source; the safety theorems hold for any function. -/
def rrInit (levelsOf : Session K → List K) (n : Nat) (allow0 : List (List K))
    (queue : List (Session K)) : List K × List (List K) :=
  queue.foldl (fun acc s =>
      let lv := levelsOf s
      (acc.1.set s.idx (lv.headD 0), acc.2.set s.idx lv))
    (List.replicate n 0, allow0)

/-- one trip round the `while len(queue) > 0` loop (lines 415-425) -/
def rrStep (feas : List K → Bool) (levels : List (List K)) (st : RRState K) : RRState K :=
  match st.queue with
  | [] => st
  | s :: rest =>
    let i := s.idx
    let lv := levels.getD i []
    let k := st.rateIdx.getD i 0
    if k + 1 < lv.length then
      let sch' := st.sched.set i (lv.getD (k + 1) 0)
      if feas sch' then
        { sched := sch', rateIdx := st.rateIdx.set i (k + 1), queue := rest ++ [s],
          trace := (s.session, i, true) :: st.trace }
      else
        { sched := sch'.set i (lv.getD k 0), rateIdx := st.rateIdx, queue := rest,
          trace := (s.session, i, false) :: st.trace }
    else
      { st with queue := rest, trace := (s.session, i, false) :: st.trace }

def rrLoop (feas : List K → Bool) (levels : List (List K)) : Nat → RRState K → RRState K
  | 0, st => st
  | fuel + 1, st =>
    match st.queue with
    | [] => st
    | _ :: _ => rrLoop feas levels fuel (rrStep feas levels st)

/-- termination measure: Σ_i (len levels_i − rate_idx_i) + |queue| -/
def rrMeasure (levels : List (List K)) (st : RRState K) : Nat :=
  ((List.range levels.length).map fun i => (levels.getD i []).length - st.rateIdx.getD i 0).sum
    + st.queue.length

/-- `round_robin` after the sort; the loop gets exactly `rrMeasure` fuel (`rr_terminates`) -/
def roundRobin (feas : List K → Bool) (levelsOf : Session K → List K) (infra : Infra K)
    (queue : List (Session K)) : Except Err (RRState K) :=
  let n := infra.ids.length
  let (sch0, levels) := rrInit levelsOf n infra.allow queue
  if !feas sch0 then .error .lbInfeasible
  else
    let st0 : RRState K := { sched := sch0, rateIdx := List.replicate n 0, queue := queue, trace := [] }
    .ok (rrLoop feas levels (rrMeasure levels st0) st0)

/-! ### post-processing, uncontrolled charging -/

/-- postprocessing.py:11-42 for a 1-D array (lengths agree by construction) -/
def formatArraySchedule (infra : Infra K) (sched : List K) : List (String × List K) :=
  List.zipWith (fun id r => (id, [r])) infra.ids sched

/-- uncontrolled_charging.py:24-46: `{station: [max_pilot_signal(station)]}` for active sessions -/
def uncontrolled (infra : Infra K) (l : List (Session K)) : List (String × List K) :=
  l.foldl (fun d s => dictSet d s.station [infra.maxPilot.getD s.idx 0]) []

/-! ### the whole `schedule()` call -/

structure Config (K : Type) where
  algo : Algo
  sort : SortKind
  uninterrupted : Bool
  estimate : Bool
  inc : K
  eps : K
  fuel : Nat

/-- `run_preprocessing` (sorted_algorithms.py:89-116); returns the new estimator state too -/
def preprocess (feas : List K → Bool) (cfg : Config K) (infra : Infra K) (period : K)
    (prev : String → Option (K × K)) (rd : Rampdown K) (l : List (Session K)) :
    List (Session K) × Rampdown K :=
  let l1 := enforcePilotLimit infra (removeFinished infra period l)
  let (l2, rd') :=
    if cfg.estimate then
      let rd' := rampdownCall infra prev rd l1
      (applyUpperBound rd'.bounds l1, rd')
    else (l1, rd)
  let l3 := if cfg.uninterrupted then applyMinimumRate feas infra period l2 else l2
  (l3, rd')

structure Outcome (K : Type) where
  result : Except Err (List K)
  pre : List (Session K)
  order : List (Session K)
  trace : List (String × Nat × Bool)
  rd : Rampdown K
  /-- what is left in the round-robin deque when the loop's fuel is used up (`rr_terminates`: nothing) -/
  queueLeft : List (Session K) := []

/-- `SortedSchedulingAlgo.schedule` / `RoundRobin.schedule` up to `format_array_schedule` -/
def scheduleCall [HasCeilNat K] (feas : List K → Bool) (cfg : Config K) (infra : Infra K)
    (period : K) (time : Int) (prev : String → Option (K × K)) (rd : Rampdown K)
    (raw : List (Session K)) : Outcome K :=
  match resolve infra raw with
  | .error e => { result := .error e, pre := [], order := [], trace := [], rd := rd }
  | .ok l =>
    let (pre, rd') := preprocess feas cfg infra period prev rd l
    let queue := sortSessions cfg.sort infra period time pre
    match cfg.algo with
    | .greedy =>
      { result := sortingAlgorithm feas cfg.fuel cfg.eps infra period queue,
        pre := pre, order := queue, trace := [], rd := rd' }
    | .roundRobin =>
      match roundRobin feas (rrLevels infra period cfg.inc) infra queue with
      | .error e => { result := .error e, pre := pre, order := queue, trace := [], rd := rd' }
      | .ok st => { result := .ok st.sched, pre := pre, order := queue, trace := st.trace.reverse,
                    rd := rd', queueLeft := st.queue }

end
end Acn.Sorted
