/-
  Feasibility of a schedule against the network constraints — transcription of
    * `ChargingNetwork.constraint_current` / `is_feasible`  (acnsim/network/charging_network.py:430-541)
    * `Interface.is_feasible`                                 (acnsim/interface.py:612-673)
    * `Interface._infrastructure_info` / `InfrastructureInfo._validate`
                                                              (acnsim/interface.py:236-278, 452-475)
    * `algorithms.utils.infrastructure_constraints_feasible`  (algorithms/utils.py:6-56)

  Each station `j` carries a unit phasor `(c_j, s_j)` (= `(cos φ_j, sin φ_j)`); the theorems
  use only `c_j² + s_j² = 1`.  Magnitudes are compared through squares
  (`|z| ≤ b  ↔  0 ≤ b ∧ re² + im² ≤ b²`), so no square root is needed in the carrier.
  A schedule is a list of rows (one per station, in network order), each a list over periods.

  The `linear=True` modes and the infrastructure view of a constraint-free network follow the
  REPAIRED code (fixes/F3.diff, F4.diff, F5.diff); the unrepaired variants are kept next to them
  (`linAggCode`, `algLinearCode2`) as documentation of the defects.
-/
import AcnModel.Num

namespace Acn.Feas
open Acn

/-- error classes of the entry points modelled here -/
inductive FeasErr where
  | invalidSchedule   -- interface.py:659 `InvalidScheduleError`
  | valueError        -- interface.py:278 `InfrastructureInfo._validate`
  | indexError        -- numpy fancy indexing beyond the schedule (`time_indices`, charging_network.py:470)
  | typeError         -- indexing `constraint_matrix = None` (unreachable through the public API)
  deriving DecidableEq, Repr

def FeasErr.name : FeasErr → String
  | .invalidSchedule => "InvalidSchedule"
  | .valueError => "ValueError"
  | .indexError => "IndexError"
  | .typeError => "TypeError"

section
variable {K : Type} [Add K] [Sub K] [Mul K] [Neg K] [LT K] [LE K]
  [DecidableLT K] [DecidableLE K] [OfNat K 0]

/-- `|z| ≤ b` for `z = re + i·im`, without square roots. -/
def magLe (re im b : K) : Bool := decide (0 ≤ b) && decide (re * re + im * im ≤ b * b)

/-- column `t` of a schedule matrix (rows = stations) -/
def col (S : List (List K)) (t : Nat) : List K := S.map (fun row => row.getD t 0)

/-- number of periods = length of the first row (numpy `shape[1]`; rows are equally long) -/
def periods (S : List (List K)) : Nat := (S.headD []).length

/-- `max(violation_tolerance, relative_tolerance * limit)` (numpy `maximum`),
    charging_network.py:524,537 / utils.py:37-39 -/
def tolOf (vt rt lim : K) : K := pyMax vt (rt * lim)

/-- real / imaginary part of the aggregate phasor current of one constraint row in one period
    (charging_network.py:478-484: the schedule is multiplied by the phasors first, then `M @ ·`) -/
def aggRe (row : List K) (x c : List K) : K := dotK row (List.zipWith (· * ·) x c)
def aggIm (row : List K) (x s : List K) : K := dotK row (List.zipWith (· * ·) x s)

/-- squared magnitude of the aggregate phasor current (`|constraint_current|²`) -/
def sqMag (row : List K) (c s x : List K) : K :=
  aggRe row x c * aggRe row x c + aggIm row x s * aggIm row x s

/-- one constraint, one period, phase-aware -/
def rowOk (row : List K) (lim vt rt : K) (c s x : List K) : Bool :=
  magLe (aggRe row x c) (aggIm row x s) (lim + tolOf vt rt lim)

/-- charging_network.py:486-541 with `linear=False`.  `M` rows align with `lims`. -/
def netFeasible (M : List (List K)) (lims : List K) (c s : List K) (vt rt : K)
    (S : List (List K)) : Bool :=
  if lims.isEmpty then true
  else (List.range (periods S)).all fun t =>
    (List.zip M lims).all fun (row, lim) => rowOk row lim vt rt c s (col S t)

/-- the `linear=True` aggregate as the UNREPAIRED source computes it: `|Σ_j a_j x_j|`
    (charging_network.py:473-475 before fixes/F4.diff) -/
def linAggCode (row x : List K) : K := absK (dotK row x)

/-- the `linear=True` aggregate as documented: `Σ_j |a_j| x_j` -/
def linAggDoc (row x : List K) : K := dotK (row.map absK) x

/-- the `linear=True` aggregate as the REPAIRED source computes it
    (`np.abs(np.abs(M) @ S)`, charging_network.py:473-475 with fixes/F4.diff; `is_feasible`
    takes `np.abs` of it once more, which is idempotent): `|Σ_j |a_j| x_j|` -/
def linAggFixed (row x : List K) : K := absK (linAggDoc row x)

/-- charging_network.py `is_feasible(linear=True)`; `agg` selects code/doc variant. -/
def netFeasibleLinear (agg : List K → List K → K) (M : List (List K)) (lims : List K)
    (vt rt : K) (S : List (List K)) : Bool :=
  if lims.isEmpty then true
  else (List.range (periods S)).all fun t =>
    (List.zip M lims).all fun (row, lim) =>
      decide (agg row (col S t) ≤ lim + tolOf vt rt lim)

/-- `ChargingNetwork.is_feasible(linear=True)` of the repaired code -/
def netLinear (M : List (List K)) (lims : List K) (vt rt : K) (S : List (List K)) : Bool :=
  netFeasibleLinear linAggFixed M lims vt rt S

/-- algorithms/utils.py, `linear=False`, for a 1-D rate vector (one period). -/
def algFeasible (M : List (List K)) (lims : List K) (c s : List K) (vt rt : K)
    (x : List K) : Bool :=
  (List.zip M lims).all fun (row, lim) =>
    magLe (dotK (List.zipWith (· * ·) row c) x) (dotK (List.zipWith (· * ·) row s) x)
      (lim + tolOf vt rt lim)

/-- algorithms/utils.py, `linear=False`, for a 2-D rate matrix (per-period 2-norm). -/
def algFeasible2 (M : List (List K)) (lims : List K) (c s : List K) (vt rt : K)
    (S : List (List K)) : Bool :=
  (List.range (periods S)).all fun t => algFeasible M lims c s vt rt (col S t)

/-- algorithms/utils.py:49-55 with fixes/F5.diff, `linear=True`, 1-D rate vector:
    `np.abs(np.abs(v) @ rates) <= limit + tol` -/
def algLinear (M : List (List K)) (lims : List K) (vt rt : K) (x : List K) : Bool :=
  (List.zip M lims).all fun (row, lim) =>
    decide (absK (dotK (row.map absK) x) ≤ lim + tolOf vt rt lim)

/-- algorithms/utils.py:49-55 with fixes/F5.diff, `linear=True`, 2-D rate matrix (per period) -/
def algLinear2 (M : List (List K)) (lims : List K) (vt rt : K) (S : List (List K)) : Bool :=
  (List.range (periods S)).all fun t => algLinear M lims vt rt (col S t)

/-- UNREPAIRED algorithms/utils.py:51 for a 2-D rate matrix: the 2-norm ACROSS TIME of the
    per-period sums `Σ_j |a_j| S_jt` is compared with the limit (through squares).  Kept as
    documentation of defect F5; on 1-D input the unrepaired code raises `AxisError`. -/
def algLinearCode2 (M : List (List K)) (lims : List K) (vt rt : K) (S : List (List K)) : Bool :=
  (List.zip M lims).all fun (row, lim) =>
    let b := lim + tolOf vt rt lim
    decide (0 ≤ b) &&
      decide (sumK ((List.range (periods S)).map fun t =>
        linAggDoc row (col S t) * linAggDoc row (col S t)) ≤ b * b)

/-! ### `constraint_current` with its `constraints=` / `time_indices=` arguments -/

/-- rows selected by `constraints=` (charging_network.py:458-465): `None` ⇒ all rows; otherwise the
    rows whose name is listed, in MATRIX order, each once (not in the order of the request). -/
def selectRows (cids : List String) (M : List (List K)) (names : Option (List String)) :
    List (List K) :=
  match names with
  | none => ((List.zip cids M).map (·.2))
  | some ns => ((List.zip cids M).filter fun p => ns.contains p.1).map (·.2)

/-- columns selected by `time_indices=` (charging_network.py:469-470, numpy fancy indexing with
    non-negative indices): in the order of the request, repeats allowed; an index beyond the
    schedule raises `IndexError`. -/
def selectCols (S : List (List K)) (ts : Option (List Nat)) : Except FeasErr (List (List K)) :=
  match ts with
  | none => .ok S
  | some ts =>
    if ts.all (fun t => decide (t < periods S)) then .ok (S.map fun row => ts.map fun t => row.getD t 0)
    else .error .indexError

/-- `|constraint_current(S, constraints, time_indices)|²` entrywise (charging_network.py:430-484,
    `linear=False`) -/
def constraintCurrentSq (cids : List String) (M : List (List K)) (c s : List K)
    (S : List (List K)) (names : Option (List String)) (ts : Option (List Nat)) :
    Except FeasErr (List (List K)) :=
  match selectCols S ts with
  | .error e => .error e
  | .ok S' =>
    .ok ((selectRows cids M names).map fun row =>
      (List.range (periods S')).map fun t => sqMag row c s (col S' t))

/-- `constraint_current(…, linear=True)` entrywise, repaired code -/
def constraintCurrentLin (cids : List String) (M : List (List K))
    (S : List (List K)) (names : Option (List String)) (ts : Option (List Nat)) :
    Except FeasErr (List (List K)) :=
  match selectCols S ts with
  | .error e => .error e
  | .ok S' =>
    .ok ((selectRows cids M names).map fun row =>
      (List.range (periods S')).map fun t => linAggFixed row (col S' t))
/-- densify a `{station: [rates]}` mapping in network station order, zero rows for omitted
    stations (interface.py:663-670, simulator.py:256-263). `len` is the common length.
    Keys that are not stations of the network are ignored, as in the source. -/
def densify (stations : List String) (sched : List (String × List K)) (len : Nat) : List (List K) :=
  stations.map fun st =>
    match sched.lookup st with
    | some row => row
    | none => List.replicate len 0

/-- interface.py:612-673 (`linear=False`): empty mapping ⇒ True; else delegate.
    Total version for mappings whose rows all have the same length (see `ifaceFeasibleE`). -/
def ifaceFeasible (stations : List String) (M : List (List K)) (lims : List K) (c s : List K)
    (vt rt : K) (sched : List (String × List K)) : Bool :=
  match sched with
  | [] => true
  | (_, r) :: _ => netFeasible M lims c s vt rt (densify stations sched r.length)

/-- interface.py:612-673 with `linear=True` (repaired network side), total version -/
def ifaceLinear (stations : List String) (M : List (List K)) (lims : List K)
    (vt rt : K) (sched : List (String × List K)) : Bool :=
  match sched with
  | [] => true
  | (_, r) :: _ => netLinear M lims vt rt (densify stations sched r.length)

/-- interface.py:653-673 including the error path: empty mapping ⇒ True (653-654); rows of
    different lengths ⇒ `InvalidScheduleError` (657-659); else densify and delegate. -/
def ifaceFeasibleE (stations : List String) (M : List (List K)) (lims : List K) (c s : List K)
    (vt rt : K) (linear : Bool) (sched : List (String × List K)) : Except FeasErr Bool :=
  match sched with
  | [] => .ok true
  | (_, r) :: rest =>
    if rest.all (fun p => p.2.length == r.length) then
      let S := densify stations sched r.length
      .ok (if linear then netLinear M lims vt rt S else netFeasible M lims c s vt rt S)
    else .error .invalidSchedule

/-! ### the objects the three entry points live on -/

/-- a numpy 2-D array: the shape survives when there are no rows -/
structure Mat (K : Type) where
  cols : Nat
  rows : List (List K)

/-- the part of `ChargingNetwork` the feasibility checks read (charging_network.py:42-55) -/
structure Net (K : Type) where
  stations : List String            -- `station_ids` (registration order)
  c : List K                        -- Re e^{iφ_j} for `_phase_angles`
  s : List K                        -- Im e^{iφ_j}
  voltages : List K                 -- `_voltages`
  matrix : Option (Mat K)           -- `constraint_matrix`: `None` until the first constraint
  lims : List K                     -- `magnitudes`
  cids : List String                -- `constraint_index`
  vt : K                            -- `violation_tolerance`
  rt : K                            -- `relative_tolerance`

/-- `ChargingNetwork.is_feasible(schedule_matrix, linear, violation_tolerance, relative_tolerance)`
    (charging_network.py:486-541): `None` tolerances default to the network's own. -/
def Net.isFeasible (net : Net K) (S : List (List K)) (linear : Bool) (vt? rt? : Option K) :
    Except FeasErr Bool :=
  let vt := vt?.getD net.vt
  let rt := rt?.getD net.rt
  if net.lims.isEmpty then .ok true
  else match net.matrix with
    | none => .error .typeError
    | some M =>
      .ok (if linear then netLinear M.rows net.lims vt rt S
           else netFeasible M.rows net.lims net.c net.s vt rt S)

/-- `Interface.is_feasible(load_currents, linear, violation_tolerance, relative_tolerance)`
    (interface.py:612-673) -/
def Net.ifaceIsFeasible (net : Net K) (sched : List (String × List K)) (linear : Bool)
    (vt? rt? : Option K) : Except FeasErr Bool :=
  match sched with
  | [] => .ok true
  | (_, r) :: rest =>
    if rest.all (fun p => p.2.length == r.length) then
      net.isFeasible (densify net.stations sched r.length) linear vt? rt?
    else .error .invalidSchedule

/-- `InfrastructureInfo` as far as the feasibility check reads it (interface.py:142-226).
    `max_pilot`, `min_pilot`, `allowable_pilots`, `is_continuous` are rebuilt from `station_ids`
    at every registration (charging_network.py:66-96) and are not carried here. -/
structure Infra (K : Type) where
  nCons : Nat                       -- `constraint_matrix.shape[0]`
  nCols : Nat                       -- `constraint_matrix.shape[1]`
  matrix : List (List K)
  lims : List K                     -- `constraint_limits`
  c : List K                        -- cos of `phases`
  s : List K                        -- sin of `phases`
  voltages : List K
  cids : List String
  stations : List String

/-- `InfrastructureInfo._validate` (interface.py:236-278): every station-indexed attribute has
    one length, every constraint-indexed attribute has one length; otherwise `ValueError`. -/
def Infra.validate (i : Infra K) : Except FeasErr Unit :=
  if i.nCols = i.stations.length ∧ i.c.length = i.stations.length ∧ i.s.length = i.stations.length
      ∧ i.voltages.length = i.stations.length
      ∧ i.nCons = i.lims.length ∧ i.cids.length = i.lims.length then .ok ()
  else .error .valueError

/-- the matrix handed to `InfrastructureInfo` (interface.py:464-469 with fixes/F3.diff): a
    network that has no constraint matrix yet is described by a `0 × N` matrix. -/
def Net.mat (net : Net K) : Mat K :=
  match net.matrix with
  | none => { cols := net.stations.length, rows := [] }
  | some M => M

/-- the `InfrastructureInfo` record built from the network's attributes (interface.py:468-479) -/
def Net.view (net : Net K) : Infra K :=
  { nCons := net.mat.rows.length, nCols := net.mat.cols, matrix := net.mat.rows, lims := net.lims,
    c := net.c, s := net.s, voltages := net.voltages, cids := net.cids, stations := net.stations }

/-- `Interface._infrastructure_info` / `infrastructure_info` (interface.py:452-487 with
    fixes/F3.diff): build the record, `_validate` it in the constructor. -/
def Net.infraInfo (net : Net K) : Except FeasErr (Infra K) :=
  match net.view.validate with
  | .ok () => .ok net.view
  | .error e => .error e

/-- `infrastructure_constraints_feasible(rates, infrastructure, linear, vt, rt)` for a 2-D
    `rates` matrix (utils.py:6-56 with fixes/F5.diff) -/
def Infra.feasible2 (i : Infra K) (S : List (List K)) (linear : Bool) (vt rt : K) : Bool :=
  if linear then algLinear2 i.matrix i.lims vt rt S
  else algFeasible2 i.matrix i.lims i.c i.s vt rt S

/-- … for a 1-D `rates` vector -/
def Infra.feasible1 (i : Infra K) (x : List K) (linear : Bool) (vt rt : K) : Bool :=
  if linear then algLinear i.matrix i.lims vt rt x
  else algFeasible i.matrix i.lims i.c i.s vt rt x

end
end Acn.Feas
