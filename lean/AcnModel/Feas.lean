/-
  Feasibility of a schedule against the network constraints — transcription of
    * `ChargingNetwork.constraint_current` / `is_feasible`  (acnsim/network/charging_network.py:430-541)
    * `Interface.is_feasible`                                 (acnsim/interface.py:612-673)
    * `algorithms.utils.infrastructure_constraints_feasible`  (algorithms/utils.py:6-54)

  Each station `j` carries a unit phasor `(c_j, s_j)` (= `(cos φ_j, sin φ_j)`); the theorems
  use only `c_j² + s_j² = 1`.  Magnitudes are compared through squares
  (`|z| ≤ b  ↔  0 ≤ b ∧ re² + im² ≤ b²`), so no square root is needed in the carrier.
  A schedule is a list of rows (one per station, in network order), each a list over periods.
-/
import AcnModel.Num

namespace Acn.Feas
open Acn

section
variable {K : Type} [Add K] [Sub K] [Mul K] [Neg K] [LT K] [LE K]
  [DecidableLT K] [DecidableLE K] [OfNat K 0]

/-- `|z| ≤ b` for `z = re + i·im`, without square roots. -/
def magLe (re im b : K) : Bool := decide (0 ≤ b) && decide (re * re + im * im ≤ b * b)

/-- column `t` of a schedule matrix (rows = stations) -/
def col (S : List (List K)) (t : Nat) : List K := S.map (fun row => row.getD t 0)

/-- number of periods = length of the first row (numpy `shape[1]`; rows are equally long) -/
def periods (S : List (List K)) : Nat := (S.headD []).length

/-- `max(violation_tolerance, relative_tolerance * limit)` (numpy `maximum`) -/
def tolOf (vt rt lim : K) : K := pyMax vt (rt * lim)

/-- real / imaginary part of the aggregate phasor current of one constraint row in one period -/
def aggRe (row : List K) (x c : List K) : K := dotK row (List.zipWith (· * ·) x c)
def aggIm (row : List K) (x s : List K) : K := dotK row (List.zipWith (· * ·) x s)

/-- one constraint, one period, phase-aware -/
def rowOk (row : List K) (lim vt rt : K) (c s x : List K) : Bool :=
  magLe (aggRe row x c) (aggIm row x s) (lim + tolOf vt rt lim)

/-- charging_network.py:486-541 with `linear=False`.  `M` rows align with `lims`. -/
def netFeasible (M : List (List K)) (lims : List K) (c s : List K) (vt rt : K)
    (S : List (List K)) : Bool :=
  if lims.isEmpty then true
  else (List.range (periods S)).all fun t =>
    (List.zip M lims).all fun (row, lim) => rowOk row lim vt rt c s (col S t)

/-- the `linear=True` aggregate as the source computes it: `|Σ_j a_j x_j|` -/
def linAggCode (row x : List K) : K := absK (dotK row x)

/-- the `linear=True` aggregate as documented: `Σ_j |a_j| x_j` -/
def linAggDoc (row x : List K) : K := dotK (row.map absK) x

/-- charging_network.py `is_feasible(linear=True)`; `agg` selects code/doc variant. -/
def netFeasibleLinear (agg : List K → List K → K) (M : List (List K)) (lims : List K)
    (vt rt : K) (S : List (List K)) : Bool :=
  if lims.isEmpty then true
  else (List.range (periods S)).all fun t =>
    (List.zip M lims).all fun (row, lim) =>
      decide (agg row (col S t) ≤ lim + tolOf vt rt lim)

/-- algorithms/utils.py, `linear=False`, for a 1-D rate vector (one period). -/
def algFeasible (M : List (List K)) (lims : List K) (c s : List K) (vt rt : K)
    (x : List K) : Bool :=
  (List.zip M lims).all fun (row, lim) =>
    magLe (dotK (List.zipWith (· * ·) row c) x) (dotK (List.zipWith (· * ·) row s) x)
      (lim + tolOf vt rt lim)

/-- algorithms/utils.py, `linear=False`, for a 2-D rate matrix (per-period 2-norm). -/
def algFeasible2 (M : List (List K)) (lims : List K) (c s : List K) (vt rt : K)
    (S : List (List K)) : Bool :=
  (List.range (periods S)).all fun t => algFeasible M lims c s vt rt (col S t)

/-- densify a `{station: [rates]}` mapping in network station order, zero rows for omitted
    stations (interface.py:663-670, simulator.py:256-263). `len` is the common length. -/
def densify (stations : List String) (sched : List (String × List K)) (len : Nat) : List (List K) :=
  stations.map fun st =>
    match sched.lookup st with
    | some row => row
    | none => List.replicate len 0

/-- interface.py:612-673 (`linear=False`): empty mapping ⇒ True; else delegate. -/
def ifaceFeasible (stations : List String) (M : List (List K)) (lims : List K) (c s : List K)
    (vt rt : K) (sched : List (String × List K)) : Bool :=
  match sched with
  | [] => true
  | (_, r) :: _ => netFeasible M lims c s vt rt (densify stations sched r.length)

end
end Acn.Feas
