/-
  `simple_acn` (acnsim/network/sites/auto_acn.py:7-37): `n` single-phase stations of one EVSE type, every one
  registered with the `voltage` argument at phase angle 0, behind ONE constraint `Σ_j I_j ≤ current_cap`,
  `current_cap = (aggregate_cap / voltage) * 1000`.

  The limit is NOT written here: its dependence on (`aggregate_cap`, `voltage`) is fitted on every run to the
  networks the factory of the working tree BUILDS (`Gen/SimpleAcn.lean`: `limitMono`, a canonical monomial
  `n/d · cap^±1 · voltage^±1` — independent of how the source spells the formula) and evaluated by `evalMono`
  — at `Float` by the driver, at an ordered field by the theorems (`AcnProofs/C16Simple.lean`; the obligation
  `simple_formula` states what it denotes).  That every station is registered with the `voltage` argument at
  0° is transcribed from auto_acn.py:27-28 and re-checked on the executed calls (`instOk`, `simple_instances`).
  Feasibility is the shared `Feas.netFeasible` (charging_network.py:486-541) with the unit phasor of 0°, (1, 0).
-/
import AcnModel.Feas
import AcnModel.Gen.SimpleAcn

namespace Acn.SimpleAcn
open Acn Acn.Gen.SimpleAcn

inductive SimpleErr where
  | zeroDivision      -- Python `ZeroDivisionError` (`aggregate_cap / 0`)
  | notTranslated     -- the limit of the built networks is not a monomial of the modelled class
  | badAngle          -- a registration angle other than 0°: outside the modelled class (cos/sin not available)
  | noDefault         -- an argument was omitted and the signature default is not a plain number
  deriving DecidableEq, Repr

def SimpleErr.name : SimpleErr → String
  | .zeroDivision => "ZeroDivisionError"
  | .notTranslated => "notTranslated"
  | .badAngle => "badAngle"
  | .noDefault => "noDefault"

section
variable {K : Type} [Add K] [Sub K] [Mul K] [Div K] [Neg K] [LT K] [LE K]
  [DecidableLT K] [DecidableLE K] [OfNat K 0] [OfNat K 1] [NatCast K]

/-- an integer literal of the source -/
def intK (z : Int) : K := if z < 0 then -((z.natAbs : Nat) : K) else ((z.natAbs : Nat) : K)

/-- a numeric literal `n/d` of the source (`d = 1` for every literal of the unchanged tree; `x / 1` is exact) -/
def litK (n : Int) (d : Nat) : K := intK n / ((d : Nat) : K)

/-- `x == 0` for a double (−0.0 included) / in an ordered field -/
def isZero (x : K) : Bool := decide (x ≤ 0) && decide (0 ≤ x)

/-- one factor of the monomial, applied to the running value; Python raises `ZeroDivisionError` on a zero divisor -/
def applyDep (x a : K) : Dep → Except SimpleErr K
  | .none => .ok x
  | .times => .ok (x * a)
  | .over => if isZero a then .error .zeroDivision else .ok (x / a)

/-- value of the fitted monomial at `aggregate_cap = cap`, `voltage = voltage`, in the canonical operation order
    `((1 ∘ cap) ∘ voltage) · n/d` — for `1000 · cap / voltage` that is `(cap / voltage) * 1000`, the order of
    auto_acn.py:33 -/
def evalMono (cap voltage : K) (m : Mono) : Except SimpleErr K := do
  let x ← match m.cap with
    | .none => pure 1
    | .times => pure cap
    | .over => if isZero cap then .error .zeroDivision else pure (1 / cap)
  let y ← applyDep x voltage m.voltage
  pure (y * litK m.n m.d)

/-- the limit of the aggregate constraint [A] -/
def limitOf (cap voltage : K) : Except SimpleErr K :=
  match limitMono with
  | some m => evalMono cap voltage m
  | none => .error .notTranslated

/-- what `simple_acn` returns, as far as C16 reads it -/
structure Net (K : Type) where
  stations : List String      -- `station_ids`
  voltages : List K           -- `_voltages`
  angles : List K             -- `_phase_angles` [degrees]
  M : List (List K)           -- `constraint_matrix`
  lims : List K               -- `magnitudes`
  names : List String         -- `constraint_index`

/-- auto_acn.py:26-35 for distinct station ids: every id registered with (`voltage`, 0°), then the one constraint
    over all of them with the fitted limit.  (The registrations come first in the source; they cannot raise, so
    the only error is the division in `current_cap`.) -/
def simpleAcn (ids : List String) (voltage cap : K) : Except SimpleErr (Net K) := do
  let lim ← limitOf cap voltage
  pure { stations := ids, voltages := ids.map fun _ => voltage, angles := ids.map fun _ => 0,
         M := [ids.map fun _ => 1], lims := [lim], names := [constraintName] }

/-- `ChargingNetwork.is_feasible(S)` of a network all of whose stations sit at 0° (unit phasor (1, 0));
    any other angle is outside the modelled class -/
def netFeasible0 (N : Net K) (vt rt : K) (S : List (List K)) : Except SimpleErr Bool :=
  if N.angles.all isZero then
    .ok (Feas.netFeasible N.M N.lims (N.angles.map fun _ => 1) (N.angles.map fun _ => 0) vt rt S)
  else .error .badAngle

/-- `simple_acn(ids, voltage=voltage, aggregate_cap=cap).is_feasible(S, vt, rt)` -/
def simpleFeasible (ids : List String) (voltage cap vt rt : K) (S : List (List K)) : Except SimpleErr Bool := do
  let N ← simpleAcn ids voltage cap
  netFeasible0 N vt rt S

/-- total current of period `t`: `Σ_j S_j(t)` -/
def total (S : List (List K)) (t : Nat) : K := sumK (Feas.col S t)

/-- power drawn in period `t` at the EVSE voltage [kW]: `voltage · Σ_j S_j(t) / 1000` -/
def powerKW (voltage : K) (S : List (List K)) (t : Nat) : K := voltage * total S t / ((1000 : Nat) : K)

/-- a signature default as a number -/
def defaultK (d : Option (Int × Nat)) : Except SimpleErr K :=
  match d with
  | some (n, d) => .ok (litK n d)
  | none => .error .noDefault

end
end Acn.SimpleAcn

/-! ## the executed calls of `Gen/SimpleAcn.lean` against the model (exact rationals) -/

namespace Acn.SimpleAcn
open Acn Acn.Gen.SimpleAcn

def ratOf (p : Int × Nat) : Rat := mkRat p.1 p.2

def absRat (q : Rat) : Rat := if q < 0 then -q else q

/-- double-rounding allowance between a dumped limit and the exact value of its formula: 2⁻⁴⁰ relative -/
def limEps : Rat := mkRat 1 1099511627776

/-- what `get_evse_by_type` documents for its three types: (continuous?, allowable levels) -/
def evseTable (ty : String) : Option (Bool × List (Int × Nat)) :=
  if ty == "BASIC" then some (true, [(0, 1), (32, 1)])
  else if ty == "AeroVironment" then some (false, (0, 1) :: (List.range 27).map fun i => ((i + 6 : Nat), 1))
  else if ty == "ClipperCreek" then some (false, [(0, 1), (8, 1), (16, 1), (24, 1), (32, 1)])
  else none

/-- One executed call agrees with `simpleAcn` at the arguments passed (omitted ones: the signature defaults):
    the stations are the distinct ids asked for, in order; every angle is 0 and every voltage the requested one;
    there is exactly one constraint, with coefficient 1 on every station; its limit is the exact value of
    the fitted monomial up to double rounding; the EVSEs are of the requested type. -/
def instOk (I : Inst) : Bool :=
  let n := I.ids.length
  match (I.voltage <|> defaultVoltage), (I.cap <|> defaultCap) with
  | some v, some c =>
    I.stations == I.ids && decide I.ids.Nodup &&
    I.angles == I.ids.map (fun _ => ((0 : Int), 1)) &&
    decide (I.voltages.length = n) && I.voltages.all (fun q => decide (ratOf q = ratOf v)) &&
    I.conNames == [constraintName] &&
    I.rows == [(List.range n).map fun j => (j, (1 : Int), 1)] &&
    (match I.limits, limitOf (K := Rat) (ratOf c) (ratOf v) with
     | [l], .ok q => decide (absRat (ratOf l - q) ≤ limEps * absRat q)
     | _, _ => false) &&
    (match evseTable (if I.evseType == "" then defaultEvseType else I.evseType) with
     | some (cont, lv) => I.continuous == cont && I.levels == lv && I.maxRates == [(32, 1)]
     | none => false)
  | _, _ => false

end Acn.SimpleAcn
