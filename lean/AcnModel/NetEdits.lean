/-
  NetEdits (C05) — the network EDITED between invocations of the scheduler.
  An additive companion of `AcnModel/SchedView.lean` (nothing there is changed).

  `Sim.Cfg` / `NetDesc` describe the network the simulator is BUILT with.  The network object stays
  editable while the simulation lives (charging_network.py:219-324: `add_constraint`, `remove_constraint`,
  `update_constraint` = remove + add, i.e. the row moves to the end): a time-varying site limit installed
  from the public `post_charging_update` hook, a finished simulation that is re-rated, given more events
  and resumed.  `Interface._infrastructure_info()` (interface.py:452-479) reads the network's containers
  AT THE MOMENT OF THE CALL — nothing is kept from an earlier call.

  The edits are an INPUT of the model (like the noise draws): a history `List (NetEdit K)` in application
  order, each entry with the first period in which it is in force
      `since` = 0      applied before the first `run()`,
                p + 1  applied in `post_charging_update` of period p (simulator.py:140-141, before `_iteration += 1`),
                h      applied between two `run()`s, the first of which stopped at iteration h.
  * `editsInForce edits t`   the operations applied before the invocation of period `t`, in order;
  * `netAt cfg nd edits t`   the constraint containers at that moment: the network model of C12
                             (`Network.Net`) run over construction ++ edits in force;
  * `infraInfoAt …  t`       every field of the `InfrastructureInfo` handed out in period `t`;
  * `runViewsInfra`          the views handed out along `Sim.run`, each with the infrastructure description
                             of the same invocation.
  The trajectory (`Sim.run`) does not depend on the constraints: `_update_schedules` only WARNS about an
  infeasible schedule (simulator.py:273-292).
-/
import AcnModel.SchedView

namespace Acn.Sim
open Acn Acn.EventCore

/-- an edit of the constraint set (the three public mutators of `ChargingNetwork`) -/
inductive ConOp (K : Type) where
  | add (c : Network.Current K) (limit : K) (name : Option String)
  | remove (name : String)
  | update (name : String) (c : Network.Current K) (limit : K) (newName : Option String)

def ConOp.toOp {K : Type} : ConOp K → Network.Op K
  | .add c l nm => .add c l nm
  | .remove nm => .remove nm
  | .update nm c l nn => .update nm c l nn

/-- one entry of the edit history: `ops` are applied, in order, so that they are in force from period
    `since` on -/
structure NetEdit (K : Type) where
  since : Nat
  ops : List (ConOp K)

section
variable {K : Type} [Add K] [Sub K] [Mul K] [Div K] [Neg K] [LT K] [LE K]
  [DecidableLT K] [DecidableLE K] [OfNat K 0] [OfNat K 1] [NatCast K] [HasExp K]

/-- the entries applied before the invocation of period `t` (history order) -/
def entriesInForce (edits : List (NetEdit K)) (t : Nat) : List (NetEdit K) :=
  edits.filter fun e => decide (e.since ≤ t)

/-- their operations, in application order -/
def opsOf (es : List (NetEdit K)) : List (Network.Op K) :=
  es.flatMap fun e => e.ops.map ConOp.toOp

def editsInForce (edits : List (NetEdit K)) (t : Nat) : List (Network.Op K) :=
  opsOf (entriesInForce edits t)

/-- the whole history by which the network of period `t` came about: the `register_evse` calls, the
    `add_constraint` calls of the construction, the edits in force -/
def historyAt (cfg : Cfg K) (nd : NetDesc K) (edits : List (NetEdit K)) (t : Nat) : List (Network.Op K) :=
  (cfg.stations.map fun st => Network.Op.register st.id) ++
    (nd.constraints.map fun c => Network.Op.add c.1 c.2.1 c.2.2) ++ editsInForce edits t

/-- the constraint containers of the network at the invocation of period `t` (a rejected operation
    leaves whatever it had already done, as in the code) -/
def netAt (cfg : Cfg K) (nd : NetDesc K) (edits : List (NetEdit K)) (t : Nat) : Network.Net K :=
  Network.Net.run (netOf cfg nd) (editsInForce edits t)

/-- `Interface._infrastructure_info()` in period `t` (interface.py:452-479): the containers as they are
    THEN; voltages, phase angles and the per-station part are not touched by constraint edits -/
def infraInfoAt (cfg : Cfg K) (nd : NetDesc K) (edits : List (NetEdit K)) (t : Nat) : Infra K :=
  let n := netAt cfg nd edits t
  { constraintMatrix := n.matrix.getD [], constraintLimits := n.magnitudes, phases := nd.phases,
    voltages := cfg.stations.map (·.voltage), constraintIds := n.index, stationIds := n.stations,
    stations := infra cfg }

/-- the views handed out along `Sim.run`, each with the infrastructure description of its invocation -/
def runViewsInfra (cfg : Cfg K) (sched : View K → Except Err (Schedule K)) (nd : NetDesc K)
    (edits : List (NetEdit K)) (n : Nat) (s : State K) : List (View K × Infra K) :=
  (runViews cfg sched n s).map fun v => (v, infraInfoAt cfg nd edits v.iter)

end
end Acn.Sim
