/-
  EventCore over an arbitrary event queue AND an arbitrary charging network.

  `NetOps σ` is what the run loop asks of `self.network` while it processes events:
  `network.plugin(ev)` and `network.unplug(station_id, session_id)`, each of which may raise.
  `chargingNet stations` is `ChargingNetwork` (charging_network.py:326-386, evse.py:155-185) on the
  occupancy map — with it (and `canonQ`) the loop below IS the loop of `EventCore.lean`
  (`AcnProofs/Lemmas/EventCoreNet.lean`).  Other instances: `StochasticNetwork` (C19), which assigns
  the spaces itself and keeps a waiting queue.

  The state is the `Core` of `EventCore.lean` (its `occ` field is not used here) plus the
  network state `net : σ`.
-/
import AcnModel.EventCoreQ

namespace Acn.EventCore
open Acn

structure NetOps (σ : Type) where
  plugin : σ → Session → σ × Option Err
  unplug : σ → Session → σ × Option Err

/-- `ChargingNetwork.plugin` / `.unplug` on the occupancy map -/
def chargingNet (stations : List String) : NetOps (String → Option Session) where
  plugin := fun occ x =>
    if stations.contains x.station then
      match occ x.station with
      | some _ => (occ, some .stationOccupied)
      | none => (setOcc occ x.station (some x), none)
    else (occ, some .keyError)
  unplug := fun occ x =>
    if stations.contains x.station then
      ((match occ x.station with
        | some y => if y.id == x.id then setOcc occ x.station none else occ
        | none => occ), none)
    else (occ, some .keyError)

structure CoreG (σ : Type) where
  core : Core
  net : σ

def initG {σ : Type} (ops : QOps) (cfg : Cfg) (net0 : σ) : CoreG σ := ⟨initQ ops cfg, net0⟩

section
variable {σ : Type}

/-- `_process_event` (simulator.py:203-226) -/
def processG (ops : QOps) (net : NetOps σ) (cfg : Cfg) (e : Event) (g : CoreG σ) : CoreG σ × Option Err :=
  match e.kind with
  | .plugin =>
    match findSession cfg e.sess with
    | none => (g, some .noSuchSession)
    | some x =>
      match net.plugin g.net x with
      | (_, some err) => (g, some err)
      | (n', none) =>
        ({ core := { g.core with evHist := g.core.evHist ++ [x.id],
                                 pending := ops.push g.core.pending (unplugEv x), resolve := true,
                                 lastUpd := some e.ts },
           net := n' }, none)
  | .unplug =>
    match findSession cfg e.sess with
    | none => (g, some .noSuchSession)
    | some x =>
      match net.unplug g.net x with
      | (_, some err) => (g, some err)
      | (n', none) => ({ core := { g.core with resolve := true, lastUpd := some e.ts }, net := n' }, none)
  | .recompute => ({ g with core := { g.core with resolve := true } }, none)

def stepG (ops : QOps) (net : NetOps σ) (cfg : Cfg) (e : Event) (g : CoreG σ) : CoreG σ × Option Err :=
  processG ops net cfg e { g with core := { g.core with eventHist := g.core.eventHist ++ [e] } }

def processAllG (ops : QOps) (net : NetOps σ) (cfg : Cfg) : List Event → CoreG σ → CoreG σ × Option Err
  | [], g => (g, none)
  | e :: es, g =>
    match stepG ops net cfg e g with
    | (g2, none) => processAllG ops net cfg es g2
    | (g2, some err) => (g2, some err)

def eventsStageG (ops : QOps) (net : NetOps σ) (cfg : Cfg) (g : CoreG σ) : CoreG σ × Option Err :=
  processAllG ops net cfg (ops.pop g.core.iter g.core.pending).1
    { g with core := { g.core with pending := (ops.pop g.core.iter g.core.pending).2 } }

def bodyG (ops : QOps) (net : NetOps σ) (cfg : Cfg) (sched apply : CoreG σ → Option Err) (g : CoreG σ) :
    CoreG σ × Option Err :=
  match eventsStageG ops net cfg g with
  | (g1, some e) => (g1, some e)
  | (g1, none) =>
    if needsSched cfg.maxRecompute g1.core then
      match sched { g1 with core := markInvoked g1.core } with
      | some e => ({ g1 with core := markInvoked g1.core }, some e)
      | none =>
        match apply { g1 with core := markScheduled (markInvoked g1.core) } with
        | some e => ({ g1 with core := markScheduled (markInvoked g1.core) }, some e)
        | none => ({ g1 with core := advance (markScheduled (markInvoked g1.core)) }, none)
    else
      match apply g1 with
      | some e => (g1, some e)
      | none => ({ g1 with core := advance g1.core }, none)

def runG (ops : QOps) (net : NetOps σ) (cfg : Cfg) (sched apply : CoreG σ → Option Err) :
    Nat → CoreG σ → CoreG σ × Option Err
  | 0, g => (g, none)
  | n + 1, g =>
    if guard g.core then
      match bodyG ops net cfg sched apply g with
      | (g', none) => runG ops net cfg sched apply n g'
      | (g', some e) => (g', some e)
    else (g, none)

end
end Acn.EventCore
