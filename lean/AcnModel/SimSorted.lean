/-
  The sorted algorithms as a scheduler PARAMETER of the shared simulator model (`Sim.body`):
  the adapter from what `Interface` shows (`Sim.View` + the static network description) to the
  sessions / infrastructure `Sorted.scheduleCall` takes — transcription of
    * `Interface._active_sessions`   (interface.py:414-433: `SessionInfo(…, current_time)`,
      defaults `min_rates = 0`, `max_rates = inf`), in `network.active_evs` order,
    * `Interface._infrastructure_info` (interface.py:445-470) with the network's cached per-station
      arrays (`max_rate`, `min_rate`, `allowable_pilot_signals`, `is_continuous` of each EVSE class),
    * `BaseAlgorithm.run` → `schedule(active_sessions)` → `{station: [rate]}`.
  The rampdown estimator keeps state between calls and `Sim`'s scheduler parameter is a pure
  function of the view, so this adapter covers `estimate_max_rate = False` (both algorithms, all
  sorts, uninterrupted on/off, all increments) and the uncontrolled baseline.
-/
import AcnModel.Sim
import AcnModel.Sorted
import AcnModel.Feas

namespace Acn.SimSorted
open Acn Acn.Sorted

/-- the part of the network the `View` does not carry: constraint rows, limits, unit phasors of the
    stations (cos / sin of the phase angles), the algorithm-side tolerances -/
structure NetInfo (K : Type) where
  M : List (List K)
  lims : List K
  cos : List K
  sin : List K
  vt : K
  rt : K

section
variable {K : Type} [Add K] [Sub K] [Mul K] [Div K] [Neg K] [LT K] [LE K]
  [DecidableLT K] [DecidableLE K] [OfNat K 0] [OfNat K 1] [NatCast K] [IntCast K] [HasExp K]

/-- `float('inf')` is a value of the carrier at `Float`; `inf` is that value -/
def boundOr (inf : K) : Evse.Bound K → K
  | some x => x
  | none => inf

/-- `Interface._infrastructure_info`, per-station part -/
def infraOf (inf : K) (cfg : Sim.Cfg K) : Infra K :=
  { ids := cfg.stations.map (·.id),
    maxPilot := cfg.stations.map fun st => boundOr inf (Evse.maxRate st.kind),
    minPilot := cfg.stations.map fun st => Evse.minRate st.kind,
    volt := cfg.stations.map (·.voltage),
    cont := cfg.stations.map fun st => Evse.isContinuous st.kind,
    allow := cfg.stations.map fun st => (Evse.allowable st.kind).map (boundOr inf) }

/-- `SessionInfo.remaining_time` (interface.py:134-147) -/
def remainingTime (arrival departure : Int) (now : Nat) : Nat :=
  (max (min (departure - arrival) (departure - (now : Int))) 0).toNat

/-- `Interface._active_sessions` for one EV -/
def sessionOfEv (inf : K) (now : Nat) (e : Evse.Ev K) : Session K :=
  { station := e.station, session := e.session, idx := 0, arrival := e.arrival,
    estDeparture := e.estDeparture, remainingTime := remainingTime e.arrival e.departure now,
    requested := e.requested, delivered := e.delivered, minRate := 0, maxRate := inf }

def errOf : Sorted.Err → EventCore.Err
  | .keyError => .keyError
  | .lbInfeasible => .valueError
  | .initialInfeasible => .valueError

def feasOf (net : NetInfo K) : List K → Bool :=
  Acn.Feas.algFeasible net.M net.lims net.cos net.sin net.vt net.rt

/-- `SortedSchedulingAlgo.schedule` / `RoundRobin.schedule` behind `BaseAlgorithm.run`,
    `estimate_max_rate = False` -/
def sortedSched [HasCeilNat K] (net : NetInfo K) (inf : K) (cfg : Sim.Cfg K) (scfg : Config K) :
    Sim.View K → Except EventCore.Err (Sim.Schedule K) := fun v =>
  let infra := infraOf inf cfg
  let raw := v.active.map (sessionOfEv inf v.iter)
  let o := scheduleCall (feasOf net) { scfg with estimate := false } infra cfg.period (v.iter : Int)
    (fun _ => none) { upTh := 0, downTh := 0, upInc := 0, bounds := [] } raw
  match o.result with
  | .error e => .error (errOf e)
  | .ok sch => .ok (formatArraySchedule infra sch)

/-- `UncontrolledCharging.schedule` behind `BaseAlgorithm.run` -/
def uncontrolledSched (inf : K) (cfg : Sim.Cfg K) :
    Sim.View K → Except EventCore.Err (Sim.Schedule K) := fun v =>
  let infra := infraOf inf cfg
  match resolve infra (v.active.map (sessionOfEv inf v.iter)) with
  | .error e => .error (errOf e)
  | .ok l => .ok (uncontrolled infra l)

end
end Acn.SimSorted
