/-
  The analysis functions (`AcnModel/Analysis.lean`) evaluated on a state of the FULL simulator model
  (`AcnModel/Sim.lean`): what `acnsim.analysis.*(sim)` reads off a `Simulator` object, read off a `Sim.State`.

    sim.charging_rates            ↦ `s.rates`  (rows = stations in registration order, `s.rates.width` columns)
    sim.network._voltages         ↦ the voltages the stations were registered with (`cfg.stations`)
    sim.ev_history.values()       ↦ the EV objects of `s.core.evHist` (plug-in order), looked up in `s.evs`
    sim.iteration / sim.period    ↦ `s.core.iter` / `cfg.period`
    sim.event_queue.empty()       ↦ `s.core.pending = []`
    sim.peak                      ↦ `s.peak`

  The constraint matrix, its index and the phase angles are not part of `Sim` (the simulator never reads them);
  they stay parameters.  Executed at `Float` by `drv_C18` on the model's OWN trajectory; reasoned about in
  `AcnProofs/C18Sim.lean`.
-/
import AcnModel.Analysis
import AcnModel.Sim

namespace Acn.AnalysisSim
open Acn Acn.Sim Acn.Analysis

section
variable {K : Type}

/-- `sim.charging_rates` -/
def simR (s : State K) : Matrix K := s.rates.rows

/-- `sim.charging_rates.shape[1]` -/
def simT (s : State K) : Nat := s.rates.width

/-- `sim.network._voltages` -/
def simV (cfg : Cfg K) : List K := cfg.stations.map (·.voltage)

/-- what the energy metrics read of one EV object -/
def evOfSim (e : Evse.Ev K) : Analysis.Ev K := ⟨e.requested, e.delivered⟩

/-- `sim.ev_history.values()`: the EVs that have plugged in so far, in plug-in order -/
def histEvs (s : State K) : List (Analysis.Ev K) :=
  s.core.evHist.filterMap fun id => (s.evs.find? (fun e => e.session == id)).map evOfSim

/-- every EV object of the scenario (whether it has arrived yet or not) -/
def allEvs (s : State K) : List (Analysis.Ev K) := s.evs.map evOfSim

/-- `datetimes_array` warns iff `not sim.event_queue.empty()` (analysis/__init__.py:236) -/
def warnsUnfinished (s : State K) : Bool := !s.core.pending.isEmpty

end

section
variable {K : Type} [Add K] [Sub K] [Mul K] [Div K] [LT K] [DecidableLT K] [OfNat K 0] [NatCast K]

def aggregateCurrentSim (s : State K) : List K := aggregateCurrent (simT s) (simR s)

def aggregatePowerSim (cfg : Cfg K) (s : State K) : List K := aggregatePower (simT s) (simV cfg) (simR s)

def totalDeliveredSim (s : State K) : K := totalDelivered (histEvs s)

def proportionDeliveredSim (s : State K) : Except Analysis.Err K := proportionDelivered (histEvs s)

def demandsMetSim (s : State K) (thr : K) : Except Analysis.Err K := demandsMet (histEvs s) thr

/-- `datetimes_array(sim)` in minutes on the time axis: one entry per period simulated SO FAR -/
def datetimesSim (start : K) (cfg : Cfg K) (s : State K) : List K := datetimes start cfg.period s.core.iter

def energyCostSim (prices : List K) (cfg : Cfg K) (s : State K) : Except Analysis.Err K :=
  energyCost prices (simT s) (simV cfg) (simR s) cfg.period

def demandChargeSim (dc : K) (cfg : Cfg K) (s : State K) : Except Analysis.Err K :=
  demandCharge dc (simT s) (simV cfg) (simR s)

def constraintCurrentsSim (names : List String) (M : Matrix K) (c sn : List K) (s : State K)
    (req : Option (List String)) : Except Analysis.Err (List (String × List (K × K))) :=
  constraintCurrentsComplex names M c sn (simR s) (simT s) req none

end
end Acn.AnalysisSim
