/-
  The full simulator model over an arbitrary event-queue implementation (`QOps`,
  `AcnModel/EventCoreQ.lean`).  Only the events stage differs from `Sim.lean`; scheduling, pilot
  application, energy and rates are the same functions.  With `heapQ` (CPython's array heap) the
  order in which equal-key events of a period are processed — hence the order of
  `event_history` / `ev_history` and WHICH of two conflicting plug-ins is refused — is exactly the
  real `EventQueue`'s, so the drivers can be compared with the implementation without
  canonicalising ties.
-/
import AcnModel.Sim
import AcnModel.EventCoreQ

namespace Acn.Sim
open Acn Acn.EventCore

section
variable {K : Type} [Add K] [Sub K] [Mul K] [Div K] [Neg K] [LT K] [LE K]
  [DecidableLT K] [DecidableLE K] [OfNat K 0] [OfNat K 1] [NatCast K] [HasExp K]

def initQ (ops : QOps) (cfg : Cfg K) : State K :=
  { init cfg with core := EventCore.initQ ops cfg.core }

def stepEvQ (ops : QOps) (cfg : Cfg K) (e : Event) (s : State K) : State K × Option Err :=
  let r := EventCore.stepQ ops cfg.core e s.core
  let hit : Option Nat :=
    match e.kind, r.2, findSession cfg.core e.sess with
    | .unplug, none, some x => if unplugHits s.core x then some (stationIndex cfg x.station) else none
    | _, _, _ => none
  ({ s with core := r.1,
            evsePilot := match hit with
              | some i => s.evsePilot.set i 0
              | none => s.evsePilot }, r.2)

def processAllQ (ops : QOps) (cfg : Cfg K) : List Event → State K → State K × Option Err
  | [], s => (s, none)
  | e :: es, s =>
    match stepEvQ ops cfg e s with
    | (s2, none) => processAllQ ops cfg es s2
    | (s2, some err) => (s2, some err)

def eventsStageQ (ops : QOps) (cfg : Cfg K) (s : State K) : State K × Option Err :=
  processAllQ ops cfg (ops.pop s.core.iter s.core.pending).1
    { s with core := { s.core with pending := (ops.pop s.core.iter s.core.pending).2 } }

def bodyQ (ops : QOps) (cfg : Cfg K) (sched : View K → Except Err (Schedule K)) (s : State K) :
    State K × Option Err :=
  match eventsStageQ ops cfg s with
  | (s1, some e) => (s1, some e)
  | (s1, none) =>
    if needsSched cfg.maxRecompute s1.core then
      let s1' := { s1 with core := markInvoked s1.core }
      match schedStage cfg sched s1' with
      | .error e => (s1', some e)
      | .ok m => applyStage cfg { s1' with pilots := m, core := markScheduled s1'.core }
    else applyStage cfg s1

def runQ (ops : QOps) (cfg : Cfg K) (sched : View K → Except Err (Schedule K)) :
    Nat → State K → State K × Option Err
  | 0, s => (s, none)
  | n + 1, s =>
    if guard s.core then
      match bodyQ ops cfg sched s with
      | (s', none) => runQ ops cfg sched n s'
      | (s', some e) => (s', some e)
    else (s, none)

end
end Acn.Sim
