/-
  SimResume (C05) — simulations that are INTERRUPTED and RESUMED, and simulations driven by
  `Simulator.step()` for a prefix and then continued with `run()`.  An additive companion of
  `AcnModel/Sim.lean`, `SchedView.lean` and `SimStep.lean`; nothing there is changed.

  * `failAtAny ks sched`   the scheduler that raises (`SchedulerFailed`) when it is entered in one of the
                           periods `ks` and otherwise is `sched` (the harness' `Hooks(fail_at=ks)`: the recording
                           hook has already seen the view when the exception is raised);
  * `runResume`            `run()`; when it aborts with `SchedulerFailed` in a period of `ks`, that period is
                           struck off `ks` and `run()` is called AGAIN on the state the abort left (simulator.py
                           keeps everything mutated before the raise: the period's events are applied, `_resolve`
                           and `_last_schedule_update` are what the events made of them, the call is recorded).
                           A JSON round trip between the abort and the second `run()` is the identity on the model
                           state (C09: `decode_encode`, `crash_json_resume_eq`), so the same function describes
                           `to_json() → Simulator.from_json() → update_scheduler(…) → run()`.
                           Result: the final outcome, EVERY view handed out (the failing calls included), and the
                           states at the aborts;
  * `stepsThenRun`         `Simulator.step(sch)` once per entry of `scheds` (`Sim.steps`, AcnModel/SimStep.lean:
                           stops at the first call that raises), then `runResume`.
-/
import AcnModel.SchedView
import AcnModel.SimStep

namespace Acn.Sim
open Acn Acn.EventCore

section
variable {K : Type} [Add K] [Sub K] [Mul K] [Div K] [Neg K] [LT K] [LE K]
  [DecidableLT K] [DecidableLE K] [OfNat K 0] [OfNat K 1] [NatCast K] [HasExp K]

/-- the scheduler that raises when entered in one of the periods `ks` -/
def failAtAny (ks : List Nat) (sched : View K → Except Err (Schedule K)) : View K → Except Err (Schedule K) :=
  fun v => if ks.contains v.iter then .error .schedulerFailed else sched v

structure Resumed (K : Type) where
  result : State K × Option Err          -- outcome of the LAST `run()` call
  views : List (View K)                  -- every view handed out, all `run()` calls, in call order
  aborts : List (State K)                -- the states left by the aborted `run()` calls

/-- `run()`, resumed after every injected failure (at most `rounds` resumptions) -/
def runResume (cfg : Cfg K) (sched : View K → Except Err (Schedule K)) (fuel : Nat) :
    Nat → List Nat → State K → Resumed K
  | 0, ks, s =>
    { result := run cfg (failAtAny ks sched) fuel s, views := runViews cfg (failAtAny ks sched) fuel s, aborts := [] }
  | r + 1, ks, s =>
    let res := run cfg (failAtAny ks sched) fuel s
    let vs := runViews cfg (failAtAny ks sched) fuel s
    if res.2 = some .schedulerFailed ∧ ks.contains res.1.core.iter = true then
      let rest := runResume cfg sched fuel r (ks.erase res.1.core.iter) res.1
      { result := rest.result, views := vs ++ rest.views, aborts := res.1 :: rest.aborts }
    else { result := res, views := vs, aborts := [] }

structure SteppedRun (K : Type) where
  stepResults : List (Except StepErr Bool × Nat)
  afterSteps : State K
  resumed : Option (Resumed K)           -- `none`: a `step()` call raised, `run()` was not called

/-- a prefix of `step()` calls, then `run()` (resumed after injected failures) -/
def stepsThenRun (cfg : Cfg K) (sched : View K → Except Err (Schedule K)) (fuel : Nat)
    (scheds : List (Schedule K)) (ks : List Nat) (s : State K) : SteppedRun K :=
  let st := steps cfg fuel scheds s
  if st.2.any (fun r => match r.1 with | .error _ => true | .ok _ => false) then
    { stepResults := st.2, afterSteps := st.1, resumed := none }
  else
    { stepResults := st.2, afterSteps := st.1, resumed := some (runResume cfg sched fuel ks.length ks st.1) }

end
end Acn.Sim
