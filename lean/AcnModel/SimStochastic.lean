/-
  SimStochastic — the FULL simulator (`Acn.Sim`: pilot matrix, per-EV energy / rate / battery,
  EVSE pilots, `charging_rates`, peak) running on a `StochasticNetwork` (`Acn.Stoch`) instead of a
  `ChargingNetwork` with pre-assigned stations.

  State: sim-core's `CoreG σ` with `σ = Net × Num K` — the stochastic network (who sits where, the
  waiting queue, every EV's CURRENT `station_id`) and the numeric part of `Sim.State`.
  Nothing numeric is copied from `Sim.lean`: the scheduler stage and the apply stage are `Sim`'s own
  `schedStage` / `applyStage` (`_increase_width`, `update_pilots` = `updatePilotsFrom` / `setPilotAt`
  over the stations in registration order, `_store_actual_charging_rates`), run on the `Sim.State`
  that `toSim` assembles: occupancy of station `st` = the EV that the stochastic network has plugged
  in THERE, every EV record carrying the station id the network gave it (`ev.update_station_id`,
  stochastic_network.py:54, 58, 93).  `EV.fully_charged` (ev.py:116-118) of `post_charging_update`
  (stochastic_network.py:99-110) is COMPUTED from the energies delivered so far
  (`fullOf`: `not (requested - delivered > cfg.fullEps)`, threshold from Gen.Consts via `Sim.Cfg`).
  `EVSE.unplug` resets `_current_pilot` (evse.py:176-185) wherever the network really detaches an
  EV: at a departure that hits (`unplugHit`) and at an early departure.

  The loop is `Acn.EventCore.runGM` (AcnModel/EventCoreGM.lean) with CPython's heap `heapQ`.
  Scheduler, choice stream `cs`, early-departure flag, EVSE kinds, batteries and noise are parameters.
  No Mathlib here.
-/
import AcnModel.EventCoreGM
import AcnModel.StochasticLoop
import AcnModel.Sim

namespace Acn.SimSt
open Acn Acn.EventCore Acn.Stoch

/-- the numeric part of `Sim.State` -/
structure Num (K : Type) where
  pilots : Pilots.Mat K                  -- `pilot_signals`
  rates : Pilots.Mat K                   -- `charging_rates`
  peak : K
  evs : List (Evse.Ev K)                 -- dynamic state of every EV (also after it left)
  evsePilot : List K                     -- `EVSE.current_pilot` per station
  noiseIdx : Nat
  occLog : List (List (Option String))   -- ghost: who sat where while period τ was charged (`Sim.State.occLog`)

abbrev St (K : Type) := Net × Num K

/-- `EVSE.ev` per station as `Sim` wants it (only the session id is ever read) -/
def occOf (net : Net) : String → Option EventCore.Session :=
  fun st => (net.occ st).map fun x => { id := x, station := st, arrival := 0, departure := 0 }

/-- the EV records with the station id the network has given them ("" for Python `None`) -/
def evsAt {K : Type} (net : Net) (evs : List (Evse.Ev K)) : List (Evse.Ev K) :=
  evs.map fun e => { e with station := ((net.ev e.session).station).getD "" }

def numOf {K : Type} (s : Sim.State K) : Num K :=
  { pilots := s.pilots, rates := s.rates, peak := s.peak, evs := s.evs, evsePilot := s.evsePilot,
    noiseIdx := s.noiseIdx, occLog := s.occLog }

/-- the simulator as `Sim`'s stages see it -/
def toSim {K : Type} (g : CoreG (St K)) : Sim.State K :=
  { core := { g.core with occ := occOf g.net.1 }, pilots := g.net.2.pilots, rates := g.net.2.rates,
    peak := g.net.2.peak, evs := evsAt g.net.1 g.net.2.evs, evsePilot := g.net.2.evsePilot,
    noiseIdx := g.net.2.noiseIdx, occLog := g.net.2.occLog }

/-- does `StochasticNetwork.unplug(st?, x)` reach `self._EVSEs[station_id].unplug()`
    (stochastic_network.py:75-90)?  If so, at which station. -/
def unplugHit (s : Net) (st? : Option Station) (x : Sess) : Option Station :=
  if x ∈ s.waiting then none
  else
    match st? with
    | none => none
    | some st =>
      if st ∈ s.stations then
        match s.occ st with
        | some z => if x = z then some st else none
        | none => none
      else none

section
variable {K : Type} [Add K] [Sub K] [Mul K] [Div K] [Neg K] [LT K] [LE K]
  [DecidableLT K] [DecidableLE K] [OfNat K 0] [OfNat K 1] [NatCast K] [HasExp K]

/-- `EVSE.unplug`: `_current_pilot = 0` (evse.py:185) -/
def resetPilot (cfg : Sim.Cfg K) (num : Num K) : Option Station → Num K
  | some st => { num with evsePilot := num.evsePilot.set (Sim.stationIndex cfg st) 0 }
  | none => num

/-- `network.plugin(ev)` / `network.unplug(ev.station_id, ev.session_id)` of `_process_event` -/
def netOps (cs : Nat → Nat) (cfg : Sim.Cfg K) : NetOps (St K) where
  plugin := fun s x => ((((stochasticNet cs).plugin s.1 x).1, s.2), ((stochasticNet cs).plugin s.1 x).2)
  unplug := fun s x =>
    ((((stochasticNet cs).unplug s.1 x).1,
      resetPilot cfg s.2 (unplugHit s.1 (s.1.ev x.id).station x.id)),
     ((stochasticNet cs).unplug s.1 x).2)

/-- `scheduler.run()`; `_update_schedules` (simulator.py:126-127) — `Sim.schedStage` -/
def schedS (cfg : Sim.Cfg K) (sched : Sim.View K → Except EventCore.Err (Sim.Schedule K)) (g : CoreG (St K)) :
    St K × Option EventCore.Err :=
  match Sim.schedStage cfg sched (toSim g) with
  | .error e => (g.net, some e)
  | .ok m => ((g.net.1, { g.net.2 with pilots := m }), none)

/-- simulator.py:132-138 — `Sim.applyStage` (its `iteration += 1` is done by the loop, after
    `post_charging_update`) -/
def applyS (cfg : Sim.Cfg K) (g : CoreG (St K)) : St K × Option EventCore.Err :=
  ((g.net.1, numOf (Sim.applyStage cfg (toSim g)).1), (Sim.applyStage cfg (toSim g)).2)

/-- `ev.fully_charged` read off the energies delivered so far -/
def fullOf (cfg : Sim.Cfg K) (num : Num K) (x : Sess) : Bool :=
  match num.evs.find? (fun e => e.session == x) with
  | some e => !Sim.isActive cfg e
  | none => false

/-- loop body of `post_charging_update` (stochastic_network.py:107-110) with the EVSE's pilot reset -/
def earlyStepS (cfg : Sim.Cfg K) (sp : St K) (x : Sess) : Except Stoch.Err (St K) :=
  match sp.1.earlyStep x with
  | .error e => .error e
  | .ok s1 =>
    .ok (s1, if sp.1.waiting.isEmpty then sp.2
             else resetPilot cfg sp.2 (unplugHit sp.1 (sp.1.ev x).station x))

def postNet (cfg : Sim.Cfg K) (sp : St K) : Except Stoch.Err (St K) :=
  if sp.1.earlyDeparture then (sp.1.fullyCharged (fullOf cfg sp.2)).foldlM (earlyStepS cfg) sp
  else pure sp

/-- `network.post_charging_update()` (simulator.py:139) -/
def postS (cfg : Sim.Cfg K) (_t : Nat) (sp : St K) : St K × Option EventCore.Err :=
  match postNet cfg sp with
  | .ok s' => (s', none)
  | .error e => (sp, some (convErr e))

/-- `Simulator(network, scheduler, events, …)` with a fresh `StochasticNetwork(early_departure=early)` -/
def init (cfg : Sim.Cfg K) (early : Bool) : CoreG (St K) :=
  initG heapQ cfg.core (net0 cfg.core early, numOf (Sim.init cfg))

def body (cs : Nat → Nat) (cfg : Sim.Cfg K) (sched : Sim.View K → Except EventCore.Err (Sim.Schedule K)) :
    CoreG (St K) → CoreG (St K) × Option EventCore.Err :=
  bodyGM heapQ (netOps cs cfg) (postS cfg) cfg.core (schedS cfg sched) (applyS cfg)

/-- `Simulator.run()` with fuel -/
def run (cs : Nat → Nat) (cfg : Sim.Cfg K) (sched : Sim.View K → Except EventCore.Err (Sim.Schedule K)) :
    Nat → CoreG (St K) → CoreG (St K) × Option EventCore.Err :=
  runGM heapQ (netOps cs cfg) (postS cfg) cfg.core (schedS cfg sched) (applyS cfg)

/-- the EV record of session `x` -/
def evOf (g : CoreG (St K)) (x : Sess) : Option (Evse.Ev K) := g.net.2.evs.find? (fun e => e.session == x)

/-! ### the abstract ledger of `StochasticLoop.lean`, instantiated

  `Ledger.charge t net l` sees the period, the network and the ledger, cannot raise and does not see
  `_resolve`; so this instance covers the APPLY stage only, for a pilot matrix that is part of the
  ledger from the start (any matrix: whatever schedules were written into it), and an apply stage
  that raises (`InvalidRateError`, …) freezes the ledger (`err`).  The run with the scheduler stage
  inside and exact error behaviour is `run` above. -/

structure ApplyLedger (K : Type) where
  num : Num K
  err : Option (Nat × EventCore.Err)               -- period and class of the first raise

def applyLedger (cfg : Sim.Cfg K) : Ledger (ApplyLedger K) where
  charge := fun t net l =>
    match l.err with
    | some _ => l
    | none =>
      let g : CoreG (St K) := { core := { EventCore.init cfg.core with iter := t, pending := [] }, net := (net, l.num) }
      match applyS cfg g with
      | (s, none) => { num := s.2, err := none }
      | (s, some e) => { num := s.2, err := some (t, e) }
  full := fun l x => fullOf cfg l.num x

end
end Acn.SimSt
