/-
  The pilot-signal matrix of the simulator — transcription of
  `_increase_width` (simulator.py:537-552), `Simulator._update_schedules`
  (simulator.py:230-301) without the feasibility warning (simulator.py:264-282: it only
  warns, no effect on state), the growth done by `run()` in every period
  (simulator.py:135-140) and the column read by `ChargingNetwork.update_pilots`
  (charging_network.py:403-428).

  A matrix is a list of rows (one per station, in `network.station_ids` order), all of the same
  width.  A schedule is an association list `station ↦ row` in the dict's insertion order
  (a Python dict: keys are pairwise distinct).

  The values are never computed with: every definition works for any carrier `K` with a zero.
  Also here: the SPECIFICATION `pilotAt` of property C04 (so that the driver can execute it
  next to the matrix operations).
-/
import AcnModel.Num

namespace Acn.Pilots
open Acn

abbrev Matrix (K : Type) := List (List K)

inductive Err | keyError | invalidSchedule
  deriving DecidableEq, Repr

/-- A schedule as handed to `_update_schedules`: dict `station ↦ list of pilots`, in insertion order. -/
abbrev Sched (K : Type) := List (String × List K)

section
variable {K : Type} [OfNat K 0]

/-- width of the matrix = numpy `shape[1]`; kept explicitly because a matrix with no
    rows (a network without stations) still has a width. -/
structure Mat (K : Type) where
  rows : List (List K)
  width : Nat

/-- `np.zeros((n, w))` (simulator.py:66) -/
def Mat.zeros (n w : Nat) : Mat K := ⟨List.replicate n (List.replicate w 0), w⟩

/-- read through `getD … 0`: growth is invisible to readers -/
def Mat.get (m : Mat K) (i t : Nat) : K := (m.rows.getD i []).getD t 0

/-- the shape invariant of `pilot_signals`: `n` rows, each exactly `width` long -/
def Mat.WF (n : Nat) (m : Mat K) : Prop := m.rows.length = n ∧ ∀ r ∈ m.rows, r.length = m.width

/-- simulator.py:537-552: `if target_width <= a.shape[1]: return a`; otherwise a fresh zero
    matrix of the target width whose first `a.shape[1]` columns are `a`. -/
def increaseWidth (m : Mat K) (target : Nat) : Mat K :=
  if target ≤ m.width then m
  else ⟨m.rows.map (fun r => r ++ List.replicate (target - r.length) 0), target⟩

/-- overwrite `row[t ..< t+blk.length]` with `blk` (numpy slice assignment; the caller has
    made the row wide enough) -/
def writeRow (row : List K) (t : Nat) (blk : List K) : List K :=
  row.take t ++ blk ++ row.drop (t + blk.length)

/-- `pilot_signals[:, t : t+len] = schedule_matrix` (simulator.py:284-286, 298-300) -/
def writeBlock (m : Mat K) (t : Nat) (dense : List (List K)) : Mat K :=
  ⟨List.zipWith (fun row blk => writeRow row t blk) m.rows dense, m.width⟩

/-- dense schedule matrix in station order, zero rows for omitted stations
    (simulator.py:256-263) -/
def densify (stations : List String) (sched : Sched K) (len : Nat) : List (List K) :=
  stations.map fun st =>
    match sched.lookup st with
    | some row => row
    | none => List.replicate len 0

/-- more than one distinct row length?  (simulator.py:251-253: `len(set(len(x) …)) > 1`) -/
def ragged (sched : Sched K) : Bool :=
  match sched with
  | [] => false
  | (_, r) :: rest => rest.any (fun p => p.2.length != r.length)

/-- `schedule_lengths.pop()` (simulator.py:254) for a non-ragged schedule; 0 for `{}` -/
def schedLen (sched : Sched K) : Nat :=
  match sched with
  | [] => 0
  | (_, r) :: _ => r.length

/-- some key of the schedule is not a registered station (simulator.py:243-249) -/
def unknownStation (stations : List String) (sched : Sched K) : Bool :=
  sched.any (fun p => !stations.contains p.1)

/-- the target of the growth inside `_update_schedules` (simulator.py:289-296, after the fix of
    F2: an empty queue counts as horizon 0) -/
def growTarget (t : Nat) (lastTs : Option Nat) (len : Nat) : Nat :=
  Nat.max (match lastTs with | some l => l + 1 | none => 0) (t + len)

/-- simulator.py:230-301.  `t` = current iteration, `lastTs` = `event_queue.get_last_timestamp()`
    (`none` when the queue is empty).  Order of checks as in the source:
    empty ⇒ no-op; unknown station ⇒ KeyError; unequal lengths ⇒ InvalidSchedule; densify;
    grow if `t + len > width`; block write. -/
def updateSchedules (stations : List String) (m : Mat K) (t : Nat) (lastTs : Option Nat)
    (sched : Sched K) : Except Err (Mat K) :=
  match sched with
  | [] => .ok m
  | (_, r0) :: _ =>
    if unknownStation stations sched then .error .keyError
    else if ragged sched then .error .invalidSchedule
    else
      let len := r0.length
      let dense := densify stations sched len
      let m' :=
        if t + len ≤ m.width then m
        else increaseWidth m (growTarget t lastTs len)
      .ok (writeBlock m' t dense)

/-! ### what `run()` does with the matrix in every period -/

/-- simulator.py:135-138: `get_last_timestamp() + 1` if the queue is not empty else `iteration + 1` -/
def runWidth (t : Nat) (lastTs : Option Nat) : Nat :=
  match lastTs with
  | some l => l + 1
  | none => t + 1

/-- simulator.py:139 -/
def runGrow (m : Mat K) (t : Nat) (lastTs : Option Nat) : Mat K :=
  increaseWidth m (runWidth t lastTs)

/-- charging_network.py:423-428: `pilots[station_number, i]` for every station, in station order;
    `none` stands for numpy's `IndexError` (column `t` does not exist). -/
def appliedColumn (m : Mat K) (t : Nat) : Option (List K) :=
  m.rows.mapM (fun r => r[t]?)

/-- A submission: `_update_schedules(sched)` called while `_iteration = t` and
    `event_queue.get_last_timestamp() = lastTs`. -/
structure Submission (K : Type) where
  t : Nat
  lastTs : Option Nat
  sched : Sched K

/-- state after a submission; a rejected one raises, i.e. produces no new state -/
def submit (stations : List String) (m : Mat K) (s : Submission K) : Mat K :=
  match updateSchedules stations m s.t s.lastTs s.sched with
  | .ok m' => m'
  | .error _ => m

/-- One trip round the loop of `run()` as far as the pilot matrix is concerned. -/
structure Period (K : Type) where
  t : Nat
  /-- `get_last_timestamp()` after this period's events have been processed -/
  lastTs : Option Nat
  /-- `some sched` iff the scheduler was called in this period -/
  sched : Option (Sched K)

inductive RunErr | sched (e : Err) | indexError
  deriving DecidableEq, Repr

/-- simulator.py:124-141: optional `_update_schedules`, growth, column `t` goes to the EVSEs.
    Returns the new matrix and the applied column. -/
def periodStep (stations : List String) (m : Mat K) (p : Period K) : Except RunErr (Mat K × List K) :=
  let m1 : Except RunErr (Mat K) :=
    match p.sched with
    | none => .ok m
    | some s =>
      match updateSchedules stations m p.t p.lastTs s with
      | .ok m' => .ok m'
      | .error e => .error (.sched e)
  match m1 with
  | .error e => .error e
  | .ok m1 =>
    let m2 := runGrow m1 p.t p.lastTs
    match appliedColumn m2 p.t with
    | some col => .ok (m2, col)
    | none => .error .indexError

/-- all periods of a run; the log holds the applied column of every period -/
def runPeriods (stations : List String) (m : Mat K) : List (Period K) → Except RunErr (Mat K × List (List K))
  | [] => .ok (m, [])
  | p :: ps =>
    match periodStep stations m p with
    | .error e => .error e
    | .ok (m', col) =>
      match runPeriods stations m' ps with
      | .error e => .error e
      | .ok (m'', cols) => .ok (m'', col :: cols)

/-! ### `step()` and arbitrary growth -/

/-- simulator.py:173-178 (`step`): `max(get_last_timestamp() + 1, iteration + 1)`, or `iteration + 1`
    when the queue is empty -/
def stepWidth (t : Nat) (lastTs : Option Nat) : Nat :=
  match lastTs with
  | some l => Nat.max (l + 1) (t + 1)
  | none => t + 1

/-- `periodStep` with the growth target as a parameter: optional `_update_schedules`, growth to
    `target`, column `t`.  `run()` uses `runWidth`, `step()` uses `stepWidth`. -/
def periodStepW (stations : List String) (m : Mat K) (p : Period K) (target : Nat) :
    Except RunErr (Mat K × List K) :=
  let m1 : Except RunErr (Mat K) :=
    match p.sched with
    | none => .ok m
    | some s =>
      match updateSchedules stations m p.t p.lastTs s with
      | .ok m' => .ok m'
      | .error e => .error (.sched e)
  match m1 with
  | .error e => .error e
  | .ok m1 =>
    let m2 := increaseWidth m1 target
    match appliedColumn m2 p.t with
    | some col => .ok (m2, col)
    | none => .error .indexError

/-- a sequence of loop trips (of `run()`, of `step()`, mixed), each with its own growth target -/
def runTrips (stations : List String) (m : Mat K) :
    List (Period K × Nat) → Except RunErr (Mat K × List (List K))
  | [] => .ok (m, [])
  | (p, w) :: ps =>
    match periodStepW stations m p w with
    | .error e => .error e
    | .ok (m', col) =>
      match runTrips stations m' ps with
      | .error e => .error e
      | .ok (m'', cols) => .ok (m'', col :: cols)

/-- the loop trips of `run()` -/
def tripsOfRun (ps : List (Period K)) : List (Period K × Nat) :=
  ps.map fun p => (p, runWidth p.t p.lastTs)

/-- simulator.py:160-188: one call `step(sched)` makes a loop trip at each `(t, lastTs)` of `its`
    (how many there are is decided by the queue, `_resolve` and `max_recompute`: the event core's
    business) and applies the SAME schedule in each. -/
def tripsOfStep (sched : Sched K) (its : List (Nat × Option Nat)) : List (Period K × Nat) :=
  its.map fun it => (⟨it.1, it.2, some sched⟩, stepWidth it.1 it.2)

/-- a step-driven simulation: a list of `step(sched)` calls -/
def tripsOfSteps (calls : List (Sched K × List (Nat × Option Nat))) : List (Period K × Nat) :=
  calls.flatMap fun c => tripsOfStep c.1 c.2

/-! ### the scheduling step of `run()` and the state it touches -/

/-- what simulator.py:124-131 reads and writes: the matrix, `_resolve`, `_last_schedule_update`,
    `schedule_history` (a dict: a later entry for the same period wins) -/
structure SchedState (K : Type) where
  m : Mat K
  resolve : Bool
  lastUpdate : Option Nat
  history : List (Nat × Sched K)

/-- simulator.py:116-123: is the scheduler to be called in period `t`? -/
def mustSchedule (s : SchedState K) (t : Nat) (maxRecompute : Option Nat) : Bool :=
  s.resolve ||
    match maxRecompute with
    | none => false
    | some k =>
      match s.lastUpdate with
      | none => true
      | some u => decide (t - u ≥ k)

/-- simulator.py:124-131: `_update_schedules(new_schedule)`; only if it returns are the schedule
    stored, `_last_schedule_update` set and `_resolve` cleared. -/
def schedStep (stations : List String) (s : SchedState K) (t : Nat) (lastTs : Option Nat)
    (sched : Sched K) : Except Err (SchedState K) :=
  match updateSchedules stations s.m t lastTs sched with
  | .error e => .error e
  | .ok m' => .ok ⟨m', false, some t, s.history ++ [(t, sched)]⟩

/-- what the simulator holds afterwards: the new state, or — the exception having propagated out of
    `run()` — the old one -/
def schedStepState (stations : List String) (s : SchedState K) (t : Nat) (lastTs : Option Nat)
    (sched : Sched K) : SchedState K :=
  match schedStep stations s t lastTs sched with
  | .ok s' => s'
  | .error _ => s

/-! ### what a scheduler sees of earlier pilots -/

/-- interface.py:348-369 `Interface.last_applied_pilot_signals`: with `i = iteration − 1`, if `i > 0`
    the dict `session ↦ pilot_signals[index_of_evse(station), i]` over the active EVs
    `(session, station, arrival)` with `arrival ≤ i`, else `{}`.  `none` stands for the KeyError of
    `index_of_evse` / numpy's IndexError. -/
def lastApplied (stations : List String) (m : Mat K) (iteration : Nat)
    (active : List (String × String × Nat)) : Option (List (String × K)) :=
  if iteration ≤ 1 then some []      -- `i > 0` fails for iteration 0 (i = −1) and 1 (i = 0)
  else
    let i := iteration - 1
    (active.filter fun a => decide (a.2.2 ≤ i)).mapM fun a =>
      if stations.contains a.2.1 then
        match m.rows[stations.idxOf a.2.1]? with
        | some r => (r[i]?).map fun x => (a.1, x)
        | none => none
      else none

/-- the submissions made in a list of periods -/
def subsOf (ps : List (Period K)) : List (Submission K) :=
  ps.filterMap fun p => p.sched.map fun s => ⟨p.t, p.lastTs, s⟩

/-! ### the specification of C04 -/

/-- a schedule `_update_schedules` accepts and acts on: non-empty, known stations, equal lengths -/
def accepted (stations : List String) (sched : Sched K) : Bool :=
  !sched.isEmpty && !unknownStation stations sched && !ragged sched

/-- submission `s` is accepted and speaks about period `τ` -/
def covers (stations : List String) (s : Submission K) (τ : Nat) : Bool :=
  accepted stations s.sched && decide (s.t ≤ τ) && decide (τ < s.t + schedLen s.sched)

/-- what submission `s` says about station `st` in period `τ`: its entry, 0 if the station is omitted -/
def valueOf (s : Submission K) (st : String) (τ : Nat) : K :=
  match s.sched.lookup st with
  | some row => row.getD (τ - s.t) 0
  | none => 0

/-- value given by the LATEST accepted submission covering `τ`, else `base` -/
def pilotFrom (stations : List String) (base : K) (subs : List (Submission K)) (st : String) (τ : Nat) : K :=
  match subs.reverse.find? (fun s => covers stations s τ) with
  | some s => valueOf s st τ
  | none => base

/-- SPEC of C04: the pilot of station `st` in period `τ` after the submissions `subs`
    (in the order they were made), starting from the all-zero matrix. -/
def pilotAt (stations : List String) (subs : List (Submission K)) (st : String) (τ : Nat) : K :=
  pilotFrom stations 0 subs st τ

end
end Acn.Pilots
