/-
  The pilot-signal matrix of the simulator — transcription of
  `_increase_width` (simulator.py:537-552) and `Simulator._update_schedules`
  (simulator.py:240-301) without the feasibility warning (which has no effect on state).

  A matrix is a list of rows (one per station, in `network.station_ids` order), all of the same
  width.  A schedule is an association list `station ↦ row` in the dict's insertion order.
-/
import AcnModel.Num

namespace Acn.Pilots
open Acn

abbrev Matrix (K : Type) := List (List K)

inductive Err | keyError | invalidSchedule
  deriving DecidableEq, Repr

section
variable {K : Type} [OfNat K 0]

/-- width of the matrix = length of its first row (numpy `shape[1]`); a matrix with no
    rows is given an explicit width by the caller, see `Mat`. -/
structure Mat (K : Type) where
  rows : List (List K)
  width : Nat

def Mat.zeros (n w : Nat) : Mat K := ⟨List.replicate n (List.replicate w 0), w⟩

/-- read through `getD … 0`: growth is invisible to readers -/
def Mat.get (m : Mat K) (i t : Nat) : K := (m.rows.getD i []).getD t 0

/-- simulator.py:537-552 -/
def increaseWidth (m : Mat K) (target : Nat) : Mat K :=
  if target ≤ m.width then m
  else ⟨m.rows.map (fun r => r ++ List.replicate (target - r.length) 0), target⟩

/-- overwrite `row[t ..< t+blk.length]` with `blk` (numpy slice assignment; the caller has
    made the row wide enough) -/
def writeRow (row : List K) (t : Nat) (blk : List K) : List K :=
  row.take t ++ blk ++ row.drop (t + blk.length)

/-- dense schedule matrix in station order, zero rows for omitted stations
    (simulator.py:256-263) -/
def densify (stations : List String) (sched : List (String × List K)) (len : Nat) : List (List K) :=
  stations.map fun st =>
    match sched.lookup st with
    | some row => row
    | none => List.replicate len 0

/-- number of distinct row lengths > 1 ? (simulator.py:252-254) -/
def ragged (sched : List (String × List K)) : Bool :=
  match sched with
  | [] => false
  | (_, r) :: rest => rest.any (fun p => p.2.length != r.length)

/-- simulator.py:240-301.  `t` = current iteration, `lastTs` = `event_queue.get_last_timestamp()`
    (`none` when the queue is empty). -/
def updateSchedules (stations : List String) (m : Mat K) (t : Nat) (lastTs : Option Nat)
    (sched : List (String × List K)) : Except Err (Mat K) :=
  match sched with
  | [] => .ok m
  | (_, r0) :: _ =>
    if sched.any (fun p => !stations.contains p.1) then .error .keyError
    else if ragged sched then .error .invalidSchedule
    else
      let len := r0.length
      let dense := densify stations sched len
      let m' :=
        if t + len ≤ m.width then m
        else increaseWidth m (Nat.max (match lastTs with | some l => l + 1 | none => 0) (t + len))
      .ok ⟨List.zipWith (fun row blk => writeRow row t blk) m'.rows dense, m'.width⟩

end
end Acn.Pilots
