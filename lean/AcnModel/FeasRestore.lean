/-
  Save / restore of the network the feasibility checks live on — transcription of
    * `ChargingNetwork._to_dict`    (acnsim/network/charging_network.py:547-582)
    * `ChargingNetwork._from_dict`  (acnsim/network/charging_network.py:585-648)
  as far as `ChargingNetwork.is_feasible` / `constraint_current`, `Interface.is_feasible` and
  `Interface.infrastructure_info` read the restored object (`Simulator.from_json` restores its
  `network` attribute through the same pair, simulator.py `_to_dict` / `_from_dict`).

  The document stores every station-indexed ARRAY positionally (`_voltages`, `_phase_angles`,
  the columns of `constraint_matrix`), and the station ORDER only once, as the order of the keys
  of the `_EVSEs` object.  `_from_dict` rebuilds `station_ids` from that key order, so the
  restored network describes the same stations exactly when the key order of the document is
  the registration order (see `AcnProofs/Lemmas/FeasRestore.lean`).
-/
import AcnModel.Feas

namespace Acn.Feas

/-- the JSON document of a `ChargingNetwork` (its `args` part), restricted to the attributes the
    feasibility checks read back -/
structure NetDoc (K : Type) where
  vt : K                                      -- "violation_tolerance"
  rt : K                                      -- "relative_tolerance"
  constraintMatrix : Option (List (List K))   -- "constraint_matrix": `ndarray.tolist()` or `null`;
                                              --   a matrix without rows is written as `[]`
  magnitudes : List K                         -- "magnitudes"
  voltages : List K                           -- "_voltages"
  c : List K                                  -- "_phase_angles" (carried as unit phasors, as in `Net`)
  s : List K
  constraintIndex : List String               -- "constraint_index"
  evses : List String                         -- keys of the "_EVSEs" object IN DOCUMENT ORDER (the
                                              --   values are registry ids of the EVSE objects,
                                              --   which the feasibility checks never read)

variable {K : Type}

/-- `ChargingNetwork._to_dict` (charging_network.py:547-582): `_EVSEs` is written by iterating the
    dict, i.e. in registration order; the arrays as they are. -/
def Net.toDoc (net : Net K) : NetDoc K :=
  { vt := net.vt, rt := net.rt, constraintMatrix := net.matrix.map (·.rows), magnitudes := net.lims,
    voltages := net.voltages, c := net.c, s := net.s, constraintIndex := net.cids,
    evses := net.stations }

/-- `ChargingNetwork._from_dict` (charging_network.py:585-648): the constructor receives the two
    tolerances; `_EVSEs` is rebuilt in the order of the document's keys (so `station_ids` IS that
    order); `np.array(constraint_matrix)` has the shape `(rows, len(rows[0]))`, and a row-less
    matrix (`ndim ≠ 2`) is reshaped to `(0, len(evses))` (lines 606-614); `null` stays `None`. -/
def NetDoc.toNet (d : NetDoc K) : Net K :=
  { stations := d.evses, c := d.c, s := d.s, voltages := d.voltages,
    matrix := d.constraintMatrix.map fun rows =>
      match rows with
      | [] => { cols := d.evses.length, rows := [] }
      | r :: _ => { cols := r.length, rows := rows },
    lims := d.magnitudes, cids := d.constraintIndex, vt := d.vt, rt := d.rt }

/-- `ChargingNetwork.from_json(net.to_json())` -/
def Net.restore (net : Net K) : Net K := net.toDoc.toNet

/-- `n` save/restore round trips in a row -/
def Net.restoreN : Nat → Net K → Net K
  | 0, net => net
  | n + 1, net => Net.restoreN n net.restore

end Acn.Feas
