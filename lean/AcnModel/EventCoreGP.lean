/-
  `bodyG` / `runG` (`AcnModel/EventCoreG.lean`) with the per-period hook
  `self.network.post_charging_update()` (simulator.py:140) as a parameter
  `post : Nat → σ → σ × Option Err` (period ↦ network-state transformer that may raise).
  `noPost` is `ChargingNetwork.post_charging_update` (`pass`): with it `bodyGP` is `bodyG`.
  (Adopted from stoch-c19's `AcnModel/StochasticLoop.lean`, same definitions, so that the loop
  proof lives in one place.)
-/
import AcnModel.EventCoreG

namespace Acn.EventCore
open Acn

section
variable {σ : Type}

/-- `ChargingNetwork.post_charging_update`: nothing -/
def noPost : Nat → σ → σ × Option Err := fun _ s => (s, none)

/-- one trip round the loop including `self.network.post_charging_update()` -/
def bodyGP (ops : QOps) (net : NetOps σ) (post : Nat → σ → σ × Option Err) (cfg : Cfg)
    (sched apply : CoreG σ → Option Err) (g : CoreG σ) : CoreG σ × Option Err :=
  match bodyG ops net cfg sched apply g with
  | (g', some e) => (g', some e)
  | (g', none) =>
    match post g.core.iter g'.net with
    | (n', none) => ({ g' with net := n' }, none)
    | (n', some e) => ({ g' with net := n' }, some e)

def runGP (ops : QOps) (net : NetOps σ) (post : Nat → σ → σ × Option Err) (cfg : Cfg)
    (sched apply : CoreG σ → Option Err) : Nat → CoreG σ → CoreG σ × Option Err
  | 0, g => (g, none)
  | n + 1, g =>
    if guard g.core then
      match bodyGP ops net post cfg sched apply g with
      | (g', none) => runGP ops net post cfg sched apply n g'
      | (g', some e) => (g', some e)
    else (g, none)

end
end Acn.EventCore
