/-
  JsonText — the TEXT layer of `to_json` / `from_json` (acnportal/acnsim/base.py:225-268 `json.dumps(registry,
  cls=NpEncoder)`, base.py:540-545 `json.loads`): a model of what CPython's `json` module does to the values
  that occur in a registry — `None`, `bool`, `int`, `float`, `str`, `list`, `dict` with `str` keys.

    json/encoder.py  `py_encode_basestring_ascii` (ensure_ascii=True, the default): `"` ↦ `\"`, `\` ↦ `\\`,
                     `\n \r \t \b \f` ↦ their two-character escapes, every other character outside `' '..'~'`
                     ↦ `\uXXXX` (lower-case hex; a UTF-16 surrogate pair above U+FFFF)            = `escChar`
    json/encoder.py  `_make_iterencode`: `null` / `true` / `false`, `int.__repr__`, `float.__repr__` (with
                     `NaN` / `Infinity` / `-Infinity`), item separator `", "`, key separator `": "`  = `render`
    json/decoder.py  `py_scanstring` (strict): the inverse escapes, `\/`, upper- or lower-case hex, surrogate
                     pairs recombined, raw control characters refused                              = `scanStr`
    json/scanner.py  `py_make_scanner`: dispatch on the first character, `-?digits` is an `int`, any other
                     number text a `float`                                                         = `parseVal`

  A Python `float` is carried as its TEXT (`JVal.num tok`): which text `float.__repr__` produces and that
  `float()` reads it back is the one assumption about doubles (`DoubleText.RoundTrip` in
  `AcnModel/RegistryJson.lean`); here only its lexical shape matters (`isFloatTok`).

  The parser accepts a superset of JSON (leading zeros, `+`, any mix of number characters that is not an
  integer text is handed to the float reader); what is PROVED about it is `parse (render v) = some v`
  (`AcnProofs/Lemmas/JsonText*.lean`), not that it rejects what `json.loads` rejects.  A lone surrogate
  escape (`"\ud800"`) has no Lean `Char`; the parser refuses it (Python builds a one-code-unit string).
-/
namespace Acn.JsonText

/-- what `json.dumps` accepts and `json.loads` returns (dict keys are `str`, in insertion order) -/
inductive JVal
  | null
  | bool (b : Bool)
  | int (n : Int)
  | num (tok : List Char)
  | str (s : String)
  | arr (l : List JVal)
  | obj (l : List (String × JVal))
  deriving Repr, Inhabited

/-! ### strings -/

/-- value of a hex digit, either case (decoder.py `int(esc, 16)`) -/
def hexVal (c : Char) : Option Nat :=
  if 48 ≤ c.toNat ∧ c.toNat ≤ 57 then some (c.toNat - 48)
  else if 97 ≤ c.toNat ∧ c.toNat ≤ 102 then some (c.toNat - 87)
  else if 65 ≤ c.toNat ∧ c.toNat ≤ 70 then some (c.toNat - 55)
  else none

def hex4 (a b c d : Char) : Option Nat :=
  match hexVal a, hexVal b, hexVal c, hexVal d with
  | some x, some y, some z, some w => some (x * 4096 + y * 256 + z * 16 + w)
  | _, _, _, _ => none

/-- `'\\u{0:04x}'.format(n)` for `n < 0x10000` -/
def u4 (n : Nat) : List Char :=
  ['\\', 'u', Nat.digitChar (n / 4096 % 16), Nat.digitChar (n / 256 % 16), Nat.digitChar (n / 16 % 16),
   Nat.digitChar (n % 16)]

/-- encoder.py `ESCAPE_ASCII` / `ESCAPE_DCT` / `replace` -/
def escChar (c : Char) : List Char :=
  if c = '"' then ['\\', '"']
  else if c = '\\' then ['\\', '\\']
  else if c = '\n' then ['\\', 'n']
  else if c = '\r' then ['\\', 'r']
  else if c = '\t' then ['\\', 't']
  else if c = '\x08' then ['\\', 'b']
  else if c = '\x0c' then ['\\', 'f']
  else if 0x20 ≤ c.toNat ∧ c.toNat ≤ 0x7e then [c]
  else if c.toNat < 0x10000 then u4 c.toNat
  else u4 (0xd800 + (c.toNat - 0x10000) / 1024) ++ u4 (0xdc00 + (c.toNat - 0x10000) % 1024)

def escape (s : List Char) : List Char := s.flatMap escChar

/-- `json.dumps(s)` for a `str` -/
def renderStr (s : List Char) : List Char := '"' :: (escape s ++ ['"'])

/-- decoder.py `BACKSLASH` -/
def unescSimple (c : Char) : Option Char :=
  if c = '"' then some '"' else if c = '\\' then some '\\' else if c = '/' then some '/'
  else if c = 'b' then some '\x08' else if c = 'f' then some '\x0c' else if c = 'n' then some '\n'
  else if c = 'r' then some '\r' else if c = 't' then some '\t' else none

def consTo (c : Char) : Option (List Char × List Char) → Option (List Char × List Char)
  | some (s, r) => some (c :: s, r)
  | none => none

/-- `py_scanstring` from just after the opening quote: the decoded characters and the text after the
    closing quote.  `pend` = a high surrogate read by the previous `\uXXXX` that still waits for its partner. -/
def scanStr : Option Nat → List Char → Option (List Char × List Char)
  | _, [] => none
  | pend, c :: rest =>
    if c = '\\' then
      match rest with
      | [] => none
      | e :: rest1 =>
        if e = 'u' then
          match rest1 with
          | a :: b :: c' :: d :: rest2 =>
            match hex4 a b c' d with
            | none => none
            | some n =>
              match pend with
              | some hi =>
                if 0xdc00 ≤ n ∧ n ≤ 0xdfff then
                  consTo (Char.ofNat (0x10000 + (hi - 0xd800) * 1024 + (n - 0xdc00))) (scanStr none rest2)
                else none
              | none =>
                if 0xd800 ≤ n ∧ n ≤ 0xdbff then scanStr (some n) rest2
                else if 0xdc00 ≤ n ∧ n ≤ 0xdfff then none
                else consTo (Char.ofNat n) (scanStr none rest2)
          | _ => none
        else
          match pend, unescSimple e with
          | none, some ch => consTo ch (scanStr none rest1)
          | _, _ => none
    else if pend.isSome then none
    else if c = '"' then some ([], rest)
    else if c.toNat < 0x20 then none
    else consTo c (scanStr none rest)

/-! ### numbers -/

/-- `int.__repr__`: decimal digits, `-` in front of a negative number -/
def renderInt (n : Int) : List Char := (toString n).toList

/-- the characters of number texts: digits, sign, point, exponent, and the letters of `NaN` / `Infinity` -/
def isNumChar (c : Char) : Bool :=
  c.isDigit || c = '-' || c = '+' || c = '.' || c = 'e' || c = 'E' || c = 'N' || c = 'a' || c = 'I' || c = 'n' ||
  c = 'f' || c = 'i' || c = 't' || c = 'y'

/-- scanner.py `NUMBER_RE` with neither fraction nor exponent: `-?digits` -/
def isIntTok (t : List Char) : Bool :=
  match t with
  | [] => false
  | c :: ds => if c = '-' then (!ds.isEmpty && ds.all Char.isDigit) else (c :: ds).all Char.isDigit

def natOfDigits (ds : List Char) : Nat := ds.foldl (fun a c => 10 * a + (c.toNat - 48)) 0

/-- `int(text)` -/
def intOfTok (t : List Char) : Int :=
  match t with
  | [] => 0
  | c :: ds => if c = '-' then - (natOfDigits ds : Int) else (natOfDigits (c :: ds) : Int)

def startsNum (t : List Char) : Bool :=
  match t with
  | [] => false
  | c :: _ => c.isDigit || c = '-' || c = 'N' || c = 'I'

/-- the lexical shape of a `float` in a document: number characters only, starts like a number / `NaN` /
    `Infinity`, and is NOT an integer text (`float.__repr__` always has a `.`, an `e`, or is inf / nan —
    that is what keeps a `float` a `float` and an `int` an `int` across the round trip) -/
def isFloatTok (t : List Char) : Bool := t.all isNumChar && startsNum t && !isIntTok t

/-! ### documents -/

def isWs (c : Char) : Bool := c = ' ' || c = '\n' || c = '\r' || c = '\t'

def skipWs : List Char → List Char
  | [] => []
  | c :: r => if isWs c then skipWs r else c :: r

mutual
/-- `json.dumps(v)` with the default separators -/
def render : JVal → List Char
  | .null => ['n', 'u', 'l', 'l']
  | .bool b => if b then ['t', 'r', 'u', 'e'] else ['f', 'a', 'l', 's', 'e']
  | .int n => renderInt n
  | .num t => t
  | .str s => renderStr s.toList
  | .arr [] => ['[', ']']
  | .arr (v :: l) => '[' :: (render v ++ (renderTail l ++ [']']))
  | .obj [] => ['{', '}']
  | .obj ((k, v) :: l) => '{' :: (renderStr k.toList ++ (':' :: ' ' :: (render v ++ (renderMTail l ++ ['}']))))
/-- the elements after the first, each preceded by `", "` -/
def renderTail : List JVal → List Char
  | [] => []
  | v :: l => ',' :: ' ' :: (render v ++ renderTail l)
def renderMTail : List (String × JVal) → List Char
  | [] => []
  | (k, v) :: l => ',' :: ' ' :: (renderStr k.toList ++ (':' :: ' ' :: (render v ++ renderMTail l)))
end

def lit (p cs : List Char) : Bool := p.isPrefixOf cs

/-- `null` / `true` / `false` / a number -/
def parseAtom (cs : List Char) : Option (JVal × List Char) :=
  if lit ['n', 'u', 'l', 'l'] cs then some (.null, cs.drop 4)
  else if lit ['t', 'r', 'u', 'e'] cs then some (.bool true, cs.drop 4)
  else if lit ['f', 'a', 'l', 's', 'e'] cs then some (.bool false, cs.drop 5)
  else
    let t := cs.takeWhile isNumChar
    let r := cs.dropWhile isNumChar
    if isIntTok t then some (.int (intOfTok t), r)
    else if isFloatTok t then some (.num t, r)
    else none

mutual
/-- one value at the head of the (whitespace-free) input; returns it and the text after it -/
def parseVal : Nat → List Char → Option (JVal × List Char)
  | 0, _ => none
  | f + 1, cs =>
    match cs with
    | [] => none
    | c :: r =>
      if c = '"' then
        match scanStr none r with
        | some (s, r') => some (.str (String.ofList s), r')
        | none => none
      else if c = '[' then
        match skipWs r with
        | [] => none
        | c2 :: r2 =>
          if c2 = ']' then some (.arr [], r2)
          else
            match parseVal f (c2 :: r2) with
            | none => none
            | some (v, r3) =>
              match parseTail f r3 with
              | some (l, r4) => some (.arr (v :: l), r4)
              | none => none
      else if c = '{' then
        match skipWs r with
        | [] => none
        | c2 :: r2 =>
          if c2 = '}' then some (.obj [], r2)
          else
            match parseMember f (c2 :: r2) with
            | none => none
            | some (kv, r3) =>
              match parseMTail f r3 with
              | some (l, r4) => some (.obj (kv :: l), r4)
              | none => none
      else parseAtom (c :: r)
/-- after an element: `]` ends the array, `,` continues it -/
def parseTail : Nat → List Char → Option (List JVal × List Char)
  | 0, _ => none
  | f + 1, cs =>
    match skipWs cs with
    | [] => none
    | c :: r =>
      if c = ']' then some ([], r)
      else if c = ',' then
        match parseVal f (skipWs r) with
        | none => none
        | some (v, r') =>
          match parseTail f r' with
          | some (l, r'') => some (v :: l, r'')
          | none => none
      else none
/-- `"key": value` -/
def parseMember : Nat → List Char → Option ((String × JVal) × List Char)
  | 0, _ => none
  | f + 1, cs =>
    match cs with
    | [] => none
    | q :: r0 =>
      if q = '"' then
        match scanStr none r0 with
        | none => none
        | some (k, r1) =>
          match skipWs r1 with
          | [] => none
          | c :: r2 =>
            if c = ':' then
              match parseVal f (skipWs r2) with
              | none => none
              | some (v, r3) => some ((String.ofList k, v), r3)
            else none
      else none
def parseMTail : Nat → List Char → Option (List (String × JVal) × List Char)
  | 0, _ => none
  | f + 1, cs =>
    match skipWs cs with
    | [] => none
    | c :: r =>
      if c = '}' then some ([], r)
      else if c = ',' then
        match parseMember f (skipWs r) with
        | none => none
        | some (kv, r') =>
          match parseMTail f r' with
          | some (l, r'') => some (kv :: l, r'')
          | none => none
      else none
end

/-- `json.loads(text)`: one value, nothing but whitespace around it -/
def parse (cs : List Char) : Option JVal :=
  match parseVal (2 * cs.length + 1) (skipWs cs) with
  | some (v, r) => if skipWs r = [] then some v else none
  | none => none

def renderS (v : JVal) : String := String.ofList (render v)
def parseS (t : String) : Option JVal := parse t.toList

mutual
/-- every `float` leaf has the lexical shape of a float -/
def JVal.wf : JVal → Bool
  | .num t => isFloatTok t
  | .arr l => wfList l
  | .obj l => wfMembers l
  | _ => true
def wfList : List JVal → Bool
  | [] => true
  | v :: l => v.wf && wfList l
def wfMembers : List (String × JVal) → Bool
  | [] => true
  | (_, v) :: l => v.wf && wfMembers l
end

mutual
/-- fuel that `parseVal` needs for `render v` -/
def JVal.cost : JVal → Nat
  | .arr l => 1 + costList l
  | .obj l => 1 + costMembers l
  | _ => 1
def costList : List JVal → Nat
  | [] => 1
  | v :: l => 1 + v.cost + costList l
def costMembers : List (String × JVal) → Nat
  | [] => 1
  | (_, v) :: l => 2 + v.cost + costMembers l
end

end Acn.JsonText
