/-
  Shared driver code for C07 / C08: one infrastructure + algorithm configuration, a SEQUENCE of
  `schedule()` calls (the rampdown estimator keeps state across calls), the observable outcome
  of each call: schedule, preprocessed bounds, sorted order, round-robin trace, estimator dict.

  request : {"algo":"greedy"|"rr"|"uncontrolled","sort":"fcfs|lcfs|edf|llf|lrpt",
             "uninterrupted":bool,"estimate":bool,"inc":bits,"period":bits,
             "ramp":{"up":bits,"down":bits,"inc":bits},
             "infra":{"ids":[str],"M":[[bits]],"lims":[bits],"cos":[bits],"sin":[bits],
                      "volt":[bits],"maxp":[bits],"minp":[bits],"cont":[bool],"allow":[[bits]]},
             "calls":[{"time":int,"sessions":[{…}],"prev":[[sid,pilot bits,rate bits]]}]}
-/
import AcnModel.Wire
import AcnModel.Feas
import AcnModel.Sorted
import AcnModel.Gen.Consts
import AcnModel.WireSim
import AcnModel.SimSorted

namespace Acn.WireSorted
open Lean Acn Acn.Wire Acn.Sorted

def parseInfra (j : Json) : Except String (Infra Float) := do
  let ids ← (← getArr j "ids").mapM (fun v => v.getStr?)
  let cont ← (← getArr j "cont").mapM (fun v => v.getBool?)
  pure { ids, maxPilot := ← getFs j "maxp", minPilot := ← getFs j "minp", volt := ← getFs j "volt",
         cont, allow := ← getFss j "allow" }

def parseSession (j : Json) : Except String (Session Float) := do
  pure { station := ← getStr j "station", session := ← getStr j "session", idx := 0,
         arrival := ← getInt j "arrival", estDeparture := ← getInt j "est",
         remainingTime := ← getNat j "remaining_time", requested := ← getF j "requested",
         delivered := ← getF j "delivered", minRate := ← getF j "min", maxRate := ← getF j "max" }

def parseSort (s : String) : Except String SortKind :=
  if s == "fcfs" then pure .fcfs else if s == "lcfs" then pure .lcfs
  else if s == "edf" then pure .edf else if s == "llf" then pure .llf
  else if s == "lrpt" then pure .lrpt else throw s!"unknown sort {s}"

def errName : Sorted.Err → String
  | .keyError => "KeyError"
  | .lbInfeasible => "ValueError:lower_bounds_infeasible"
  | .initialInfeasible => "ValueError:initial_infeasible"

def parsePrev (j : Json) : Except String (List (String × Float × Float)) := do
  (← getArr j "prev").mapM fun v => do
    let a ← asArr v
    match a with
    | [s, p, r] => pure (← s.getStr?, ← asF p, ← asF r)
    | _ => throw "prev entry"

def jSess (s : Session Float) : Json :=
  Json.arr #[jS s.session, jS s.station, jF s.minRate, jF s.maxRate]

/-- optional field "simrun": a whole-simulation scenario (`WireSim` request format without "sched");
    the answer is `Sim.run` with the MODELLED sorted algorithm / uncontrolled baseline as the
    scheduler parameter (`AcnModel/SimSorted.lean`), i.e. the composition model -/
def simRun (j : Json) (cfg : Option (Config Float)) (M : List (List Float)) (lims c s : List Float)
    (vt rt : Float) : Except String (Option Json) := do
  match j.getObjVal? "simrun" with
  | .error _ => pure none
  | .ok Json.null => pure none
  | .ok sj =>
    let scfg ← parseSimCfg sj
    let net : SimSorted.NetInfo Float := { M, lims, cos := c, sin := s, vt, rt }
    let sched := match cfg with
      | some k => SimSorted.sortedSched net infF scfg k
      | none => SimSorted.uncontrolledSched infF scfg
    let r := Sim.run scfg sched (EventCore.fuelFor scfg.core) (Sim.init scfg)
    pure (some (jResult scfg r))

def handleCalls (j : Json) : Except String Json := do
  let algo ← getStr j "algo"
  let ij ← j.getObjVal? "infra"
  let infra ← parseInfra ij
  let M ← getFss ij "M"
  let lims ← getFs ij "lims"
  let c ← getFs ij "cos"
  let s ← getFs ij "sin"
  let vt := fOfBits Acn.Gen.algAbsTolBits
  let rt := fOfBits Acn.Gen.algRelTolBits
  let feas : List Float → Bool := Acn.Feas.algFeasible M lims c s vt rt
  let period ← getF j "period"
  let calls ← getArr j "calls"
  if algo == "uncontrolled" then
    let mut outs : Array Json := #[]
    for cj in calls do
      let raw ← (← getArr cj "sessions").mapM parseSession
      match resolve infra raw with
      | .error e => outs := outs.push (Json.mkObj [("err", jS (errName e))])
      | .ok l =>
        let d := uncontrolled infra l
        outs := outs.push (Json.mkObj [("err", Json.null),
          ("dict", jList (fun (p : String × List Float) => Json.arr #[jS p.1, jFs p.2]) d)])
    let sr ← simRun j none M lims c s vt rt
    return Json.mkObj [("calls", Json.arr outs), ("simrun", sr.getD Json.null)]
  let sort ← parseSort (← getStr j "sort")
  let rj ← j.getObjVal? "ramp"
  let cfg : Config Float :=
    { algo := if algo == "rr" then .roundRobin else .greedy, sort,
      uninterrupted := ← getBool j "uninterrupted", estimate := ← getBool j "estimate",
      inc := ← getF j "inc", eps := fOfBits Acn.Gen.greedyEpsBits, fuel := 2000 }
  let mut rd : Rampdown Float :=
    { upTh := ← getF rj "up", downTh := ← getF rj "down", upInc := ← getF rj "inc", bounds := [] }
  let mut outs : Array Json := #[]
  for cj in calls do
    let raw ← (← getArr cj "sessions").mapM parseSession
    let time ← getInt cj "time"
    let prevL ← parsePrev cj
    let prev : String → Option (Float × Float) := fun sid => prevL.lookup sid
    -- the network may have been changed under the same constraint names between calls
    -- (`update_constraint`): a call can carry its own matrix / limits
    let feasC ← match cj.getObjVal? "net" with
      | .ok nj => do
          let M' ← getFss nj "M"
          let l' ← getFs nj "lims"
          pure (Acn.Feas.algFeasible M' l' c s vt rt)
      | .error _ => pure feas
    let o := scheduleCall feasC cfg infra period time prev rd raw
    rd := o.rd
    let common : List (String × Json) :=
      [("pre", jList jSess o.pre), ("order", jList (fun (x : Session Float) => jS x.session) o.order),
       ("trace", jList (fun (t : String × Nat × Bool) => Json.arr #[jS t.1, jN t.2.1, jB t.2.2]) o.trace),
       ("levels", if cfg.algo == .roundRobin then
            jList (fun (x : Session Float) => Json.arr #[jS x.session, jFs (rrLevels infra period cfg.inc x)]) o.order
          else Json.null),
       ("queue_left", jList (fun (x : Session Float) => jS x.session) o.queueLeft),
       ("bounds", jList (fun (p : String × Float) => Json.arr #[jS p.1, jF p.2]) rd.bounds)]
    match o.result with
    | .error e => outs := outs.push (Json.mkObj (("err", jS (errName e)) :: common))
    | .ok sch =>
      outs := outs.push (Json.mkObj (("err", Json.null) :: ("schedule", jFs sch) ::
        ("dict", jList (fun (p : String × List Float) => Json.arr #[jS p.1, jFs p.2])
                  (formatArraySchedule infra sch)) :: common))
  let sr ← if cfg.estimate then pure none else simRun j (some cfg) M lims c s vt rt
  pure (Json.mkObj [("calls", Json.arr outs), ("simrun", sr.getD Json.null)])

def handle (j : Json) : Except String Json := handleCalls j

end Acn.WireSorted
