/-
  `Simulator.step(new_schedule)` (simulator.py:143-199, as repaired by the F17 fix) as a second
  driver of the stages of `Sim.lean`: the same `_update_schedules`, pilot application, rate storage
  and event processing, in the order and under the loop condition `step()` has.

      first_period = True
      while not empty() and (first_period or (not _resolve and (max_recompute is None
                                   or _iteration - _last_schedule_update < max_recompute))):
          first_period = False
          _update_schedules(new_schedule); _last_schedule_update = _iteration; _resolve = False
          grow to max(last_ts + 1, iteration + 1); update_pilots; store rates; iteration += 1
          for e in get_current_events(iteration): event_history.append(e); _process_event(e)
      return empty()

  The schedule handed in is always applied to the current period (when events are left); then the
  loop continues until the next recompute is due.  NOT repaired (and not part of any property):
  the events with timestamp t are processed after the trip of period t−1, so timestamp-0 events are
  processed at iteration 1.

  The definitions with suffix `Unfixed` transcribe the loop condition BEFORE the fix (finding F17);
  the negative theorems about them are kept in `AcnProofs/Lemmas/EventCoreStep.lean`.
-/
import AcnModel.Sim

namespace Acn.Sim
open Acn Acn.EventCore

inductive StepErr
  | base (e : Err)
  | typeError              -- `int - None` in the loop condition
  deriving DecidableEq, Repr

def StepErr.name : StepErr → String
  | .base e => e.name
  | .typeError => "TypeError"

section
variable {K : Type} [Add K] [Sub K] [Mul K] [Div K] [Neg K] [LT K] [LE K]
  [DecidableLT K] [DecidableLE K] [OfNat K 0] [OfNat K 1] [NatCast K] [HasExp K]

/-- the `while` condition of `step()` BEFORE the F17 fix, with Python's short-circuiting -/
def stepCondUnfixed (mr : Option Nat) (c : Core) : Except StepErr Bool :=
  if c.pending.isEmpty then .ok false
  else if c.resolve then .ok false
  else
    match mr with
    | none => .ok true
    | some m =>
      match c.lastUpd with
      | none => .error .typeError
      | some u => .ok (decide ((c.iter : Int) - u < (m : Int)))

/-- the `while` condition of the repaired `step()`: `first` = `first_period` -/
def stepCond (mr : Option Nat) (first : Bool) (c : Core) : Except StepErr Bool :=
  if c.pending.isEmpty then .ok false
  else if first then .ok true
  else stepCondUnfixed mr c

/-- simulator.py:173-178 -/
def stepWidthInc (s : State K) : Nat :=
  match lastTs s.core.pending with
  | some l => Nat.max (l + 1).toNat (s.core.iter + 1)
  | none => s.core.iter + 1

/-- pilots applied, rates stored, snapshot, `iteration += 1`, for a given growth target
    (simulator.py:179-184; the same statements as simulator.py:136-141 of `run`) -/
def widenW (w : Nat) (s : State K) : State K :=
  { s with pilots := Pilots.increaseWidth s.pilots w, rates := Pilots.increaseWidth s.rates w }

def applyStageW (cfg : Cfg K) (w : Nat) (s : State K) : State K × Option Err :=
  if (widenW w s).pilots.width ≤ s.core.iter then (widenW w s, some .indexError)
  else
    match updatePilots cfg (widenW w s) with
    | (s2, some e) => (s2, some e)
    | (s2, none) =>
      match storeRates cfg w s2 with
      | (s3, some e) => (s3, some e)
      | (s3, none) =>
        ({ s3 with occLog := s3.occLog ++ [cfg.stations.map fun st => (s3.core.occ st.id).map (·.id)],
                   core := advance s3.core }, none)

/-- one pass through the body of the `while` loop of `step()` -/
def stepPass (cfg : Cfg K) (sch : Schedule K) (s : State K) : State K × Option Err :=
  match Pilots.updateSchedules (cfg.stations.map (·.id)) s.pilots s.core.iter
      ((lastTs s.core.pending).map Int.toNat) sch with
  | .error e => (s, some (pilotsErr e))
  | .ok m =>
    let s1 := { s with pilots := m, core := markScheduled s.core }
    match applyStageW cfg (stepWidthInc s1) s1 with
    | (s2, some e) => (s2, some e)
    | (s2, none) => eventsStage cfg s2

def stepLoop (cfg : Cfg K) (sch : Schedule K) : Nat → Bool → State K → State K × Option StepErr
  | 0, _, s => (s, none)
  | n + 1, first, s =>
    match stepCond cfg.maxRecompute first s.core with
    | .error e => (s, some e)
    | .ok false => (s, none)
    | .ok true =>
      match stepPass cfg sch s with
      | (s', none) => stepLoop cfg sch n false s'
      | (s', some e) => (s', some (.base e))

/-- `Simulator.step(new_schedule)`: the state afterwards, the error if it raised, else the
    returned flag `event_queue.empty()` -/
def step (cfg : Cfg K) (sch : Schedule K) (fuel : Nat) (s : State K) : State K × Except StepErr Bool :=
  match stepLoop cfg sch fuel true s with
  | (s', some e) => (s', .error e)
  | (s', none) => (s', .ok s'.core.pending.isEmpty)

/-- a sequence of `step()` calls, one schedule each; stops at the first call that raises -/
def steps (cfg : Cfg K) (fuel : Nat) : List (Schedule K) → State K → State K × List (Except StepErr Bool × Nat)
  | [], s => (s, [])
  | sch :: rest, s =>
    match step cfg sch fuel s with
    | (s', .error e) => (s', [(.error e, s'.core.iter)])
    | (s', .ok b) =>
      let r := steps cfg fuel rest s'
      (r.1, (.ok b, s'.core.iter) :: r.2)

/-! ### before the F17 fix (documentation of the finding) -/

def stepLoopUnfixed (cfg : Cfg K) (sch : Schedule K) : Nat → State K → State K × Option StepErr
  | 0, s => (s, none)
  | n + 1, s =>
    match stepCondUnfixed cfg.maxRecompute s.core with
    | .error e => (s, some e)
    | .ok false => (s, none)
    | .ok true =>
      match stepPass cfg sch s with
      | (s', none) => stepLoopUnfixed cfg sch n s'
      | (s', some e) => (s', some (.base e))

def stepUnfixed (cfg : Cfg K) (sch : Schedule K) (fuel : Nat) (s : State K) : State K × Except StepErr Bool :=
  match stepLoopUnfixed cfg sch fuel s with
  | (s', some e) => (s', .error e)
  | (s', none) => (s', .ok s'.core.pending.isEmpty)

def stepsUnfixed (cfg : Cfg K) (fuel : Nat) : List (Schedule K) → State K → State K × List (Except StepErr Bool × Nat)
  | [], s => (s, [])
  | sch :: rest, s =>
    match stepUnfixed cfg sch fuel s with
    | (s', .error e) => (s', [(.error e, s'.core.iter)])
    | (s', .ok b) =>
      let r := stepsUnfixed cfg fuel rest s'
      (r.1, (.ok b, s'.core.iter) :: r.2)

end
end Acn.Sim
