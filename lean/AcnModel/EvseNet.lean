/-
  The advertised-info cache of a `ChargingNetwork` holding SEVERAL EVSEs, and the `Interface`
  accessors that read it (property C13: "every maximum and allowable value it advertises to
  schedulers is itself accepted" — as seen by a scheduler, i.e. through the network, per station).

  Transcribes
    * `ChargingNetwork.register_evse`      charging_network.py:177-202  (`self._EVSEs[id] = evse` on an
                                           OrderedDict, `np.append(self._voltages, …)`, cache refresh)
    * `ChargingNetwork._update_info_store` charging_network.py:66-96    (station-id → index dict and the
                                           four per-station containers, all in `station_ids` order)
    * `InfrastructureInfo._validate`       interface.py:236-278         (station-count consistency)
    * `InfrastructureInfo.get_station_index`, `Interface.allowable_pilot_signals`,
      `max_pilot_signal`, `min_pilot_signal`                            interface.py:232-234, 485-539
    * `ChargingNetwork._to_dict` / `_from_dict`  charging_network.py:547-648  (save / resume: `_EVSEs`
                                           re-inserted entry by entry, the cached containers restored
                                           verbatim — `CNet`, `Saved`, second half of this file)

  The cache is recomputed from `_EVSEs` by every mutator of the network (register / add / remove /
  update constraint), so in the model it is a FUNCTION of the registered stations (`infoStore`); the
  constraint containers are C12's (`AcnModel/Network.lean`) and do not enter the per-station part.
  What the per-class description of ONE EVSE is (`maxRate`, `minRate`, `isContinuous`, `allowable`)
  is `AcnModel/Evse.lean`.
-/
import AcnModel.Evse

namespace Acn.EvseNet
open Acn Acn.Evse

/-- a registered EVSE, as far as its description goes -/
structure Station (K : Type) where
  id : String
  kind : Kind K

inductive Err
  | keyError     -- `_station_ids_dict[station_id]` of an unknown id
  | valueError   -- `InfrastructureInfo._validate`: inconsistent station counts
  | indexError   -- numpy index beyond a container (unreachable: `index_lt_length` in the proofs)
  deriving DecidableEq, Repr

def errName : Err → String
  | .keyError => "KeyError"
  | .valueError => "ValueError"
  | .indexError => "IndexError"

/-- `self._EVSEs[evse.station_id] = evse` on an `OrderedDict` (charging_network.py:198): a known key
    keeps its position and takes the new value, a new key is appended. -/
def setStation {K : Type} (s : Station K) : List (Station K) → List (Station K)
  | [] => [s]
  | t :: r => if t.id = s.id then s :: r else t :: setStation s r

/-- the part of a `ChargingNetwork` the advertised description depends on: `_EVSEs` (in dict order)
    and `len(self._voltages)` (one `np.append` per `register_evse` CALL, charging_network.py:199) -/
structure Net (K : Type) where
  stations : List (Station K)
  nVolt : Nat

def Net.init {K : Type} : Net K := { stations := [], nVolt := 0 }

/-- charging_network.py:177-202 (before any constraint exists) -/
def Net.register {K : Type} (n : Net K) (s : Station K) : Net K :=
  { stations := setStation s n.stations, nVolt := n.nVolt + 1 }

/-- a network built by a sequence of `register_evse` calls -/
def Net.run {K : Type} (regs : List (Station K)) : Net K := regs.foldl Net.register Net.init

/-- `{station_id: i for i, station_id in enumerate(self.station_ids)}[sid]` — the dict that
    `InfrastructureInfo.get_station_index` reads (interface.py:207-209, 232-234; the network keeps an
    identical one, charging_network.py:70-72).  A dict comprehension keeps the LAST index stored
    under a key. -/
def stationIndex : List String → String → Option Nat
  | [], _ => none
  | x :: r, sid =>
    match stationIndex r sid with
    | some i => some (i + 1)
    | none => if x = sid then some 0 else none

/-- the four cached containers plus the station ids they are aligned with -/
structure Info (K : Type) where
  ids : List String
  maxs : List (Bound K)
  mins : List K
  allow : List (List (Bound K))
  cont : List Bool

section
variable {K : Type} [LT K] [DecidableLT K] [OfNat K 0]

/-- charging_network.py:66-96 -/
def infoStore (n : Net K) : Info K :=
  { ids := n.stations.map (·.id),
    maxs := n.stations.map (fun s => maxRate s.kind),
    mins := n.stations.map (fun s => minRate s.kind),
    allow := n.stations.map (fun s => allowable s.kind),
    cont := n.stations.map (fun s => isContinuous s.kind) }

/-- interface.py:236-278 for the station count: `len(voltages)` against the other containers
    (the constraint matrix is re-indexed on `station_ids` whenever it is built) -/
def infraOk (n : Net K) : Bool := n.nVolt == n.stations.length

/-- `_infrastructure_info()` followed by `get_station_index(station_id)` -/
def lookup (n : Net K) (sid : String) : Except Err Nat :=
  if infraOk n then
    match stationIndex (infoStore n).ids sid with
    | some i => .ok i
    | none => .error .keyError
  else .error .valueError

/-- `Interface.allowable_pilot_signals(station_id)` (interface.py:485-507) -/
def ifaceAllowable (n : Net K) (sid : String) : Except Err (Bool × List (Bound K)) :=
  match lookup n sid with
  | .error e => .error e
  | .ok i =>
    match (infoStore n).cont[i]?, (infoStore n).allow[i]? with
    | some c, some a => .ok (c, a)
    | _, _ => .error .indexError

/-- `Interface.max_pilot_signal(station_id)` (interface.py:509-523) -/
def ifaceMax (n : Net K) (sid : String) : Except Err (Bound K) :=
  match lookup n sid with
  | .error e => .error e
  | .ok i =>
    match (infoStore n).maxs[i]? with
    | some m => .ok m
    | none => .error .indexError

/-- `Interface.min_pilot_signal(station_id)` (interface.py:525-539) -/
def ifaceMin (n : Net K) (sid : String) : Except Err K :=
  match lookup n sid with
  | .error e => .error e
  | .ok i =>
    match (infoStore n).mins[i]? with
    | some m => .ok m
    | none => .error .indexError

/-- the finite values a description `(allowable, max)` names (an infinite bound names no number) -/
def advertisedValues (k : Kind K) : List K :=
  (allowable k ++ [maxRate k]).filterMap id

/-! ## save / resume (`to_json` → `from_json`) inside a history

`ChargingNetwork._to_dict` (charging_network.py:547-582) writes `_EVSEs` as a JSON object
`{station_id: registry id}` in dict order and the four cached containers VERBATIM (positional arrays);
`_from_dict` (charging_network.py:585-648) rebuilds `_EVSEs` by iterating that object
(`evses[station_id] = evse_elt`, a fresh dict) and restores the containers as they were written — it does
NOT recompute them.  The Interface (`_infrastructure_info`, interface.py:452-479) then reads the station
order from the REBUILT dict and the four containers from the RESTORED cache.  So the network the
accessors see is a pair: the registered stations and a stored cache; every mutator of the network
(`register_evse`, the constraint edits) refreshes the cache from `_EVSEs` (`_update_info_store`).  -/

/-- a `ChargingNetwork` with its STORED info cache (`max_pilot_signals`, `min_pilot_signals`,
    `allowable_rates`, `is_continuous`; `cache.ids` are the keys of `_station_ids_dict`) -/
structure CNet (K : Type) where
  net : Net K
  cache : Info K

/-- `ChargingNetwork.__init__` (charging_network.py:42-64) -/
def CNet.init : CNet K := { net := Net.init, cache := infoStore Net.init }

/-- `register_evse` (charging_network.py:177-202): the dict update followed by `_update_info_store()` -/
def CNet.register (c : CNet K) (s : Station K) : CNet K :=
  let n := c.net.register s
  { net := n, cache := infoStore n }

/-- what `to_json` writes of the network, as far as the description goes: the entries of the `_EVSEs`
    object in the order written, `len(_voltages)`, the cached containers -/
structure Saved (K : Type) where
  evses : List (Station K)
  nVolt : Nat
  cache : Info K

/-- charging_network.py:547-582 -/
def CNet.save (c : CNet K) : Saved K :=
  { evses := c.net.stations, nVolt := c.net.nVolt, cache := c.cache }

/-- charging_network.py:585-648: `_EVSEs` rebuilt entry by entry into a fresh dict, the containers taken
    verbatim from the file -/
def Saved.load (s : Saved K) : CNet K :=
  { net := { stations := s.evses.foldl (fun acc e => setStation e acc) [], nVolt := s.nVolt },
    cache := s.cache }

/-- `from_json(to_json())` -/
def CNet.restore (c : CNet K) : CNet K := c.save.load

/-- one entry of a history of a network before its first use -/
inductive NetEv (K : Type) where
  | reg (s : Station K)     -- `register_evse`
  | restore                 -- save and resume; the history continues on the object that comes back

def CNet.step (c : CNet K) : NetEv K → CNet K
  | .reg s => c.register s
  | .restore => c.restore

/-- a network built by `register_evse` calls with save / resume steps anywhere between them -/
def CNet.run (h : List (NetEv K)) : CNet K := h.foldl CNet.step CNet.init

/-- the `register_evse` calls of a history -/
def regsOf : List (NetEv K) → List (Station K)
  | [] => []
  | .reg s :: r => s :: regsOf r
  | .restore :: r => regsOf r

/-- `InfrastructureInfo._validate` (interface.py:236-278) on what `_infrastructure_info` passes: the
    station count from `_EVSEs`, `len(voltages)`, and the lengths of the four stored containers -/
def infraOkC (c : CNet K) : Bool :=
  c.net.nVolt == c.net.stations.length && c.cache.maxs.length == c.net.stations.length &&
  c.cache.mins.length == c.net.stations.length && c.cache.allow.length == c.net.stations.length &&
  c.cache.cont.length == c.net.stations.length

/-- `_infrastructure_info()` + `get_station_index`: the index comes from `network.station_ids`
    (the keys of `_EVSEs`), not from the stored `_station_ids_dict` -/
def lookupC (c : CNet K) (sid : String) : Except Err Nat :=
  if infraOkC c then
    match stationIndex (c.net.stations.map (·.id)) sid with
    | some i => .ok i
    | none => .error .keyError
  else .error .valueError

/-- interface.py:485-507 on the stored cache -/
def ifaceAllowableC (c : CNet K) (sid : String) : Except Err (Bool × List (Bound K)) :=
  match lookupC c sid with
  | .error e => .error e
  | .ok i =>
    match c.cache.cont[i]?, c.cache.allow[i]? with
    | some b, some a => .ok (b, a)
    | _, _ => .error .indexError

/-- interface.py:509-523 on the stored cache -/
def ifaceMaxC (c : CNet K) (sid : String) : Except Err (Bound K) :=
  match lookupC c sid with
  | .error e => .error e
  | .ok i =>
    match c.cache.maxs[i]? with
    | some m => .ok m
    | none => .error .indexError

/-- interface.py:525-539 on the stored cache -/
def ifaceMinC (c : CNet K) (sid : String) : Except Err K :=
  match lookupC c sid with
  | .error e => .error e
  | .ok i =>
    match c.cache.mins[i]? with
    | some m => .ok m
    | none => .error .indexError

end
end Acn.EvseNet
