/-
  EV and EVSE models — transcription of acnportal/acnsim/models/ev.py (`EV.charge`) and
  acnportal/acnsim/models/evse.py (`_valid_rate` ×3, `set_pilot`, `plugin`, `unplug`,
  `FiniteRatesEVSE.__init__` normalisation, `max_rate`, `min_rate`,
  `allowable_pilot_signals`).
-/
import AcnModel.Battery

namespace Acn.Evse
open Acn Acn.Battery

/-- The part of an `EV` that changes while it is connected. -/
structure Ev (K : Type) where
  session : String
  station : String
  arrival : Int
  departure : Int
  estDeparture : Int
  requested : K
  delivered : K
  rate : K
  batt : Batt K

/-- `none` encodes `float('inf')`. -/
abbrev Bound (K : Type) := Option K

inductive Kind (K : Type) where
  | cont (minRate : K) (maxRate : Bound K)
  | deadband (dbEnd : K) (maxRate : Bound K)
  | finite (rates : List K)          -- already normalised (see `normalize`)

structure Evse (K : Type) where
  station : String
  kind : Kind K
  pilot : K
  ev : Option (Ev K)

inductive Err | invalidRate | stationOccupied | valueError
  deriving DecidableEq, Repr

section
variable {K : Type} [Add K] [Sub K] [Mul K] [Div K] [Neg K] [LT K] [LE K]
  [DecidableLT K] [DecidableLE K] [OfNat K 0] [OfNat K 1] [NatCast K] [HasExp K]

/-- ev.py:130-144 -/
def Ev.charge (e : Ev K) (pilot V T ν : K) : Except Battery.Err (Ev K) :=
  match Battery.charge e.batt pilot V T ν with
  | .error x => .error x
  | .ok (b, r) =>
    .ok { e with batt := b, delivered := e.delivered + (r * V) / (1000 : Nat) * (T / (60 : Nat)), rate := r }

def leBound (x : K) : Bound K → Bool
  | none => true
  | some m => decide (x ≤ m)

/-- `numpy.isclose(a, b, atol=atol, rtol=0)` on finite values. -/
def isclose0 (a b atol : K) : Bool := decide (absK (a - b) ≤ atol)

/-- evse.py:280-294, 383-400, 484-499.  `atol` is the caller's tolerance (default 1e-3);
    `FiniteRatesEVSE` ignores it and uses the literal `fixedAtol` (1e-3 in the source). -/
def validRate (atol fixedAtol : K) : Kind K → K → Bool
  | .cont mn mx, p => decide (mn ≤ p + atol) && leBound (p - atol) mx
  | .deadband db mx, p => isclose0 p 0 atol || (decide (db ≤ p + atol) && leBound (p - atol) mx)
  | .finite rates, p => rates.any (fun a => isclose0 p a fixedAtol)

/-- Insert into a strictly increasing list, dropping duplicates. -/
def insertUniq (x : K) : List K → List K
  | [] => [x]
  | y :: ys => if x < y then x :: y :: ys else if y < x then y :: insertUniq x ys else y :: ys

/-- evse.py:442-456: `sorted(set(rates) | {0})`. -/
def normalize (l : List K) : List K := (0 :: l).foldl (fun acc x => insertUniq x acc) []

/-- `max(allowable_rates)` of a normalised (non-empty, increasing) list. -/
def listMax : List K → K
  | [] => 0
  | x :: xs => xs.foldl pyMax x

def firstPositive : List K → K
  | [] => 0
  | x :: xs => if 0 < x then x else firstPositive xs

/-- `max_rate` property (per class). `none` = infinity. -/
def maxRate : Kind K → Bound K
  | .cont _ mx => mx
  | .deadband _ mx => mx
  | .finite rates => some (listMax rates)

/-- `min_rate` property (per class; BaseEVSE default 0 for the deadband class). -/
def minRate : Kind K → K
  | .cont mn _ => mn
  | .deadband _ _ => 0
  | .finite rates => firstPositive rates

def isContinuous : Kind K → Bool
  | .finite _ => false
  | _ => true

/-- `allowable_pilot_signals` (an interval as two bounds, or the list). -/
def allowable : Kind K → List (Bound K)
  | .cont mn mx => [some mn, mx]
  | .deadband db mx => [some db, mx]
  | .finite rates => rates.map some

/-- evse.py:110-136.  On rejection nothing is returned, i.e. the state is the old one. -/
def setPilot (atol fixedAtol : K) (s : Evse K) (pilot V T ν : K) : Except Err (Evse K) :=
  if validRate atol fixedAtol s.kind pilot then
    match s.ev with
    | none => .ok { s with pilot := pilot }
    | some e =>
      match e.charge pilot V T ν with
      | .error _ => .error .valueError
      | .ok e' => .ok { s with pilot := pilot, ev := some e' }
  else .error .invalidRate

/-- evse.py:155-174 -/
def plugin (s : Evse K) (e : Ev K) : Except Err (Evse K) :=
  match s.ev with
  | none => .ok { s with ev := some e }
  | some _ => .error .stationOccupied

/-- evse.py:176-185 -/
def unplug (s : Evse K) : Evse K := { s with ev := none, pilot := 0 }

end
end Acn.Evse
