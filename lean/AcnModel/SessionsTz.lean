/-
  Session generation from zone-aware datetimes of ANY tzinfo implementation, and several
  conversion batches in one process.

  `acndata_events._datetime_to_timestamp` (acndata_events.py:136-151) computes
  `dt.timestamp() / (60·period)`.  For an aware datetime CPython evaluates `dt.timestamp()` as
  `(dt − _EPOCH).total_seconds()`; aware subtraction is `(naive fields − utcoffset())` on both
  sides, and `dt.utcoffset()` is whatever the datetime's `tzinfo` reports for THIS reading — for a
  PEP 495 zone (`zoneinfo.ZoneInfo`, `dateutil.tz`, a hand-written fold-aware class) it depends
  on `dt.fold`, for `datetime.timezone` it is a constant, for `pytz` it is a constant of the
  per-offset tzinfo instance `localize`/`astimezone` attached.  So a datetime enters the model as a
  `Reading`: the wall-clock fields as seconds on the proleptic calendar (`calendar.timegm` of the
  naive fields, plus the fraction) and the UTC offset — the offset FUNCTION of the zone is a
  parameter of the model, evaluated by the tzinfo (trusted base, DESIGN §5).  Two readings with
  equal `wall` (01:30 `fold=0` / 01:30 `fold=1` at the end of DST) compare equal as Python objects
  when they share the tzinfo object, and hash equal; their instants differ by the offset change.

  A `Batch` is one call of `get_evs` / `generate_events`; `runBatches` is several calls in one
  process.  The code keeps no state between calls, so the model is a `map` — `Memo` below is the
  model of a per-process cache in front of a pure function, keyed on `key`, used to state which
  caches would be invisible (`AcnProofs/C15Tz.lean`).  No Mathlib.
-/
import AcnModel.Sessions

namespace Acn.SessionsTz
open Acn Acn.Sessions Acn.Evse

section
variable {K : Type} [Add K] [Sub K] [Mul K] [Div K] [Neg K] [LT K] [LE K]
  [DecidableLT K] [DecidableLE K] [OfNat K 0] [OfNat K 1] [NatCast K] [IntCast K]
  [HasExp K] [HasTrunc K]

/-- one aware datetime as the converter sees it -/
structure Reading (K : Type) where
  wall : K      -- naive fields, seconds since 1970-01-01 00:00:00 of the same calendar
  off : K       -- `dt.utcoffset().total_seconds()` for this reading (may depend on `fold`)

/-- `dt.timestamp()` of an aware datetime: `(dt − _EPOCH).total_seconds()` -/
def Reading.instant (r : Reading K) : K := r.wall - r.off

/-- `_datetime_to_timestamp(dt, period)` on a reading -/
def readingIndex (r : Reading K) (period : K) : Except Sessions.Err Int := periodIndex r.instant period

/-- an ACN-Data document whose times are aware datetimes -/
structure WDoc (K : Type) where
  connect : Reading K
  disconnect : Reading K
  kWh : K
  session : String
  space : String

/-- what `_convert_to_ev` reads off the document -/
def WDoc.toDoc (d : WDoc K) : Doc K :=
  { connect := d.connect.instant, disconnect := d.disconnect.instant, kWh := d.kWh,
    session := d.session, space := d.space }

/-- `get_evs` with an aware `start` and aware document times -/
def getEvsW (start : Reading K) (docs : List (WDoc K)) (period V maxPower : K)
    (maxLen : Option Int) (bp : BattParams K) (ff : Bool) : Except Sessions.Err (List (Ev K)) :=
  getEvs start.instant (docs.map WDoc.toDoc) period V maxPower maxLen bp ff

/-- one call of `get_evs` / `generate_events` -/
structure Batch (K : Type) where
  start : Reading K
  docs : List (WDoc K)
  period : K
  V : K
  maxPower : K
  maxLen : Option Int
  bp : BattParams K
  ff : Bool

def runBatch (b : Batch K) : Except Sessions.Err (List (Ev K)) :=
  getEvsW b.start b.docs b.period b.V b.maxPower b.maxLen b.bp b.ff

/-- several conversions in one process, in order: no state is carried from one to the next -/
def runBatches (bs : List (Batch K)) : List (Except Sessions.Err (List (Ev K))) := bs.map runBatch

end

/-! ### a per-process cache in front of a pure function -/

section memo
variable {α β κ : Type} [DecidableEq κ]

/-- `f` behind a memo table keyed on `key`: a hit returns the stored value, a miss computes,
    stores and returns (`functools.lru_cache` without eviction / a module-level dict). -/
def memoCall (f : α → β) (key : α → κ) (cache : List (κ × β)) (a : α) : β × List (κ × β) :=
  match cache.lookup (key a) with
  | some v => (v, cache)
  | none => (f a, (key a, f a) :: cache)

/-- a sequence of calls threaded through the table: the answers, in call order -/
def memoRun (f : α → β) (key : α → κ) : List (κ × β) → List α → List β
  | _, [] => []
  | cache, a :: as =>
    let r := memoCall f key cache a
    r.1 :: memoRun f key r.2 as

end memo

end Acn.SessionsTz
