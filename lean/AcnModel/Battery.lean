/-
  Battery models — transcription of acnportal/acnsim/models/battery.py
  (`Battery.charge`, `Linear2StageBattery._charge`, `._charge_stepwise`, `reset`).

  Written once, polymorphic in the carrier `K`.  The random draw of
  `numpy.random.normal(0, noise_level)` is an INPUT `ν` of the model, so every theorem
  holds for every draw.  Arithmetic follows the source operation by operation so that the
  `Float` instance reproduces the implementation's doubles.

  Error paths: `ValueError` for the guards the code has (`V ≤ 0`, `T ≤ 0`, `init > capacity`,
  `ts ∉ [0,1)`), and `ZeroDivisionError` where Python's float division raises before anything is
  written (capacity 0; max power 0 in the continuous calculation with a non-zero pilot).
  Histories: `Op`, `applyOp`, `runOps`, `finalState` (a failing call leaves the state alone).
  Used by C03 (bounds), C14 (laws), C13 and the simulator model (through `Evse.Ev.charge`).
-/
import AcnModel.Num

namespace Acn.Battery
open Acn

inductive Calc | continuous | stepwise
  deriving DecidableEq, Repr

/-- State + parameters of a battery (both classes; `twoStage = false` is the ideal `Battery`). -/
structure Batt (K : Type) where
  capacity : K
  charge : K
  init : K
  maxPower : K
  power : K
  twoStage : Bool
  noiseLevel : K
  ts : K
  cmode : Calc

/-- `valueError`: the guards the code has (`raise ValueError`).  `zeroDivision`: the inputs on
    which Python's float division raises `ZeroDivisionError` before any state is written
    (capacity 0 in `_soc` / `pilot_dsoc`, max power 0 in `pilot_transition_soc`); the model
    never totalises `x / 0`. -/
inductive Err | valueError | zeroDivision
  deriving DecidableEq, Repr

section
variable {K : Type} [Add K] [Sub K] [Mul K] [Div K] [Neg K] [LT K] [LE K]
  [DecidableLT K] [DecidableLE K] [OfNat K 0] [OfNat K 1] [NatCast K] [HasExp K]

/-- battery.py:21-28 — constructor guard. -/
def mkIdeal (capacity init maxPower : K) : Except Err (Batt K) :=
  if capacity < init then .error .valueError
  else .ok { capacity, charge := init, init, maxPower, power := 0, twoStage := false,
             noiseLevel := 0, ts := 0, cmode := .continuous }

/-- battery.py:158-186 — two-stage constructor guards. -/
def mkTwoStage (capacity init maxPower noise ts : K) (cmode : Calc) : Except Err (Batt K) :=
  if capacity < init then .error .valueError
  else if ts < 0 then .error .valueError
  else if 1 ≤ ts then .error .valueError
  else .ok { capacity, charge := init, init, maxPower, power := 0, twoStage := true,
             noiseLevel := noise, ts, cmode }

def soc (b : Batt K) : K := b.charge / b.capacity

/-- battery.py:45-70 — ideal battery. Returns new state and the actual rate [A]. -/
def idealCharge (b : Batt K) (pilot V T : K) : Except Err (Batt K × K) :=
  if V ≤ 0 then .error .valueError
  else if T ≤ 0 then .error .valueError
  else
    let rateToFull := (b.capacity - b.charge) / (T / (60 : Nat))
    let cp := pyMin3 (pilot * V / (1000 : Nat)) b.maxPower rateToFull
    .ok ({ b with charge := b.charge + cp * (T / (60 : Nat)), power := cp }, cp * (1000 : Nat) / V)

/-- Python's `x == 0` for a float (`-0.0 == 0` is true, `nan == 0` is false). -/
@[inline] def isZero (x : K) : Bool := decide ((0 : K) ≤ x) && decide (x ≤ (0 : K))

/-- battery.py:238-239 — the pilot's SoC rate, clamped at the maximum. -/
def contPd (pd0 md : K) : K := if md < pd0 then md else pd0

/-- battery.py:243-245 — the transition SoC that belongs to the (clamped) pilot. -/
def contPts (ts pd md : K) : K := ts + (pd - md) / md * (ts - 1)

/-- Final SoC of the closed form, battery.py:235-270 (noise-free part). -/
def contSoc (soc ts pd0 md : K) : K :=
  let pd := if md < pd0 then md else pd0
  let pts := ts + (pd - md) / md * (ts - 1)
  if soc < pts then
    if 1 ≤ (pts - soc) / pd then pd + soc
    else 1 + HasExp.exp ((pd + soc - pts) / (pts - 1)) * (pts - 1)
  else 1 + HasExp.exp (pd / (pts - 1)) * (soc - 1)

/-- battery.py:207-286 — two-stage, continuous calculation; `ν` is the raw normal draw. -/
def contCharge (b : Batt K) (pilot V T ν : K) : Except Err (Batt K × K) :=
  if V ≤ 0 then .error .valueError
  else if T ≤ 0 then .error .valueError
  else if isZero pilot then .ok ({ b with power := 0 }, 0)
  else if isZero b.capacity then .error .zeroDivision        -- `self._soc`, `… / self._capacity`
  else if 1 ≤ soc b then .ok ({ b with power := 0 }, 0)      -- full battery (fix F18): no charge
  else
    let pd0 := pilot * V / (1000 : Nat) / b.capacity / ((60 : Nat) / T)
    let md := b.maxPower / b.capacity / ((60 : Nat) / T)
    if isZero md then .error .zeroDivision                   -- `(pilot_dsoc - max_dsoc) / max_dsoc`
    else
    let s := soc b
    let curr0 := contSoc s b.ts pd0 md
    let curr := if 0 < b.noiseLevel then pyMax (curr0 - absK (ν * (T / (60 : Nat)) / b.capacity)) s else curr0
    let dsoc := curr - s
    let pw := dsoc * b.capacity / (T / (60 : Nat))
    .ok ({ b with charge := curr * b.capacity, power := pw }, pw * (1000 : Nat) / V)

/-- battery.py:288-348 — two-stage, legacy stepwise calculation. -/
def stepCharge (b : Batt K) (pilot V T ν : K) : Except Err (Batt K × K) :=
  if V ≤ 0 then .error .valueError
  else if T ≤ 0 then .error .valueError
  else if isZero b.capacity then .error .zeroDivision        -- `self._soc`
  else
    let rateToFull := (b.capacity - b.charge) / (T / (60 : Nat))
    let pp := pilot * V / (1000 : Nat)
    let s := soc b
    let cp :=
      if s < b.ts then
        let c := pyMin3 pp b.maxPower rateToFull
        if 0 < b.noiseLevel then pyMax (c - absK ν) 0 else c
      else
        let c := pyMin3 pp ((1 - s) / (1 - b.ts) * b.maxPower) rateToFull
        if 0 < b.noiseLevel then
          let c1 := pyMin4 (pyMax (c + ν) 0) pp b.maxPower rateToFull
          pyMin4 c1 pp b.maxPower rateToFull
        else c
    .ok ({ b with charge := b.charge + cp * (T / (60 : Nat)), power := cp }, cp * (1000 : Nat) / V)

/-- Dispatch as `Battery.charge` / `Linear2StageBattery.charge` do. -/
def charge (b : Batt K) (pilot V T ν : K) : Except Err (Batt K × K) :=
  if b.twoStage then
    match b.cmode with
    | .continuous => contCharge b pilot V T ν
    | .stepwise => stepCharge b pilot V T ν
  else idealCharge b pilot V T

/-- battery.py:72-89 — reset. -/
def reset (b : Batt K) (initCharge : Option K) : Except Err (Batt K) :=
  match initCharge with
  | none => .ok { b with charge := b.init, power := 0 }
  | some c => if b.capacity < c then .error .valueError else .ok { b with charge := c, power := 0 }

/-! ### operation sequences (histories) -/

/-- One call on a battery object: `charge(pilot, voltage, period)` together with the normal
    draw `ν` it will consume, or `reset(init_charge)`. -/
inductive Op (K : Type) where
  | charge (pilot V T ν : K)
  | reset (init : Option K)

/-- Result of one call: new state and returned rate (`reset` returns `None`, reported as 0). -/
def applyOp (b : Batt K) : Op K → Except Err (Batt K × K)
  | .charge pilot V T ν => charge b pilot V T ν
  | .reset i =>
    match reset b i with
    | .ok b' => .ok (b', 0)
    | .error e => .error e

/-- A whole history: the state after each call and what the call returned.  Every exception
    of the code is raised before the first write to `self`, so a failing call leaves the
    state as it was and the history goes on. -/
def runOps (b : Batt K) : List (Op K) → List (Batt K × Except Err K)
  | [] => []
  | o :: os =>
    match applyOp b o with
    | .ok (b', r) => (b', .ok r) :: runOps b' os
    | .error e => (b, .error e) :: runOps b os

/-- State after a whole history. -/
def finalState (b : Batt K) : List (Op K) → Batt K
  | [] => b
  | o :: os =>
    match applyOp b o with
    | .ok (b', _) => finalState b' os
    | .error _ => finalState b os

end
end Acn.Battery
