/-
  A history of `set_pilot` calls on one EVSE with an EV connected — the path by which a pilot
  reaches a battery in a simulation (charging_network.py `update_pilots` → evse.py
  `BaseEVSE.set_pilot` → ev.py `EV.charge` → battery.py).  Used by C03 (physical bounds at
  EVSE level: the rate the EV records lies between 0 and the pilot the EVSE records).

  evse.py:128-136, statement order:
      if self._valid_rate(pilot):
          self._current_pilot = pilot            -- written BEFORE the EV is charged
          if self._ev is not None:
              self._ev.charge(pilot, voltage, period)      -- may raise (V ≤ 0, T ≤ 0, …)
      else:
          raise InvalidRateError
  `Evse.setPilot` returns only an error for a failing call; `setPilotSt` adds the state the
  object is left in: untouched after `InvalidRateError`; with the new pilot recorded (and the
  EV/battery untouched, every exception of `EV.charge` precedes its first write) when the EV
  raises.  The battery's own error class is kept (`setPilot` collapses it to `valueError`).
-/
import AcnModel.Evse

namespace Acn.Evse
open Acn Acn.Battery

/-- one call `set_pilot(p, V, T)`; `ν` is the raw noise draw the battery would take -/
structure PilotCall (K : Type) where
  p : K
  V : K
  T : K
  ν : K

/-- outcome class of one call -/
inductive CallErr | invalidRate | battery (e : Battery.Err)

section
variable {K : Type} [Add K] [Sub K] [Mul K] [Div K] [Neg K] [LT K] [LE K]
  [DecidableLT K] [DecidableLE K] [OfNat K 0] [OfNat K 1] [NatCast K] [HasExp K]

/-- the state after one `set_pilot` call and the exception it raised, if any -/
def setPilotSt (atol fixedAtol : K) (s : Evse K) (c : PilotCall K) : Evse K × Option CallErr :=
  match setPilot atol fixedAtol s c.p c.V c.T c.ν with
  | .ok s' => (s', none)
  | .error .invalidRate => (s, some .invalidRate)
  | .error _ =>
    -- valid pilot, the EV raised: evse.py:130 has already recorded the pilot
    let be : Battery.Err := match s.ev with
      | some e => (match e.charge c.p c.V c.T c.ν with | .error x => x | .ok _ => .valueError)
      | none => .valueError
    ({ s with pilot := c.p }, some (.battery be))

/-- a whole history: per call, the call, the state after it, and the exception if any -/
def runPilots (atol fixedAtol : K) (s : Evse K) :
    List (PilotCall K) → List (PilotCall K × Evse K × Option CallErr)
  | [] => []
  | c :: cs =>
    let r := setPilotSt atol fixedAtol s c
    (c, r.1, r.2) :: runPilots atol fixedAtol r.1 cs

end
end Acn.Evse
