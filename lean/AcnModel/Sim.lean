/-
  Sim — the full executable model of `acnportal.acnsim.Simulator`:
    EventCore (run loop, occupancy, histories)
  × pilot matrix  (`Pilots.updateSchedules` / `increaseWidth`, simulator.py:240-301, 537-552)
  × per-EV energy and battery state (`Evse.setPilot`, `Ev.charge`, `Battery.charge`)
  × `charging_rates` matrix and `peak` (`_store_actual_charging_rates`, simulator.py:303-316).

  The scheduler is a PARAMETER `sched : View K → Except Err (Schedule K)`.  Random draws of
  `numpy.random.normal` are an input stream `cfg.noise` consumed in call order (one draw per
  `Linear2StageBattery` charge with `noise_level > 0`, battery.py:275-276, 318-332).

  A step returns the state reached and the error (if the real code raised): the state keeps
  everything that had been mutated before the raise.

  Occupancy lives ONLY in the core (`s.core.occ`); the dynamic part of every EV (energy
  delivered, last rate, battery) lives in `s.evs`, keyed by session id.
-/
import AcnModel.EventCore
import AcnModel.Pilots
import AcnModel.Evse

namespace Acn.Sim
open Acn Acn.EventCore

abbrev Schedule (K : Type) := List (String × List K)

structure Station (K : Type) where
  id : String
  kind : Evse.Kind K
  voltage : K

/-- static data of a simulation -/
structure Cfg (K : Type) where
  stations : List (Station K)            -- in `register_evse` order
  evs : List (Evse.Ev K)                 -- the EV of every PluginEvent, in insertion order
  recomputes : List (Int × String)
  maxRecompute : Option Nat
  period : K
  atolCont : K                           -- default `atol` of `EVSE._valid_rate`        (Gen)
  atolDeadband : K                       -- default `atol` of `DeadbandEVSE._valid_rate` (Gen)
  atolFinite : K                         -- literal tolerance of `FiniteRatesEVSE`       (Gen)
  fullEps : K                            -- threshold of `EV.fully_charged` (ev.py:118)  (Gen)
  noise : List K                         -- draws of `numpy.random.normal`, cyclic

def sessionOf {K : Type} (e : Evse.Ev K) : Session :=
  { id := e.session, station := e.station, arrival := e.arrival, departure := e.departure }

/-- the numerics-free part of the configuration -/
def Cfg.core {K : Type} (cfg : Cfg K) : EventCore.Cfg :=
  { stations := cfg.stations.map (·.id), sessions := cfg.evs.map sessionOf,
    recomputes := cfg.recomputes, maxRecompute := cfg.maxRecompute }

structure State (K : Type) where
  core : Core
  pilots : Pilots.Mat K                  -- `pilot_signals`
  rates : Pilots.Mat K                   -- `charging_rates`
  peak : K
  evs : List (Evse.Ev K)                 -- dynamic state of every EV (also after it left)
  evsePilot : List K                     -- `EVSE.current_pilot` per station
  noiseIdx : Nat                         -- number of noise draws consumed so far
  occLog : List (List (Option String))   -- occupancy per period at `post_charging_update`

/-- what a scheduler can see through `Interface` (interface.py:324-450) -/
structure View (K : Type) where
  iter : Nat                             -- `current_time`
  active : List (Evse.Ev K)              -- `network.active_evs`: connected and not fully charged,
                                         --   in station order; carries `delivered`, `rate`
  lastPilots : List (String × K)         -- `last_applied_pilot_signals` (session id ↦ pilot)
  peak : K                               -- `get_prev_peak`
  evsePilot : List K                     -- `EVSE.current_pilot` per station
  connected : List (Option String)       -- occupant session id per station

/-- `get_last_timestamp()` (event_queue.py:87-97) -/
def lastTs (pending : List Event) : Option Int :=
  match pending with
  | [] => none
  | e :: es => some (es.foldl (fun m d => max m d.ts) e.ts)

section
variable {K : Type} [Add K] [Sub K] [Mul K] [Div K] [Neg K] [LT K] [LE K]
  [DecidableLT K] [DecidableLE K] [OfNat K 0] [OfNat K 1] [NatCast K] [HasExp K]

/-- simulator.py:61-77 -/
def init (cfg : Cfg K) : State K :=
  let c := EventCore.init cfg.core
  let w := match lastTs c.pending with
    | some l => (l + 1).toNat
    | none => 1
  { core := c, pilots := Pilots.Mat.zeros cfg.stations.length w,
    rates := Pilots.Mat.zeros cfg.stations.length w, peak := 0, evs := cfg.evs,
    evsePilot := List.replicate cfg.stations.length 0, noiseIdx := 0, occLog := [] }

def evOf (s : State K) (id : String) : Option (Evse.Ev K) := s.evs.find? (fun e => e.session == id)

/-- the EV object attached to station `st` (`EVSE.ev`) -/
def occupantEv (s : State K) (st : String) : Option (Evse.Ev K) :=
  match s.core.occ st with
  | some x => evOf s x.id
  | none => none

def replaceEv (evs : List (Evse.Ev K)) (e : Evse.Ev K) : List (Evse.Ev K) :=
  evs.map fun d => if d.session == e.session then e else d

def stationIndex (cfg : Cfg K) (st : String) : Nat := cfg.stations.findIdx (fun s => s.id == st)

/-- `not ev.fully_charged` (ev.py:116-118) -/
def isActive (cfg : Cfg K) (e : Evse.Ev K) : Bool := decide (cfg.fullEps < e.requested - e.delivered)

/-- `network.active_evs` (charging_network.py:126-137) -/
def activeEvs (cfg : Cfg K) (s : State K) : List (Evse.Ev K) :=
  cfg.stations.filterMap fun st =>
    match occupantEv s st.id with
    | some e => if isActive cfg e then some e else none
    | none => none

/-- interface.py:349-369 -/
def lastApplied (cfg : Cfg K) (s : State K) : List (String × K) :=
  if 2 ≤ s.core.iter then
    let i := s.core.iter - 1
    (activeEvs cfg s).filterMap fun e =>
      if e.arrival ≤ (i : Int) then some (e.session, s.pilots.get (stationIndex cfg e.station) i) else none
  else []

def view (cfg : Cfg K) (s : State K) : View K :=
  { iter := s.core.iter, active := activeEvs cfg s, lastPilots := lastApplied cfg s, peak := s.peak,
    evsePilot := s.evsePilot,
    connected := cfg.stations.map fun st => (s.core.occ st.id).map (·.id) }

/-! ### events -/

/-- one event: the core step, plus `EVSE.unplug` resetting `_current_pilot` (evse.py:176-185) -/
def stepEv (cfg : Cfg K) (e : Event) (s : State K) : State K × Option Err :=
  let r := EventCore.step cfg.core e s.core
  let hit : Option Nat :=
    match e.kind, r.2, findSession cfg.core e.sess with
    | .unplug, none, some x => if unplugHits s.core x then some (stationIndex cfg x.station) else none
    | _, _, _ => none
  ({ s with core := r.1,
            evsePilot := match hit with
              | some i => s.evsePilot.set i 0
              | none => s.evsePilot }, r.2)

def processAll (cfg : Cfg K) : List Event → State K → State K × Option Err
  | [], s => (s, none)
  | e :: es, s =>
    match stepEv cfg e s with
    | (s2, none) => processAll cfg es s2
    | (s2, some err) => (s2, some err)

def eventsStage (cfg : Cfg K) (s : State K) : State K × Option Err :=
  processAll cfg (popCurrent s.core.iter s.core.pending).1
    { s with core := { s.core with pending := (popCurrent s.core.iter s.core.pending).2 } }

/-! ### scheduling -/

def pilotsErr : Pilots.Err → Err
  | .keyError => .keyError
  | .invalidSchedule => .invalidSchedule

/-- guards of `SessionInfo.__init__` (interface.py:72-90), which `BaseAlgorithm.run` evaluates for
    every active EV before `schedule()` is entered (base_algorithm.py:102) -/
def sessionInfoOk (e : Evse.Ev K) : Bool :=
  decide (e.arrival < e.departure) && decide (e.arrival < e.estDeparture)

/-- `scheduler.run()` then `_update_schedules` (simulator.py:126-127): the new pilot matrix -/
def schedStage (cfg : Cfg K) (sched : View K → Except Err (Schedule K)) (s : State K) :
    Except Err (Pilots.Mat K) :=
  if (activeEvs cfg s).any (fun e => !sessionInfoOk e) then .error .valueError else
  match sched (view cfg s) with
  | .error e => .error e
  | .ok sch =>
    match Pilots.updateSchedules (cfg.stations.map (·.id)) s.pilots s.core.iter
        ((lastTs s.core.pending).map Int.toNat) sch with
    | .error e => .error (pilotsErr e)
    | .ok m => .ok m

/-! ### applying the pilots -/

def atolOf (cfg : Cfg K) : Evse.Kind K → K
  | .cont _ _ => cfg.atolCont
  | .deadband _ _ => cfg.atolDeadband
  | .finite _ => cfg.atolFinite

def noiseAt (cfg : Cfg K) (i : Nat) : K :=
  match cfg.noise with
  | [] => 0
  | _ => cfg.noise.getD (i % cfg.noise.length) 0

/-- does this charge call `numpy.random.normal`?  (battery.py:226-233, 275; 308-332) -/
def drawsNoise (b : Battery.Batt K) (pilot V T : K) : Bool :=
  b.twoStage && decide (0 < b.noiseLevel) && !decide (V ≤ 0) && !decide (T ≤ 0) &&
    (match b.cmode with
     | .stepwise => true
     | .continuous =>
       -- no draw on the early returns: zero pilot, and (fix F18) a full battery
       (decide (pilot < 0) || decide (0 < pilot)) && !decide (1 ≤ Battery.soc b))

/-- `EVSE.set_pilot` for station number `i` (charging_network.py:424-428) -/
def setPilotAt (cfg : Cfg K) (s : State K) (i : Nat) (st : Station K) : State K × Option Err :=
  let p := s.pilots.get i s.core.iter
  let occEv := occupantEv s st.id
  let evse : Evse.Evse K := { station := st.id, kind := st.kind, pilot := s.evsePilot.getD i 0, ev := occEv }
  match Evse.setPilot (atolOf cfg st.kind) cfg.atolFinite evse p st.voltage cfg.period (noiseAt cfg s.noiseIdx) with
  | .error .invalidRate => (s, some .invalidRate)
  | .error _ => (s, some .valueError)
  | .ok evse' =>
    let drew := match occEv with
      | some e => drawsNoise e.batt p st.voltage cfg.period
      | none => false
    ({ s with evsePilot := s.evsePilot.set i evse'.pilot,
              evs := match evse'.ev with
                | some e' => replaceEv s.evs e'
                | none => s.evs,
              noiseIdx := if drew then s.noiseIdx + 1 else s.noiseIdx }, none)

/-- `network.update_pilots` (charging_network.py:403-428): stations in order, stop at the first
    `InvalidRateError` (earlier stations have already charged) -/
def updatePilotsFrom (cfg : Cfg K) : Nat → List (Station K) → State K → State K × Option Err
  | _, [], s => (s, none)
  | i, st :: rest, s =>
    match setPilotAt cfg s i st with
    | (s', none) => updatePilotsFrom cfg (i + 1) rest s'
    | (s', some e) => (s', some e)

def updatePilots (cfg : Cfg K) (s : State K) : State K × Option Err :=
  updatePilotsFrom cfg 0 cfg.stations s

/-- `network.current_charging_rates` (charging_network.py:99-114) -/
def currentRates (cfg : Cfg K) (s : State K) : List K :=
  cfg.stations.map fun st =>
    match occupantEv s st.id with
    | some e => e.rate
    | none => 0

def writeCol (m : Pilots.Mat K) (t : Nat) (col : List K) : Pilots.Mat K :=
  ⟨List.zipWith (fun row v => Pilots.writeRow row t [v]) m.rows col, m.width⟩

/-- `_store_actual_charging_rates` (simulator.py:303-316) -/
def storeRates (cfg : Cfg K) (wInc : Nat) (s : State K) : State K × Option Err :=
  let cur := currentRates cfg s
  let agg := sumK cur
  let rates := if s.core.iter < s.rates.width then s.rates else Pilots.increaseWidth s.rates wInc
  if s.core.iter < rates.width then
    ({ s with rates := writeCol rates s.core.iter cur, peak := pyMax s.peak agg }, none)
  else ({ s with rates := rates }, some .indexError)

/-- simulator.py:132-135: `width_increase` -/
def widthInc (s : State K) : Nat :=
  match lastTs s.core.pending with
  | some l => (l + 1).toNat
  | none => s.core.iter + 1

/-- simulator.py:136-137 -/
def widen (s : State K) : State K :=
  { s with pilots := Pilots.increaseWidth s.pilots (widthInc s),
           rates := Pilots.increaseWidth s.rates (widthInc s) }

/-- simulator.py:132-141 -/
def applyStage (cfg : Cfg K) (s : State K) : State K × Option Err :=
  if (widen s).pilots.width ≤ s.core.iter then (widen s, some .indexError)     -- numpy `pilots[k, i]`
  else
    match updatePilots cfg (widen s) with
    | (s2, some e) => (s2, some e)
    | (s2, none) =>
      match storeRates cfg (widthInc s) s2 with
      | (s3, some e) => (s3, some e)
      | (s3, none) =>
        ({ s3 with occLog := s3.occLog ++ [cfg.stations.map fun st => (s3.core.occ st.id).map (·.id)],
                   core := advance s3.core }, none)

/-- one trip round the `while` loop of `Simulator.run` (simulator.py:112-141) -/
def body (cfg : Cfg K) (sched : View K → Except Err (Schedule K)) (s : State K) : State K × Option Err :=
  match eventsStage cfg s with
  | (s1, some e) => (s1, some e)
  | (s1, none) =>
    if needsSched cfg.maxRecompute s1.core then
      let s1' := { s1 with core := markInvoked s1.core }
      match schedStage cfg sched s1' with
      | .error e => (s1', some e)
      | .ok m => applyStage cfg { s1' with pilots := m, core := markScheduled s1'.core }
    else applyStage cfg s1

/-- `Simulator.run` with fuel -/
def run (cfg : Cfg K) (sched : View K → Except Err (Schedule K)) : Nat → State K → State K × Option Err
  | 0, s => (s, none)
  | n + 1, s =>
    if guard s.core then
      match body cfg sched s with
      | (s', none) => run cfg sched n s'
      | (s', some e) => (s', some e)
    else (s, none)

/-! ### schedulers for the drivers -/

/-- period ↦ schedule (`some`) or "raise" (`none`); `dflt` in every other period -/
def scripted (script : List (Nat × Option (Schedule K))) (dflt : Schedule K) :
    View K → Except Err (Schedule K) := fun v =>
  match script.lookup v.iter with
  | some (some sch) => .ok sch
  | some none => .error .schedulerFailed
  | none => .ok dflt

/-- the scheduler that returns `{}` -/
def emptySched : View K → Except Err (Schedule K) := fun _ => .ok []

end
end Acn.Sim
