/-
  SimAssemble — the ways a caller can ASSEMBLE a simulation out of the queue and the simulator objects.

  `Sim.init` / `Sim.initQ` model the one history "all events are in the queue when the `Simulator` is
  constructed, `run()` is called once".  The real objects allow more:

    q = EventQueue(first)                    -- possibly empty
    sim = Simulator(network, scheduler, q, …)   -- simulator.py:53-77: keeps THE OBJECT `q` (`self.event_queue = events`)
                                                 -- and sizes `pilot_signals` / `charging_rates` by what `q` holds NOW
    q.add_events(b₀)  (or sim.event_queue.add_events(b₀): the same object)
    sim.run()
    q.add_events(b₁); sim.run(); …           -- `run()` again continues from `_iteration` (simulator.py:112)

  `initOn ops cfg first` is the constructor on a queue holding `first`; `addEvents` is `add_events` on the shared
  queue object; `runStages` is the sequence "add a batch, `run()`" (it stops at the first `run()` that raises).
  The session table `cfg.evs` is static: it lists the EV of every PluginEvent that is ever added.

  A SECOND simulation that re-uses the queue / network / scheduler objects of a finished one is, in the model,
  simply another run from `initOn` (nothing of a finished run survives in these objects: the queue is empty and
  `get_current_events` overwrites `_timestep`, every EVSE is vacant and gets its pilot set in every period, the
  scheduler gets a new interface) — the driver answers such a request by running both scenarios independently.
-/
import AcnModel.SimQ

namespace Acn.Sim
open Acn Acn.EventCore

section
variable {K : Type} [Add K] [Sub K] [Mul K] [Div K] [Neg K] [LT K] [LE K]
  [DecidableLT K] [DecidableLE K] [OfNat K 0] [OfNat K 1] [NatCast K] [HasExp K]

/-- width of the matrices allocated by the constructor (simulator.py:63-67) -/
def ctorWidth (q : List Event) : Nat :=
  match lastTs q with
  | some l => (l + 1).toNat
  | none => 1

/-- `Simulator(network, scheduler, EventQueue(first), …)` (simulator.py:53-86) -/
def initOn (ops : QOps) (cfg : Cfg K) (first : List Event) : State K :=
  { init cfg with
      core := { EventCore.init cfg.core with pending := ops.build first },
      pilots := Pilots.Mat.zeros cfg.stations.length (ctorWidth (ops.build first)),
      rates := Pilots.Mat.zeros cfg.stations.length (ctorWidth (ops.build first)) }

/-- `event_queue.add_events(es)` on the queue object the simulator holds (event_queue.py:52-62) -/
def addEvents (ops : QOps) (es : List Event) (s : State K) : State K :=
  { s with core := { s.core with pending := es.foldl ops.push s.core.pending } }

/-- `for b in batches: q.add_events(b); sim.run()` — stops at the first `run()` that raises -/
def runStages (ops : QOps) (cfg : Cfg K) (sched : View K → Except Err (Schedule K)) (fuel : Nat) :
    List (List Event) → State K → State K × Option Err
  | [], s => (s, none)
  | b :: bs, s =>
    match runQ ops cfg sched fuel (addEvents ops b s) with
    | (s', none) => runStages ops cfg sched fuel bs s'
    | (s', some e) => (s', some e)

end
end Acn.Sim
