/-
  Time-of-use tariffs (C17): `acnportal/signals/tariffs/tou_tariff.py`, the price accessors of
  `acnportal/acnsim/interface.py` and the cost functions of `acnportal/acnsim/analysis/__init__.py`.

  The JSON files are *data* (`Gen/Tariffs.lean`, regenerated on every run); everything here is
  parametric in them.  Rates live in a carrier `K` (`Float` in the driver, `Rat` in the proofs);
  breakpoints are the exact rational value of `Decimal(doc["times"][i])` (hours).
  Instants are naive datetimes given as whole seconds since 1970-01-01 00:00:00 (`Int`);
  the code never looks at microseconds.
-/
import AcnModel.Num
import AcnModel.Calendar

namespace Acn.Tariff
open Acn Acn.Calendar

inductive Err
  | badMask            -- ValueError("dow_mask must be …")            tou_tariff.py:35
  | indexError         -- fewer tariffs than times / empty `times`     tou_tariff.py:37,41
  | notStartAtZero     -- ValueError("Schedule must start at time 0")  tou_tariff.py:41-47
  | noSchedule         -- ValueError("No valid tariff schedule")       tou_tariff.py:99
  | multipleSchedules  -- ValueError("More than one tariff schedule")  tou_tariff.py:101
  | noPrice            -- ValueError("Could not find a valid price")   tou_tariff.py:125
  | emptyMax           -- numpy: max of an empty array                 analysis:212
  deriving DecidableEq, Repr

def errName : Err → String
  | .badMask => "badMask" | .indexError => "indexError" | .notStartAtZero => "notStartAtZero"
  | .noSchedule => "noSchedule" | .multipleSchedules => "multipleSchedules"
  | .noPrice => "noPrice" | .emptyMax => "emptyMax"

/-! ### `decimal.Decimal` in the default context (prec = 28, ROUND_HALF_EVEN)

`get_tariff` computes `Decimal(hour) + Decimal(minute) / 60 + Decimal(second) / 3600`
(tou_tariff.py:113-117).  Every operation returns the exact result rounded to 28 significant
digits, so `minute/60` and `second/3600` are NOT exact.  Modelled faithfully in integer
arithmetic: a decimal is `c · 10^e`. -/

structure Dec where
  c : Nat
  e : Int
  deriving DecidableEq, Repr

/-- evaluate a number once and hand the value on (`force n f = f n`).  The kernel evaluates
    `decide` obligations by substitution; matching on the number makes it compute the literal
    first instead of copying the unevaluated expression into every use. -/
@[inline] def force {α : Type} (n : Nat) (f : Nat → α) : α :=
  match n with
  | 0 => f 0
  | k + 1 => f (k + 1)

def ndigitsAux : Nat → Nat → Nat → Nat
  | 0, _, acc => acc
  | fuel + 1, n, acc =>
    match n with
    | 0 => acc
    | n' + 1 => ndigitsAux fuel ((n' + 1) / 10) (acc + 1)

/-- number of decimal digits (0 for 0), by counting divisions by ten -/
def ndigitsSlow (n : Nat) : Nat := ndigitsAux n n 0

/-- one step of the binary descent: strip `k` digits if there are more than `k` -/
def ndStep (k : Nat) (p : Nat × Nat) : Nat × Nat :=
  match p with
  | (n, acc) => force (10 ^ k) fun pk => if pk ≤ n then (n / pk, acc + k) else (n, acc)

/-- number of decimal digits (0 for 0): binary descent below 10^128, counting above.
    (`Nat.log2` is avoided on purpose: the kernel evaluates it slowly.) -/
def ndigits (n : Nat) : Nat :=
  match n with
  | 0 => 0
  | n' + 1 =>
    force (n' + 1) fun n =>
    if 10 ^ 128 ≤ n then ndigitsSlow n
    else (ndStep 1 (ndStep 2 (ndStep 4 (ndStep 8 (ndStep 16 (ndStep 32 (ndStep 64 (n, 0)))))))).2 + 1

/-- round-half-even of the non-negative rational `num/den` to an integer -/
def halfEven (num den : Nat) : Nat :=
  force num fun num => force den fun den =>
  force (num / den) fun q => force (num % den) fun r =>
  if den < 2 * r then q + 1
  else if 2 * r = den then (if q % 2 = 1 then q + 1 else q)
  else q

/-- `roundQ` once the exponent is decided: with `g ∈ {0, 1}` the exponent is
    `e = da + g - db - prec`; the coefficient is `num/den/10^e` rounded half-even. -/
def roundQ2 (prec num den da db g : Nat) : Dec :=
  if db + prec ≤ da + g then
    force (da + g - (db + prec)) fun e => ⟨halfEven num (den * 10 ^ e), (e : Int)⟩
  else
    force (db + prec - (da + g)) fun e => ⟨halfEven (num * 10 ^ e) den, -(e : Int)⟩

/-- `roundQ` once the digit counts `da`, `db` of `num`, `den` are known:
    `10^(da-db-1) < num/den < 10^(da-db+1)`; the exponent `e` is chosen so that
    `10^(prec-1) ≤ num/den/10^e < 10^prec`, i.e. `e = da - db - prec (+1 if num/den ≥ 10^(da-db))`. -/
def roundQ1 (prec num den da db : Nat) : Dec :=
  let ge : Bool :=
    if db ≤ da then decide (den * 10 ^ (da - db) ≤ num) else decide (den ≤ num * 10 ^ (db - da))
  force (if ge then 1 else 0) fun g => roundQ2 prec num den da db g

/-- `num/den` (den > 0) correctly rounded to `prec` significant digits, half-even. -/
def roundQ (prec : Nat) (num den : Nat) : Dec :=
  force num fun num => force den fun den =>
  if num = 0 then ⟨0, 0⟩ else
  force (ndigits num) fun da => force (ndigits den) fun db => roundQ1 prec num den da db

def decPrec : Nat := 28

def Dec.ofNat (n : Nat) : Dec := ⟨n, 0⟩

/-- `x / y` in the default context -/
def Dec.div (x y : Dec) : Dec :=
  match roundQ decPrec x.c y.c with
  | ⟨c, e⟩ => ⟨c, e + x.e - y.e⟩

/-- `x + y` in the default context -/
def Dec.add (x y : Dec) : Dec :=
  match x, y with
  | ⟨xc, xe⟩, ⟨yc, ye⟩ =>
    let m := if xe ≤ ye then xe else ye
    match roundQ decPrec (xc * 10 ^ (xe - m).toNat + yc * 10 ^ (ye - m).toNat) 1 with
    | ⟨c, e⟩ => ⟨c, e + m⟩

/-- exact value -/
def Dec.toRat (d : Dec) : Rat :=
  if 0 ≤ d.e then ((d.c * 10 ^ d.e.toNat : Nat) : Rat)
  else ((d.c : Nat) : Rat) / ((10 ^ (-d.e).toNat : Nat) : Rat)

/-- tou_tariff.py:113-117 -/
def targetHour (h m s : Nat) : Dec :=
  Dec.add (Dec.add (Dec.ofNat h) (Dec.div (Dec.ofNat m) (Dec.ofNat 60)))
    (Dec.div (Dec.ofNat s) (Dec.ofNat 3600))

/-! ### Schedules -/

/-- one entry of `"schedule"` in a tariff file, as written -/
structure Raw (K : Type) where
  id : String
  start : Nat × Nat          -- effective_start  (month, day)
  stop : Nat × Nat           -- effective_end
  mask : String              -- dow_mask, verbatim
  times : List Rat           -- exact value of Decimal(times[i])
  rates : List K             -- float(tariffs[i])
  demand : K                 -- demand_charge

/-- `TariffSchedule` after `__init__` -/
structure Schedule (K : Type) where
  id : String
  start : Nat × Nat
  stop : Nat × Nat
  mask : List Bool           -- index 0 = Monday
  tariffs : List (Rat × K)   -- sorted (time, rate) pairs
  demand : K

/-- Python tuple comparison on (month, day) -/
def mdLe (a b : Nat × Nat) : Bool := decide (a.1 < b.1) || (a.1 == b.1 && decide (a.2 ≤ b.2))
def mdLt (a b : Nat × Nat) : Bool := decide (a.1 < b.1) || (a.1 == b.1 && decide (a.2 < b.2))

/-- tou_tariff.py:28-35 -/
def parseMask (s : String) : Except Err (List Bool) :=
  if s == "WEEKDAYS" then .ok [true, true, true, true, true, false, false]
  else if s == "WEEKENDS" then .ok [false, false, false, false, false, true, true]
  else if s == "ALL" then .ok [true, true, true, true, true, true, true]
  else .error .badMask

section carrier
variable {K : Type} [LT K] [DecidableLT K]

/-- `(t₁, r₁) < (t₂, r₂)` as Python compares tuples -/
def pairLt (a b : Rat × K) : Bool := decide (a.1 < b.1) || (a.1 == b.1 && decide (a.2 < b.2))

/-- stable insertion: after every element that is not greater -/
def insertPair (p : Rat × K) : List (Rat × K) → List (Rat × K)
  | [] => [p]
  | q :: qs => if pairLt p q then p :: q :: qs else q :: insertPair p qs

/-- `list.sort()` on (time, rate) tuples -/
def sortPairs (l : List (Rat × K)) : List (Rat × K) := l.foldr insertPair []

/-- `TariffSchedule.__init__` (tou_tariff.py:23-48) -/
def loadSchedule (r : Raw K) : Except Err (Schedule K) := do
  let mask ← parseMask r.mask
  if r.rates.length < r.times.length then throw .indexError
  let ts := sortPairs (r.times.zip r.rates)
  match ts with
  | [] => throw .indexError
  | p :: _ =>
    if p.1 != 0 then throw .notStartAtZero
    pure { id := r.id, start := r.start, stop := r.stop, mask, tariffs := ts, demand := r.demand }

/-- breakpoint lookup (tou_tariff.py:118-125): the list is sorted again, descending, and the
    first pair whose time is ≤ the target wins. -/
def lookup (tariffs : List (Rat × K)) (target : Rat) : Except Err K :=
  match (sortPairs tariffs).reverse.find? (fun p => decide (p.1 ≤ target)) with
  | some p => .ok p.2
  | none => .error .noPrice

end carrier

section sched
variable {K : Type}

def wrapped (s : Schedule K) : Bool := mdLt s.stop s.start

/-- tou_tariff.py:75-83: a season whose end precedes its start keeps `[start, 12-31]`, and a
    copy `[01-01, end]` is appended after all the originals. -/
def splitWrap (l : List (Schedule K)) : List (Schedule K) :=
  l.map (fun s => if wrapped s then { s with stop := (12, 31) } else s) ++
  (l.filter wrapped).map (fun s => { s with start := (1, 1) })

def insertByStart (s : Schedule K) : List (Schedule K) → List (Schedule K)
  | [] => [s]
  | q :: qs => if mdLe s.start q.start then s :: q :: qs else q :: insertByStart s qs

/-- `self._schedule.sort(key=lambda x: x.start)` (stable: elements are inserted from the right,
    each one BEFORE the already placed elements with an equal start) -/
def sortByStart (l : List (Schedule K)) : List (Schedule K) := l.foldr insertByStart []

/-- tou_tariff.py:94-99 -/
def validSchedules (l : List (Schedule K)) (md : Nat × Nat) (wd : Nat) : List (Schedule K) :=
  l.filter (fun s => s.mask.getD wd false && mdLe s.start md && mdLe md s.stop)

/-- `_get_tariff_schedule` (tou_tariff.py:86-108) -/
def selectSchedule (l : List (Schedule K)) (md : Nat × Nat) (wd : Nat) : Except Err (Schedule K) :=
  match validSchedules l md wd with
  | [] => .error .noSchedule
  | [s] => .ok s
  | _ :: _ :: _ => .error .multipleSchedules

/-- the season of a schedule as the file states it (wrap-around allowed) -/
def inSeason (s : Schedule K) (md : Nat × Nat) : Bool :=
  if wrapped s then mdLe s.start md || mdLe md s.stop else mdLe s.start md && mdLe md s.stop

end sched

section tariff
variable {K : Type} [LT K] [DecidableLT K]

/-- `TimeOfUseTariff.__init__` (tou_tariff.py:67-84) -/
def load (raws : List (Raw K)) : Except Err (List (Schedule K)) := do
  let ss ← raws.mapM loadSchedule
  pure (sortByStart (splitWrap ss))

/-- `get_tariff` once the hour value is known (tou_tariff.py:112, 118-125) -/
def getTariffH (l : List (Schedule K)) (md : Nat × Nat) (wd : Nat) (hour : Rat) : Except Err K := do
  let sch ← selectSchedule l md wd
  lookup sch.tariffs hour

/-- `get_tariff` on the fields of a datetime (tou_tariff.py:110-125) -/
def getTariff (l : List (Schedule K)) (md : Nat × Nat) (wd h m s : Nat) : Except Err K :=
  getTariffH l md wd (targetHour h m s).toRat

/-- `get_demand_charge` on the fields of a datetime (tou_tariff.py:147-158) -/
def getDemand (l : List (Schedule K)) (md : Nat × Nat) (wd : Nat) : Except Err K := do
  let sch ← selectSchedule l md wd
  pure sch.demand

end tariff

/-! ### Instants -/

/-- fields of the naive datetime `1970-01-01 + t seconds` -/
structure Fields where
  year : Int
  md : Nat × Nat
  wd : Nat
  h : Nat
  m : Nat
  s : Nat
  deriving DecidableEq, Repr

def fieldsOf (t : Int) : Fields :=
  let days := t / 86400
  let sod := (t % 86400).toNat
  let c := civilFromDays days
  { year := c.1, md := (c.2.1.toNat, c.2.2.toNat), wd := (weekday days).toNat,
    h := sod / 3600, m := sod % 3600 / 60, s := sod % 60 }

section vec
variable {K : Type} [LT K] [DecidableLT K]

def getTariffAt (l : List (Schedule K)) (t : Int) : Except Err K :=
  let f := fieldsOf t
  getTariff l f.md f.wd f.h f.m f.s

def getDemandAt (l : List (Schedule K)) (t : Int) : Except Err K :=
  let f := fieldsOf t
  getDemand l f.md f.wd

/-- `get_tariffs(start, length, period)` (tou_tariff.py:127-145); `period` in minutes.
    The comprehension stops at the first exception. -/
def getTariffs (l : List (Schedule K)) (start : Int) (n period : Nat) : Except Err (List K) :=
  (List.range n).mapM (fun (t : Nat) => getTariffAt l (start + (t : Int) * ((period : Int) * 60)))

/-- `get_tariffs` in full generality: `startUs` = the start in microseconds since the epoch
    (datetimes carry microseconds; `get_tariff` ignores them, i.e. floors to the second) and
    `stepUs` = `timedelta(minutes=period)` in microseconds, whatever `period` — an int, a float
    such as 2.5 or 0.01, even a negative number — rounds to.  A timezone-aware start is treated by
    the code (and by Python's datetime arithmetic) as its wall-clock fields: tzinfo is never
    consulted, so `startUs` is then the wall-clock reading of the start. -/
def getTariffsUs (l : List (Schedule K)) (startUs : Int) (n : Nat) (stepUs : Int) : Except Err (List K) :=
  (List.range n).mapM (fun (t : Nat) => getTariffAt l ((startUs + (t : Int) * stepUs) / 1000000))

/-- the time step a price query refers to (interface.py:688-689, 710-711):
    `start` if it is given — ANY given integer, 0 included — else the simulator's current iteration -/
def queryStep (iteration : Nat) (start : Option Int) : Int :=
  match start with
  | some k => k
  | none => (iteration : Int)

/-- `Interface.get_prices(length, start)` (interface.py:675-697): `simStart` is the simulator's
    start instant, `iteration` its current iteration, `start` the optional explicit time step. -/
def interfacePrices (l : List (Schedule K)) (simStart : Int) (period iteration : Nat)
    (start : Option Int) (n : Nat) : Except Err (List K) :=
  getTariffs l (simStart + ((period : Int) * 60) * queryStep iteration start) n period

/-- `Interface.get_demand_charge(start)` (interface.py:699-716) -/
def interfaceDemand (l : List (Schedule K)) (simStart : Int) (period iteration : Nat)
    (start : Option Int) : Except Err K :=
  getDemandAt l (simStart + ((period : Int) * 60) * queryStep iteration start)

variable [Add K] [Mul K] [Div K] [OfNat K 0] [NatCast K]

/-- `acnsim.energy_cost` (analysis/__init__.py:186-188); `agg` = aggregate power per period, kW -/
def energyCost (l : List (Schedule K)) (simStart : Int) (period : Nat) (agg : List K) : Except Err K := do
  let prices ← getTariffs l simStart agg.length period
  pure (dotK prices agg * ((period : K) / (60 : Nat)))

/-- Python/numpy `max` of a non-empty list -/
def listMax : List K → Except Err K
  | [] => .error .emptyMax
  | a :: as => .ok (as.foldl pyMax a)

/-- `acnsim.demand_charge` (analysis/__init__.py:210-212) -/
def demandCharge (l : List (Schedule K)) (simStart : Int) (agg : List K) : Except Err K := do
  let dc ← getDemandAt l simStart
  let mx ← listMax agg
  pure (dc * mx)

end vec

/-! ### The complete calendar table -/

def monthLen366 (m : Nat) : Nat :=
  if m == 2 then 29 else if m == 4 || m == 6 || m == 9 || m == 11 then 30 else 31

/-- every (month, day) that occurs in some year: 366 entries -/
def days366 : List (Nat × Nat) :=
  (List.range 12).flatMap fun i => (List.range (monthLen366 (i + 1))).map fun j => (i + 1, j + 1)

/-- executable form of "exactly one schedule is valid on every (month, day, weekday)" -/
def countValid {K : Type} (l : List (Schedule K)) (md : Nat × Nat) (wd : Nat) : Nat :=
  (validSchedules l md wd).length

/-- strictly increasing breakpoint times -/
def strictTimesB {K : Type} : List (Rat × K) → Bool
  | [] => true
  | a :: l => l.all (fun b => decide (a.1 < b.1)) && strictTimesB l

def startsAtZeroB {K : Type} : List (Rat × K) → Bool
  | [] => false
  | p :: _ => p.1 == 0

/-- every breakpoint is a non-negative whole number of half hours -/
def halfHoursB {K : Type} (l : List (Rat × K)) : Bool :=
  l.all fun p => (p.1 * 2).den == 1 && decide (0 ≤ p.1)

/-- breakpoints of a loaded schedule: strictly increasing times, the first one 0, all on half hours -/
def breakpointsOk {K : Type} (s : Schedule K) : Bool :=
  strictTimesB s.tariffs && startsAtZeroB s.tariffs && halfHoursB s.tariffs

/-- the loaded schedules of a file (empty if the loader raises) -/
def loadedOf {K : Type} [LT K] [DecidableLT K] (raws : List (Raw K)) : List (Schedule K) :=
  match load raws with
  | .ok l => l
  | .error _ => []

def loadsOk {K : Type} [LT K] [DecidableLT K] (raws : List (Raw K)) : Bool :=
  match load raws with
  | .ok _ => true
  | .error _ => false

end Acn.Tariff
