/-
  SchedView (C05) — WHAT the scheduler is handed, WHEN, and the static infrastructure description.
  An additive companion of `AcnModel/Sim.lean` (nothing there is changed):

  * `consulted cfg s`   the simulator state in which `scheduler.run()` is entered during the period
                        that starts in the loop-head state `s` (simulator.py:113-126: after the
                        period's events, when the recompute condition holds), if it is entered;
  * `handedView cfg s`  the `View` that `schedule()` receives in that period (base_algorithm.py:102-104;
                        `active_sessions()` raises before `schedule()` when a SessionInfo guard fails);
  * `runViews`          the list of views handed out along `Sim.run` — a "recording scheduler" for the
                        model (a pure scheduler parameter cannot record; `AcnProofs/C05.lean` proves that
                        `Sim.body` consults the scheduler on exactly this view and nowhere else);
  * `infra cfg`         `Interface.infrastructure_info()` per station (interface.py:436-460,
                        charging_network.py:66-96): voltage, max/min pilot, continuity, allowable pilots.
                        A function of the static configuration ONLY.
  * `infraInfo cfg nd`  EVERY field of `InfrastructureInfo` (interface.py:457-483): constraint matrix,
                        limits, phases, voltages, constraint ids, station ids + the per-station part.
                        `nd : NetDesc` carries what `Sim.Cfg` does not (phase angles, the `add_constraint`
                        calls); the constraint containers are built by the network model of C12
                        (`Network.Net.register` / `addConstraint`), a constraint-free network is the
                        0 x N view of the repaired code (F3).
-/
import AcnModel.Sim
import AcnModel.Network

namespace Acn.Sim
open Acn Acn.EventCore

section
variable {K : Type} [Add K] [Sub K] [Mul K] [Div K] [Neg K] [LT K] [LE K]
  [DecidableLT K] [DecidableLE K] [OfNat K 0] [OfNat K 1] [NatCast K] [HasExp K]

/-- the state in which `scheduler.run()` is entered in the period starting at `s` (`none`: an event
    raised, or the recompute condition of simulator.py:117-125 is false) -/
def consulted (cfg : Cfg K) (s : State K) : Option (State K) :=
  match eventsStage cfg s with
  | (_, some _) => none
  | (s1, none) =>
    if needsSched cfg.maxRecompute s1.core then some { s1 with core := markInvoked s1.core } else none

/-- the view `schedule()` receives in the period starting at `s` -/
def handedView (cfg : Cfg K) (s : State K) : Option (View K) :=
  match consulted cfg s with
  | none => none
  | some s1 => if (activeEvs cfg s1).any (fun e => !sessionInfoOk e) then none else some (view cfg s1)

/-- the views handed out along `Sim.run` (same fuel, same guard, same abort rule) -/
def runViews (cfg : Cfg K) (sched : View K → Except Err (Schedule K)) : Nat → State K → List (View K)
  | 0, _ => []
  | n + 1, s =>
    if guard s.core then
      match body cfg sched s with
      | (s', none) => (handedView cfg s).toList ++ runViews cfg sched n s'
      | (_, some _) => (handedView cfg s).toList
    else []

/-- one station of `InfrastructureInfo` -/
structure StationInfo (K : Type) where
  id : String
  voltage : K
  maxPilot : Evse.Bound K
  minPilot : K
  continuous : Bool
  allowable : List (Evse.Bound K)

/-- `Interface.infrastructure_info()`, station part -/
def infra (cfg : Cfg K) : List (StationInfo K) :=
  cfg.stations.map fun st =>
    { id := st.id, voltage := st.voltage, maxPilot := Evse.maxRate st.kind, minPilot := Evse.minRate st.kind,
      continuous := Evse.isContinuous st.kind, allowable := Evse.allowable st.kind }

/-- what `Sim.Cfg` does not carry about the network: the phase angle given to every `register_evse`
    call (registration order) and the `add_constraint(current, limit, name)` calls, in order -/
structure NetDesc (K : Type) where
  phases : List K
  constraints : List (Network.Current K × K × Option String)

/-- the constraint containers of the `ChargingNetwork` the simulator was built with
    (simcase.build_sim: all `register_evse` calls, then the `add_constraint` calls) -/
def netOf (cfg : Cfg K) (nd : NetDesc K) : Network.Net K :=
  Network.Net.run (Network.Net.run Network.Net.init (cfg.stations.map fun st => Network.Op.register st.id))
    (nd.constraints.map fun c => Network.Op.add c.1 c.2.1 c.2.2)

/-- `InfrastructureInfo`, every field (interface.py:176-187) -/
structure Infra (K : Type) where
  constraintMatrix : List (List K)       -- M rows of length N
  constraintLimits : List K
  phases : List K
  voltages : List K
  constraintIds : List String
  stationIds : List String
  stations : List (StationInfo K)        -- max_pilot, min_pilot, allowable_pilots, is_continuous

/-- `Interface._infrastructure_info()` (interface.py:457-483); `constraint_matrix is None` is handed
    out as the 0 x N matrix (repaired F3) -/
def infraInfo (cfg : Cfg K) (nd : NetDesc K) : Infra K :=
  let n := netOf cfg nd
  { constraintMatrix := n.matrix.getD [], constraintLimits := n.magnitudes, phases := nd.phases,
    voltages := cfg.stations.map (·.voltage), constraintIds := n.index, stationIds := n.stations,
    stations := infra cfg }

end
end Acn.Sim
