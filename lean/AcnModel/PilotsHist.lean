/-
  Histories of a simulation that contain steps which are NOT schedule submissions: a JSON save /
  restore (`Simulator.from_json(sim.to_json())`) and `Simulator.update_scheduler`, interleaved with the
  loop trips of `run()` / `step()` modelled in `AcnModel/Pilots.lean`.

  The state of such a history is the key order of `network._EVSEs` (= `station_ids`) TOGETHER with the
  pilot matrix, whose rows are positional: row `i` belongs to `station_ids[i]`
  (charging_network.py:423-428 `update_pilots`, simulator.py:342-359 `pilot_signals_as_df` /
  `index_of_evse`).  Everything observable is read BY STATION ID.
-/
import AcnModel.Pilots

namespace Acn.Pilots
open Acn

section
variable {K : Type} [OfNat K 0]

/-- `Simulator._to_dict` (simulator.py:416) hands `pilot_signals` to `NpEncoder` (base.py:174-175:
    `ndarray.tolist()`): the list of rows. -/
def toJsonRows (m : Mat K) : List (List K) := m.rows

/-- `Simulator._from_dict` (simulator.py:517): `np.array(attribute_dict["pilot_signals"])`.  The width of
    the array read back is the length of its first row.  `none`: no rows at all (numpy builds a 1-D array
    of shape `(0,)`: it has no `shape[1]`, every later use raises) or rows of different lengths (not a
    2-D float array). -/
def ofJsonRows : List (List K) → Option (Mat K)
  | [] => none
  | r :: rs => if rs.all (fun x => x.length == r.length) then some ⟨r :: rs, r.length⟩ else none

/-- the matrix of `Simulator.from_json(sim.to_json())` -/
def restoreMat (m : Mat K) : Option (Mat K) := ofJsonRows (toJsonRows m)

/-- The order of `network._EVSEs` after a save / restore.  `_to_dict` (charging_network.py:571-575)
    builds a dict in `_EVSEs` order; `to_json` (base.py:259-267) calls `json.dump(s)(…, cls=NpEncoder)`
    WITHOUT `sort_keys`: members are written in insertion order; `json.load(s)` builds its dict in
    document order and `_from_dict` (charging_network.py:598-604) fills `_EVSEs` in that order.
    So: unchanged. -/
def jsonKeyOrder (ids : List String) : List String := ids

/-- one step of the history of a simulation as far as the pilots are concerned -/
inductive HStep (K : Type) where
  /-- a loop trip of `run()` / `step()` with its growth target -/
  | trip (p : Period K) (w : Nat)
  /-- `sim = Simulator.from_json(sim.to_json())` (string, buffer or file) -/
  | restore
  /-- `sim.update_scheduler(_)` (simulator.py:540-544: scheduler, interface, `max_recompute` — neither
      the matrix nor the network is touched) -/
  | swap

inductive HistErr | run (e : RunErr) | restoreShape
  deriving DecidableEq, Repr

/-- the loop trips of a history -/
def tripsOfHist : List (HStep K) → List (Period K × Nat)
  | [] => []
  | .trip p w :: hs => (p, w) :: tripsOfHist hs
  | .restore :: hs => tripsOfHist hs
  | .swap :: hs => tripsOfHist hs

/-- A whole history; `ord` is what a save / restore does to the key order of `_EVSEs`.  The log holds,
    per trip, what every EVSE received, BY STATION ID (`ids[i] ↦ pilots[i, t]`). -/
def runHistWith (ord : List String → List String) (ids : List String) (m : Mat K) :
    List (HStep K) → Except HistErr (List String × Mat K × List (List (String × K)))
  | [] => .ok (ids, m, [])
  | .trip p w :: hs =>
    match periodStepW ids m p w with
    | .error e => .error (.run e)
    | .ok (m', col) =>
      match runHistWith ord ids m' hs with
      | .error e => .error e
      | .ok (ids', m'', cols) => .ok (ids', m'', ids.zip col :: cols)
  | .restore :: hs =>
    match restoreMat m with
    | none => .error .restoreShape
    | some m' => runHistWith ord (ord ids) m' hs
  | .swap :: hs => runHistWith ord ids m hs

/-- the history as the code runs it -/
def runHist (ids : List String) (m : Mat K) (hs : List (HStep K)) :
    Except HistErr (List String × Mat K × List (List (String × K))) :=
  runHistWith jsonKeyOrder ids m hs

/-- the cell recorded for station `st` in period `τ`, located as `index_of_evse` does -/
def getById (ids : List String) (m : Mat K) (st : String) (τ : Nat) : K := m.get (ids.idxOf st) τ

end
end Acn.Pilots
