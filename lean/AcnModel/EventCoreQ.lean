/-
  EventCore over an ARBITRARY event-queue implementation.

  `EventCore.lean` fixes one queue: pending events in insertion order, `popCurrent` = stable
  sort.  Here the three queue operations the simulator uses (construct from the event list,
  `get_current_events`, `add_event`) are a parameter `QOps`; the pending events are still held
  as a `List Event`, but in WHATEVER order the implementation keeps them (for CPython's `heapq`:
  the heap array in array order).  `canonQ` is the queue of `EventCore.lean`, `heapQ` is the
  transcription of CPython's array heap from `AcnModel/Queue.lean` — with it, the order in which
  equal-key events of one period are processed is exactly the real `EventQueue`'s.

  Everything else (`process`, `body`, `run`) is the same code as in `EventCore.lean`.
-/
import AcnModel.EventCore
import AcnModel.Queue

namespace Acn.EventCore
open Acn

structure QOps where
  build : List Event → List Event                        -- `EventQueue(events)`
  pop : Nat → List Event → List Event × List Event      -- `get_current_events(t)`: (popped, rest)
  push : List Event → Event → List Event                -- `add_event`

/-- the queue of `EventCore.lean` -/
def canonQ : QOps := { build := id, pop := popCurrent, push := fun q e => q ++ [e] }

/-- CPython's `heapq` array heap (event_queue.py on top of Lib/heapq.py), array order -/
def heapQ : QOps :=
  { build := fun es => (Queue.addEvents Queue.empty0 es).heap.toList
    pop := fun t q =>
      ((Queue.getCurrent { heap := q.toArray, timestep := 0 } (t : Int)).2,
       (Queue.getCurrent { heap := q.toArray, timestep := 0 } (t : Int)).1.heap.toList)
    push := fun q e => (Heap.heappush Event.keyLt q.toArray e).toList }

def initQ (ops : QOps) (cfg : Cfg) : Core := { init cfg with pending := ops.build (initPending cfg) }

/-- `_process_event` (simulator.py:203-226), the unplug event pushed through `ops.push` -/
def processQ (ops : QOps) (cfg : Cfg) (e : Event) (c : Core) : Core × Option Err :=
  match e.kind with
  | .plugin =>
    match findSession cfg e.sess with
    | none => (c, some .noSuchSession)
    | some x =>
      if cfg.stations.contains x.station then
        match c.occ x.station with
        | some _ => (c, some .stationOccupied)
        | none =>
          ({ c with occ := setOcc c.occ x.station (some x), evHist := c.evHist ++ [x.id],
                    pending := ops.push c.pending (unplugEv x), resolve := true, lastUpd := some e.ts }, none)
      else (c, some .keyError)
  | .unplug =>
    match findSession cfg e.sess with
    | none => (c, some .noSuchSession)
    | some x =>
      if cfg.stations.contains x.station then
        ({ c with occ := if unplugHits c x then setOcc c.occ x.station none else c.occ,
                  resolve := true, lastUpd := some e.ts }, none)
      else (c, some .keyError)
  | .recompute => ({ c with resolve := true }, none)

def stepQ (ops : QOps) (cfg : Cfg) (e : Event) (c : Core) : Core × Option Err :=
  processQ ops cfg e { c with eventHist := c.eventHist ++ [e] }

def processAllQ (ops : QOps) (cfg : Cfg) : List Event → Core → Core × Option Err
  | [], c => (c, none)
  | e :: es, c =>
    match stepQ ops cfg e c with
    | (c2, none) => processAllQ ops cfg es c2
    | (c2, some err) => (c2, some err)

def eventsStageQ (ops : QOps) (cfg : Cfg) (c : Core) : Core × Option Err :=
  processAllQ ops cfg (ops.pop c.iter c.pending).1 { c with pending := (ops.pop c.iter c.pending).2 }

def bodyQ (ops : QOps) (cfg : Cfg) (sched apply : Core → Option Err) (c : Core) : Core × Option Err :=
  match eventsStageQ ops cfg c with
  | (c1, some e) => (c1, some e)
  | (c1, none) =>
    if needsSched cfg.maxRecompute c1 then
      match sched (markInvoked c1) with
      | some e => (markInvoked c1, some e)
      | none => finish apply (markScheduled (markInvoked c1))
    else finish apply c1

def runQ (ops : QOps) (cfg : Cfg) (sched apply : Core → Option Err) : Nat → Core → Core × Option Err
  | 0, c => (c, none)
  | n + 1, c =>
    if guard c then
      match bodyQ ops cfg sched apply c with
      | (c', none) => runQ ops cfg sched apply n c'
      | (c', some e) => (c', some e)
    else (c, none)

end Acn.EventCore
