/-
  RegistryJson — the CONCRETE scalar codec of the registry model and the JSON document of a registry.

  `AcnModel/RegistrySim.lean` writes every leaf of the simulator's registry as a tagged text ("i:…", "s:…",
  "b:…", "f:…", "m:…", "null") through an abstract `Show K` and reads it back through an abstract `Read K`;
  the round-trip theorems of C09 assume `Lawful sh rd` (the readers invert the writers).  Here both are
  instantiated with the text that CPython's `json` module writes and reads (`AcnModel/JsonText.lean`):

    Python `int`    "i:" ++ `int.__repr__`            read by the document parser, must come back as an `int`
    Python `str`    "s:" ++ the string itself          (escaping happens when the DOCUMENT is written: `registryJ`)
    `None`          "null"
    `bool`          "b:true" / "b:false"
    Python `float`  "f:" ++ `float.__repr__`           read by `float()`
    matrix          "m:" ++ `json.dumps` of {"w": width, "rows": [[float, …], …]}   (the width is explicit
                    because the model's `Mat` keeps it for a matrix without rows)

  The only thing NOT defined here is the pair `float.__repr__` / `float()`: `DoubleText K`, and the one
  assumption about it, `DoubleText.RoundTrip`:
    * `read_repr`:  `float(repr(x)) = x` — `repr` prints the shortest decimal text that rounds to `x` and
                    `float()` rounds correctly (IEEE 754 binary64, CPython ≥ 3.1 on every supported platform;
                    `NaN` / `Infinity` / `-Infinity` for the non-finite values, all NaNs identified);
    * `float_tok`:  that text consists of number characters, starts like a number / `NaN` / `Infinity` and is
                    not an integer text (`repr` of a float always shows a `.`, an exponent, `inf` or `nan`).
  `AcnProofs/Lemmas/RegistryJsonLawful.lean` proves `Lawful (jsonShow d) (jsonRead d)` from it.

  `registryJ ctx root` is the registry as the Python value handed to `json.dumps` (base.py:236, 264): typed
  leaves, references as the decimal id strings that `f"{id(self)}"` produces, `{"class", "attributes"}` per
  object, `context_dict` keyed by id in insertion order.  (The model's `Store` flattens dicts and tuples inside
  list-valued attributes, so the nesting of `_queue` / `ev_history` / `_EVSEs` is flattened here too; the version
  fields are constants the model does not track.)
-/
import AcnModel.RegistrySim
import AcnModel.JsonText

namespace Acn.RegistryJson
open Acn Acn.Registry Acn.RegistrySim Acn.JsonText

/-- `float.__repr__` as `json.dumps` writes it, and `float()` as `json.loads` applies it -/
structure DoubleText (K : Type) where
  repr : K → List Char
  ofText : List Char → Option K

/-- THE assumption about doubles (see the header): shortest round-trip printing, read back exactly; the text is
    a float token -/
structure DoubleText.RoundTrip {K : Type} (d : DoubleText K) : Prop where
  read_repr : ∀ x, d.ofText (d.repr x) = some x
  float_tok : ∀ x, isFloatTok (d.repr x) = true

variable {K : Type}

/-- a matrix as the value that is written -/
def matJ (d : DoubleText K) (m : Pilots.Mat K) : JVal :=
  .obj [("w", .int m.width), ("rows", .arr (m.rows.map fun r => .arr (r.map fun x => .num (d.repr x))))]

def numOfJ (d : DoubleText K) : JVal → Option K
  | .num t => d.ofText t
  | _ => none

def rowOfJ (d : DoubleText K) : JVal → Option (List K)
  | .arr r => sequence (r.map (numOfJ d))
  | _ => none

def matOfJ (d : DoubleText K) : JVal → Option (Pilots.Mat K)
  | .obj [(k1, .int w), (k2, .arr rows)] =>
    if k1 = "w" ∧ k2 = "rows" ∧ 0 ≤ w then
      (sequence (rows.map (rowOfJ d))).map fun rs => ⟨rs, w.toNat⟩
    else none
  | _ => none

def jsonShow (d : DoubleText K) : Show K :=
  { num := fun x => String.ofList (d.repr x),
    mat := fun m => String.ofList (render (matJ d m)) }

/-- the text behind a two-character tag -/
def untag (a b : Char) (t : String) : Option (List Char) :=
  match t.toList with
  | x :: y :: r => if x = a ∧ y = b then some r else none
  | _ => none

def intOfJ : Option JVal → Option Int
  | some (.int n) => some n
  | _ => none

def jsonRead (d : DoubleText K) : Read K :=
  { num := fun t => (untag 'f' ':' t).bind d.ofText,
    mat := fun t => (untag 'm' ':' t).bind fun p => (parse p).bind (matOfJ d),
    int := fun t => (untag 'i' ':' t).bind fun p => intOfJ (parse p),
    nat := fun t => (untag 'i' ':' t).bind fun p =>
      match intOfJ (parse p) with
      | some n => if 0 ≤ n then some n.toNat else none
      | none => none,
    str := fun t => (untag 's' ':' t).map String.ofList }

/-! ### the document -/

/-- a tagged leaf as the typed Python value; a leaf the model does not type ("-": static configuration it
    does not track, or a text that does not have the shape its tag promises) is written as the tagged text -/
def scalarJ (t : String) : JVal :=
  let cs := t.toList
  if cs = ['n', 'u', 'l', 'l'] then .null
  else
    match cs with
    | a :: b :: p =>
      if b = ':' then
        if a = 's' then .str (String.ofList p)
        else if a = 'i' then (if isIntTok p && renderInt (intOfTok p) == p then .int (intOfTok p) else .str t)
        else if a = 'b' then
          (if p = ['t', 'r', 'u', 'e'] then .bool true else if p = ['f', 'a', 'l', 's', 'e'] then .bool false
           else .str t)
        else if a = 'f' then (if isFloatTok p then .num p else .str t)
        else if a = 'm' then
          (match parse p with
           | some v => if v.wf then v else .str t
           | none => .str t)
        else .str t
      else .str t
    | _ => .str t

def itemJ : Item → JVal
  | .scalar t => scalarJ t
  | .ref i => .str (toString i)

def valJ : Val → JVal
  | .scalar t => scalarJ t
  | .ref i => .str (toString i)
  | .list l => .arr (l.map itemJ)

def objJ (o : Obj) : JVal :=
  .obj [("class", .str o.cls), ("attributes", .obj (o.attrs.map fun a => (a.1, valJ a.2)))]

/-- `obj._to_registry()[0]` -/
def registryJ (ctx : Store) (root : Id) : JVal :=
  .obj [("id", .str (toString root)),
        ("context_dict", .obj (ctx.map fun e => (toString e.1, objJ e.2))),
        ("version", .null), ("dependency_versions", .null)]

/-- `obj.to_json()` -/
def toJsonText (ctx : Store) (root : Id) : String := renderS (registryJ ctx root)

end Acn.RegistryJson
