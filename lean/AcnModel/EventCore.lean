/-
  EventCore — the run loop of `Simulator.run` WITHOUT numerics
  (acnportal/acnsim/simulator.py:94-141 `run`, 203-226 `_process_event`;
   events/event_queue.py:72-85 `get_current_events`;
   network/charging_network.py:326-386 `plugin` / `unplug`; models/evse.py:155-185).

  State: iteration counter, pending events (insertion order; the heap is a multiset, the order
  in which equal keys leave it is NOT fixed by the properties), station occupancy, the
  `_resolve` flag, `_last_schedule_update`, `event_history`, `ev_history` keys, and the list
  of periods in which the scheduler was invoked.  Sessions are static data; an event refers
  to its EV by session id (`Valid` requires distinct ids).

  A step returns the state reached AND an optional error: when the real code raises, the
  simulator object keeps whatever was mutated before the raise (needed for crash/resume, C09).
-/
import AcnModel.Event

namespace Acn.EventCore
open Acn

structure Session where
  id : String
  station : String
  arrival : Int
  departure : Int
  deriving DecidableEq, Repr, Inhabited

/-- error classes of the whole simulator model (the core raises only the first three;
    `noSuchSession` is model-internal: an EV event whose session is not in the static table) -/
inductive Err
  | stationOccupied | keyError | noSuchSession
  | schedulerFailed | invalidSchedule | invalidRate | valueError | indexError
  deriving DecidableEq, Repr, Inhabited

def Err.name : Err → String
  | .stationOccupied => "StationOccupied"
  | .keyError => "KeyError"
  | .noSuchSession => "NoSuchSession"
  | .schedulerFailed => "SchedulerFailed"
  | .invalidSchedule => "InvalidSchedule"
  | .invalidRate => "InvalidRate"
  | .valueError => "ValueError"
  | .indexError => "IndexError"

/-- static data of a run -/
structure Cfg where
  stations : List String                 -- `network.station_ids`
  sessions : List Session                -- one PluginEvent each, in this (insertion) order
  recomputes : List (Int × String)       -- extra RecomputeEvents `(timestamp, tag)`; tags only
                                         -- keep the events distinguishable
  maxRecompute : Option Nat              -- `scheduler.max_recompute`

structure Core where
  iter : Nat
  pending : List Event
  occ : String → Option Session          -- `EVSE._ev` per station id
  resolve : Bool
  lastUpd : Option Int
  eventHist : List Event
  evHist : List String                   -- keys of `ev_history` in plug-in order
  invoked : List Nat                     -- periods in which `scheduler.run()` was called

def plugEv (x : Session) : Event := ⟨x.arrival, .plugin, x.id⟩
def unplugEv (x : Session) : Event := ⟨x.departure, .unplug, x.id⟩
def recEv (r : Int × String) : Event := ⟨r.1, .recompute, r.2⟩

/-- the event queue handed to the `Simulator` constructor -/
def initPending (cfg : Cfg) : List Event := cfg.sessions.map plugEv ++ cfg.recomputes.map recEv

def init (cfg : Cfg) : Core :=
  { iter := 0, pending := initPending cfg, occ := fun _ => none, resolve := false,
    lastUpd := none, eventHist := [], evHist := [], invoked := [] }

def findSession (cfg : Cfg) (id : String) : Option Session := cfg.sessions.find? (fun x => x.id == id)

def setOcc (occ : String → Option Session) (st : String) (v : Option Session) : String → Option Session :=
  fun s => if s = st then v else occ s

/-- insert into a key-sorted list in front of the first element that is not smaller
    (so that `sortByKey` below is stable) -/
def insertByKey (e : Event) : List Event → List Event
  | [] => [e]
  | d :: ds => if e.keyLe d then e :: d :: ds else d :: insertByKey e ds

/-- stable insertion sort by the heap key `(timestamp, precedence)` -/
def sortByKey (l : List Event) : List Event := l.foldr insertByKey []

/-- `get_current_events(t)` (event_queue.py:72-85): everything with `timestamp ≤ t`, in heap
    order, is removed from the queue. -/
def popCurrent (t : Nat) (pending : List Event) : List Event × List Event :=
  (sortByKey (pending.filter fun e => decide (e.ts ≤ (t : Int))),
   pending.filter fun e => !decide (e.ts ≤ (t : Int)))

/-- does this unplug event actually detach the occupant?  (charging_network.py:371-380:
    the EVSE is vacated only when the occupant's session id matches) -/
def unplugHits (c : Core) (x : Session) : Bool :=
  match c.occ x.station with
  | some y => y.id == x.id
  | none => false

/-- `_process_event` (simulator.py:203-226) -/
def process (cfg : Cfg) (e : Event) (c : Core) : Core × Option Err :=
  match e.kind with
  | .plugin =>
    match findSession cfg e.sess with
    | none => (c, some .noSuchSession)
    | some x =>
      -- network.plugin: KeyError for an unregistered station, EVSE.plugin: StationOccupiedError
      if cfg.stations.contains x.station then
        match c.occ x.station with
        | some _ => (c, some .stationOccupied)
        | none =>
          ({ c with occ := setOcc c.occ x.station (some x), evHist := c.evHist ++ [x.id],
                    pending := c.pending ++ [unplugEv x], resolve := true, lastUpd := some e.ts }, none)
      else (c, some .keyError)
  | .unplug =>
    match findSession cfg e.sess with
    | none => (c, some .noSuchSession)
    | some x =>
      if cfg.stations.contains x.station then
        ({ c with occ := if unplugHits c x then setOcc c.occ x.station none else c.occ,
                  resolve := true, lastUpd := some e.ts }, none)
      else (c, some .keyError)
  | .recompute => ({ c with resolve := true }, none)

/-- one event of `for e in current_events: event_history.append(e); _process_event(e)`
    (simulator.py:114-116): the history entry is written BEFORE the event is processed -/
def step (cfg : Cfg) (e : Event) (c : Core) : Core × Option Err :=
  process cfg e { c with eventHist := c.eventHist ++ [e] }

/-- the `for` loop.  The events after a raising one were already taken off the queue and are lost. -/
def processAll (cfg : Cfg) : List Event → Core → Core × Option Err
  | [], c => (c, none)
  | e :: es, c =>
    match step cfg e c with
    | (c2, none) => processAll cfg es c2
    | (c2, some err) => (c2, some err)

/-- pop + process (simulator.py:113-116) -/
def eventsStage (cfg : Cfg) (c : Core) : Core × Option Err :=
  processAll cfg (popCurrent c.iter c.pending).1 { c with pending := (popCurrent c.iter c.pending).2 }

/-- the `if` of simulator.py:117-125 -/
def needsSched (mr : Option Nat) (c : Core) : Bool :=
  c.resolve ||
    (match mr with
     | none => false
     | some m =>
       match c.lastUpd with
       | none => true
       | some u => decide ((m : Int) ≤ (c.iter : Int) - u))

def markInvoked (c : Core) : Core := { c with invoked := c.invoked ++ [c.iter] }

/-- simulator.py:130-131 -/
def markScheduled (c : Core) : Core := { c with lastUpd := some (c.iter : Int), resolve := false }

def advance (c : Core) : Core := { c with iter := c.iter + 1 }

/-- pilots applied, rates stored, `iteration += 1` — `apply` stands for `update_pilots`, which
    may raise (`InvalidRateError`) -/
def finish (apply : Core → Option Err) (c : Core) : Core × Option Err :=
  match apply c with
  | some e => (c, some e)
  | none => (advance c, none)

/-- one trip round the `while` loop of `run()`.  `sched` stands for `scheduler.run()` followed by
    `_update_schedules` (either may raise; the schedule itself does not touch the core). -/
def body (cfg : Cfg) (sched apply : Core → Option Err) (c : Core) : Core × Option Err :=
  match eventsStage cfg c with
  | (c1, some e) => (c1, some e)
  | (c1, none) =>
    if needsSched cfg.maxRecompute c1 then
      match sched (markInvoked c1) with
      | some e => (markInvoked c1, some e)
      | none => finish apply (markScheduled (markInvoked c1))
    else finish apply c1

/-- loop guard of the repaired code (simulator.py:112): `not empty() or _resolve` -/
def guard (c : Core) : Bool := !c.pending.isEmpty || c.resolve

/-- `run()` with fuel.  Returns the final state and the error that aborted the run, if any. -/
def run (cfg : Cfg) (sched apply : Core → Option Err) : Nat → Core → Core × Option Err
  | 0, c => (c, none)
  | n + 1, c =>
    if guard c then
      match body cfg sched apply c with
      | (c', none) => run cfg sched apply n c'
      | (c', some e) => (c', some e)
    else (c, none)

/-- the scheduler / pilot application that never fails -/
def noFail : Core → Option Err := fun _ => none

/-- enough fuel for any run: one more than the largest timestamp around, plus slack for
    malformed sessions whose unplug is processed one period after the plug-in -/
def fuelFor (cfg : Cfg) : Nat :=
  let m := (cfg.sessions.map fun x => max x.arrival x.departure) ++ cfg.recomputes.map (·.1)
  (m.foldl max 0).toNat + 3

end Acn.EventCore
