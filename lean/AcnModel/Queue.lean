/-
  The event queue — acnportal/acnsim/events/event_queue.py — in two layers.

  (1) `Acn.QSpec`  the SPEC layer: the pending events as a list in insertion order (a
      multiset); `getEvent` removes a key-minimal element (the executable instance picks the
      first inserted one; the theorems are about the relation `SpecStep`, which allows every
      key-minimal choice and therefore covers `heapq`'s).
  (2) `Acn.Heap` / `Acn.Queue`  the IMPLEMENTATION layer: an array binary heap transcribing
      CPython's `heapq.heappush` / `heappop` (Lib/heapq.py of the interpreter in /venv, 3.12;
      `Modules/_heapqmodule.c` is the same algorithm, comparison for comparison), with entries
      compared as Python compares the tuples `(timestamp, event)`: `Event.keyLt`.
      The driver executes THIS layer, so even the order among equal keys and the array layout
      written by `to_json` are compared exactly with the real queue.

  No Mathlib here.  Loops carry fuel; that the fuel always suffices is part of the theorems
  in `AcnProofs/Lemmas/QueueHeap.lean` (the invariants are proved for the fuel used here).
-/
import AcnModel.Event

namespace Acn

/-- the only exception the queue API raises by itself: `heappop` on an empty list
    (`IndexError`, event_queue.py:70) -/
inductive QErr | indexError
  deriving DecidableEq, Repr, Inhabited

def QErr.name : QErr → String
  | .indexError => "IndexError"

/-! ## CPython `heapq` on an array, generic in the element type and its `<` -/
namespace Heap

variable {α : Type} (lt : α → α → Bool)

/-- heapq.py:207-216, the `while pos > startpos` loop of `_siftdown`: follow the path to the
    root, moving parents down until `newitem` fits.  Returns the array and the final `pos`.
    `pos` strictly decreases, so `fuel = pos` suffices. -/
def siftdownLoop (newitem : α) (startpos : Nat) : Nat → Array α → Nat → Array α × Nat
  | 0, a, pos => (a, pos)
  | fuel + 1, a, pos =>
    if pos > startpos then
      let parentpos := (pos - 1) / 2                      -- (pos - 1) >> 1
      match a[parentpos]? with
      | some parent =>
        if lt newitem parent then                         -- if newitem < parent:
          siftdownLoop newitem startpos fuel (a.setIfInBounds pos parent) parentpos
        else (a, pos)                                     -- break
      | none => (a, pos)                                  -- unreachable: parentpos < pos < len
    else (a, pos)

/-- heapq.py:205-217 `_siftdown(heap, startpos, pos)` -/
def siftdown (a : Array α) (startpos pos : Nat) : Array α :=
  match a[pos]? with
  | some newitem =>
    let r := siftdownLoop lt newitem startpos pos a pos
    r.1.setIfInBounds r.2 newitem                         -- heap[pos] = newitem
  | none => a                                             -- unreachable

/-- heapq.py:268-271: index of the smaller child,
    `if rightpos < endpos and not heap[childpos] < heap[rightpos]: childpos = rightpos` -/
def smallerChild (a : Array α) (endpos childpos : Nat) : Nat :=
  let rightpos := childpos + 1
  match a[childpos]?, a[rightpos]? with
  | some c, some r => if rightpos < endpos && !(lt c r) then rightpos else childpos
  | _, _ => childpos                                      -- no right child

/-- heapq.py:266-274, the `while childpos < endpos` loop of `_siftup`: bubble the smaller
    child up until the hole is at a leaf.  `pos` strictly increases below `endpos`. -/
def siftupLoop (endpos : Nat) : Nat → Array α → Nat → Array α × Nat
  | 0, a, pos => (a, pos)
  | fuel + 1, a, pos =>
    let childpos := 2 * pos + 1                           -- leftmost child position
    if childpos < endpos then
      let childpos := smallerChild lt a endpos childpos
      match a[childpos]? with
      | some c => siftupLoop endpos fuel (a.setIfInBounds pos c) childpos   -- heap[pos] = heap[childpos]
      | none => (a, pos)                                  -- unreachable
    else (a, pos)

/-- heapq.py:260-278 `_siftup(heap, pos)`: sift the hole to a leaf, put `newitem` there and
    bubble it up with `_siftdown(heap, startpos, pos)`. -/
def siftup (a : Array α) (pos : Nat) : Array α :=
  match a[pos]? with
  | some newitem =>
    let r := siftupLoop lt a.size a.size a pos
    siftdown lt (r.1.setIfInBounds r.2 newitem) pos r.2
  | none => a

/-- heapq.py:130-133 `heappush` -/
def heappush (a : Array α) (item : α) : Array α :=
  siftdown lt (a.push item) 0 a.size                      -- _siftdown(heap, 0, len(heap)-1)

/-- heapq.py:135-143 `heappop`; `heap.pop()` raises `IndexError` on an empty list -/
def heappop (a : Array α) : Except QErr (α × Array α) :=
  match a.back? with
  | none => .error .indexError
  | some lastelt =>
    let a := a.pop
    match a[0]? with
    | some returnitem => .ok (returnitem, siftup lt (a.setIfInBounds 0 lastelt) 0)
    | none => .ok (lastelt, a)

end Heap

/-! ## Operations and observable results, shared by both layers -/

inductive QOp
  | add (e : Event)            -- add_event
  | addAll (es : List Event)   -- add_events
  | getEvent                   -- get_event
  | getCurrent (t : Int)       -- get_current_events(t)
  | len | empty | last         -- __len__, empty(), get_last_timestamp()
  | roundtrip                  -- from_json(to_json(q)); continue on the restored queue
  deriving Repr, DecidableEq

inductive QOut
  | unit
  | event (e : Event)
  | events (es : List Event)
  | nat (n : Nat)
  | bool (b : Bool)
  | ts (o : Option Int)
  | err (e : QErr)
  /-- what `_to_dict` writes: the `_queue` array `[(ts, event)]` in array order, `_timestep` -/
  | wire (w : List (Int × Event)) (timestep : Int)
  deriving Repr, DecidableEq

/-- `max(xs, key=lambda x: x[0])[0]` (event_queue.py:94): the first maximal element's ts -/
def lastTsList : List Event → Option Int
  | [] => none
  | x :: xs => some (xs.foldl (fun best y => if best < y.ts then y.ts else best) x.ts)

/-- `_to_dict` (event_queue.py:99-112): the heap array as `(ts, event)` pairs, in array order -/
def toWire (l : List Event) : List (Int × Event) := l.map (fun e => (e.ts, e))

/-- `_from_dict` (event_queue.py:114-134): the tuple's timestamp is the serialised one, the
    event is rebuilt from the registry (its own `timestamp` attribute is serialised too and is
    equal for every entry made by `add_event`). -/
def fromWire (w : List (Int × Event)) : List Event := w.map (fun p => { p.2 with ts := p.1 })

/-! ## Implementation layer: EventQueue over the array heap -/
namespace Queue

structure State where
  heap : Array Event := #[]
  timestep : Int := 0          -- `_timestep`, written by get_current_events, serialised
  deriving Repr, DecidableEq

def empty0 : State := {}

/-- event_queue.py:41-50 -/
def addEvent (s : State) (e : Event) : State :=
  { s with heap := Heap.heappush Event.keyLt s.heap e }

/-- event_queue.py:52-62 -/
def addEvents (s : State) (es : List Event) : State := es.foldl addEvent s

/-- event_queue.py:64-70 -/
def getEvent (s : State) : Except QErr (Event × State) :=
  match Heap.heappop Event.keyLt s.heap with
  | .ok (e, h) => .ok (e, { s with heap := h })
  | .error e => .error e

/-- event_queue.py:83-84: `while not self.empty() and self._queue[0][0] <= self._timestep`.
    Every pass removes one entry, so `fuel = len` suffices. -/
def getCurrentLoop (t : Int) : Nat → State → List Event → State × List Event
  | 0, s, acc => (s, acc)
  | fuel + 1, s, acc =>
    match s.heap[0]? with
    | some top =>
      if top.ts ≤ t then
        match getEvent s with
        | .ok (e, s') => getCurrentLoop t fuel s' (acc ++ [e])
        | .error _ => (s, acc)                            -- unreachable: the heap is not empty
      else (s, acc)
    | none => (s, acc)

/-- event_queue.py:72-85 -/
def getCurrent (s : State) (t : Int) : State × List Event :=
  let s := { s with timestep := t }
  getCurrentLoop t s.heap.size s []

def len (s : State) : Nat := s.heap.size
def empty (s : State) : Bool := s.heap.size == 0
/-- event_queue.py:87-97 -/
def lastTimestamp (s : State) : Option Int := lastTsList s.heap.toList

def toJson (s : State) : List (Int × Event) × Int := (toWire s.heap.toList, s.timestep)
def fromJson (w : List (Int × Event) × Int) : State := { heap := (fromWire w.1).toArray, timestep := w.2 }

def step (s : State) : QOp → State × QOut
  | .add e => (addEvent s e, .unit)
  | .addAll es => (addEvents s es, .unit)
  | .getEvent =>
    match getEvent s with
    | .ok (e, s') => (s', .event e)
    | .error er => (s, .err er)
  | .getCurrent t => let r := getCurrent s t; (r.1, .events r.2)
  | .len => (s, .nat (len s))
  | .empty => (s, .bool (empty s))
  | .last => (s, .ts (lastTimestamp s))
  | .roundtrip => let w := toJson s; (fromJson w, .wire w.1 w.2)

/-- run an operation sequence; the trace pairs every operation with what it returned -/
def run (s : State) : List QOp → State × List (QOp × QOut)
  | [] => (s, [])
  | op :: ops =>
    let r := step s op
    let rest := run r.1 ops
    (rest.1, (op, r.2) :: rest.2)

end Queue

/-! ## Spec layer: the pending multiset -/
namespace QSpec

structure State where
  pending : List Event := []     -- insertion order
  timestep : Int := 0
  deriving Repr, DecidableEq

def empty0 : State := {}

/-- the first inserted among the key-minimal elements of `x :: xs` -/
def pickFirst (x : Event) (xs : List Event) : Event :=
  xs.foldl (fun best y => if y.keyLt best then y else best) x

def add (s : State) (e : Event) : State := { s with pending := s.pending ++ [e] }
def addAll (s : State) (es : List Event) : State := { s with pending := s.pending ++ es }

def getEvent (s : State) : Except QErr (Event × State) :=
  match s.pending with
  | [] => .error .indexError
  | x :: xs => let e := pickFirst x xs; .ok (e, { s with pending := (x :: xs).erase e })

/-- pop while the minimum has `ts ≤ t` -/
def getCurrentLoop (t : Int) : Nat → List Event → List Event → List Event × List Event
  | 0, q, acc => (q, acc)
  | fuel + 1, q, acc =>
    match q with
    | [] => (q, acc)
    | x :: xs =>
      let e := pickFirst x xs
      if e.ts ≤ t then getCurrentLoop t fuel ((x :: xs).erase e) (acc ++ [e]) else (q, acc)

def getCurrent (s : State) (t : Int) : State × List Event :=
  let r := getCurrentLoop t s.pending.length s.pending []
  ({ pending := r.1, timestep := t }, r.2)

def len (s : State) : Nat := s.pending.length
def empty (s : State) : Bool := s.pending.isEmpty
def lastTimestamp (s : State) : Option Int := lastTsList s.pending

def step (s : State) : QOp → State × QOut
  | .add e => (add s e, .unit)
  | .addAll es => (addAll s es, .unit)
  | .getEvent =>
    match getEvent s with
    | .ok (e, s') => (s', .event e)
    | .error er => (s, .err er)
  | .getCurrent t => let r := getCurrent s t; (r.1, .events r.2)
  | .len => (s, .nat (len s))
  | .empty => (s, .bool (empty s))
  | .last => (s, .ts (lastTimestamp s))
  | .roundtrip => ({ s with pending := fromWire (toWire s.pending) }, .wire (toWire s.pending) s.timestep)

def run (s : State) : List QOp → State × List (QOp × QOut)
  | [] => (s, [])
  | op :: ops =>
    let r := step s op
    let rest := run r.1 ops
    (rest.1, (op, r.2) :: rest.2)

/-! ### The specification proper: a relation that leaves the choice among equal keys open -/

/-- `e` is key-minimal in `q` -/
def IsMin (q : List Event) (e : Event) : Prop := e ∈ q ∧ ∀ x ∈ q, x.keyLt e = false

/-- `get_current_events(t)`: pop key-minimal elements while the minimum has `ts ≤ t` -/
inductive Cur (t : Int) : List Event → List Event → List Event → Prop
  | stopEmpty : Cur t [] [] []
  | stopLater {q e} : IsMin q e → t < e.ts → Cur t q [] q
  | pop {q e es q'} : IsMin q e → e.ts ≤ t → Cur t (q.erase e) es q' → Cur t q (e :: es) q'

/-- one operation of the queue, as the property states it -/
inductive Step : State → QOp → QOut → State → Prop
  | add (s e) : Step s (.add e) .unit { s with pending := s.pending ++ [e] }
  | addAll (s es) : Step s (.addAll es) .unit { s with pending := s.pending ++ es }
  | getEmpty (s) : s.pending = [] → Step s .getEvent (.err .indexError) s
  | get (s e) : IsMin s.pending e → Step s .getEvent (.event e) { s with pending := s.pending.erase e }
  | cur (s t es q') : Cur t s.pending es q' → Step s (.getCurrent t) (.events es) { pending := q', timestep := t }
  | len (s) : Step s .len (.nat s.pending.length) s
  | empty (s) : Step s .empty (.bool s.pending.isEmpty) s
  | last (s) : Step s .last (.ts (lastTsList s.pending)) s
  | roundtrip (s w) : (fromWire w).Perm s.pending → (∀ p ∈ w, p.1 = p.2.ts) →
      Step s .roundtrip (.wire w s.timestep) s

/-- a run of the specification along a trace -/
inductive Run : State → List (QOp × QOut) → State → Prop
  | nil (s) : Run s [] s
  | cons {s op out s' tr s''} : Step s op out s' → Run s' tr s'' → Run s ((op, out) :: tr) s''

end QSpec

/-! ## Trace observers used by the theorems -/

/-- the events a trace retrieved, in order -/
def retrieved : List (QOp × QOut) → List Event
  | [] => []
  | (_, .event e) :: tr => e :: retrieved tr
  | (_, .events es) :: tr => es ++ retrieved tr
  | _ :: tr => retrieved tr

/-- "every inserted key is ≥ the last retrieved key": `last` is the most recent retrieval
    before the trace (if any) -/
def wellTimed : Option Event → List (QOp × QOut) → Prop
  | _, [] => True
  | last, (.add e, _) :: tr => (∀ l, last = some l → e.keyLt l = false) ∧ wellTimed last tr
  | last, (.addAll es, _) :: tr =>
      (∀ l, last = some l → ∀ e ∈ es, e.keyLt l = false) ∧ wellTimed last tr
  | _, (_, .event e) :: tr => wellTimed (some e) tr
  | last, (_, .events es) :: tr => wellTimed (match es.getLast? with | some e => some e | none => last) tr
  | last, _ :: tr => wellTimed last tr

end Acn
