/-
  The network IN USE (property C12, additive layer over `AcnModel/Network.lean`).

  A history of a `ChargingNetwork` is not only register / add / remove / update: between the edits
  the object is READ (`is_feasible` in all its modes — directly, through `Interface.is_feasible`,
  through the algorithm-side `infrastructure_constraints_feasible` on
  `Interface.infrastructure_info()`, once per submitted schedule by a running `Simulator`;
  `constraint_current` in both modes; `constraints_as_df()`, `Interface.get_constraints()`) and it
  is SAVED AND RESUMED (`ChargingNetwork.from_json(net.to_json())`, charging_network.py:546-640).

  This file transcribes those entry points over the state of `FullNet` — including numpy's shape
  failures, so that the answers can be compared with the implementation on every generated
  history — and the attribute dictionary of `_to_dict` / `_from_dict`.  In the model a read is a
  pure function of the state; that the implementation's reads leave the three containers alone
  too is what the correspondence checks step by step.

  The decisions themselves are `AcnModel/Feas.lean` (C06): `Feas.netFeasible`, `Feas.netLinear`,
  `Feas.algFeasible2`, `Feas.algLinear2`, `Feas.densify`, `Feas.linAggFixed` are reused, not
  re-written.
-/
import AcnModel.Network
import AcnModel.Feas

namespace Acn.Network
open Acn

/-- error classes of the read-only entry points: numpy's / Python's (`Err`) and
    interface.py's `InvalidScheduleError` -/
inductive UseErr where
  | net (e : Err)
  | invalidSchedule
  deriving DecidableEq, Repr

def UseErr.name : UseErr → String
  | .net e => errName e
  | .invalidSchedule => "InvalidScheduleError"

/-- numpy broadcasting of an axis of length 1 to width `W` (any other length is kept) -/
def bcast {α : Type} (W : Nat) : List α → List α
  | [x] => List.replicate W x
  | l => l

namespace FullNet
section
variable {K : Type} [Add K] [Sub K] [Mul K] [Neg K] [LT K] [LE K] [DecidableLT K] [DecidableLE K]
  [OfNat K 0]

/-- charging_network.py:430-475, `linear=True` (repaired, fixes/F4.diff):
    `np.abs(np.abs(constraint_matrix[constraint_indices]) @ schedule_matrix[:, time_indices])`.
    Order of the failures as in the code: column indexing (IndexError), `None[...]` (TypeError),
    the matrix product's inner dimension (ValueError).  The phase angles are not read. -/
def constraintCurrentLin (f : FullNet K) (sched : List (List K)) (T : Nat)
    (names : Option (List String)) (times : Option (List Int)) : Except Err (List (List K)) :=
  let idxs := Net.constraintIndices f.base.index names
  match Net.selTimes T times with
  | none => .error .indexError
  | some cols =>
    match f.base.matrix with
    | none => .error .typeError
    | some rows =>
      if sched.length ≠ f.base.stations.length then .error .valueError
      else
        match idxs.mapM (fun i => rows[i]?) with
        | none => .error .indexError
        | some sel =>
          .ok (sel.map (fun r => cols.map (fun t => Feas.linAggFixed r (Net.column sched t))))

/-- `ChargingNetwork.is_feasible(schedule_matrix, linear, violation_tolerance, relative_tolerance)`
    (charging_network.py:486-541) on the network's own containers; `vt`, `rt` are the network's
    `violation_tolerance` / `relative_tolerance`.  No limits ⇒ True before anything is looked at
    (527-528); otherwise `constraint_current(schedule_matrix, linear=linear)` with its shape
    failures, then every `|aggregate current|` against `limit + max(vt, rt·limit)`. -/
def isFeasible (f : FullNet K) (vt rt : K) (S : List (List K)) (linear : Bool)
    (vt? rt? : Option K) : Except Err Bool :=
  if f.base.magnitudes.isEmpty then .ok true
  else
    match f.base.matrix with
    | none => .error .typeError
    | some rows =>
      if linear then
        if S.length ≠ f.base.stations.length then .error .valueError
        else .ok (Feas.netLinear rows f.base.magnitudes (vt?.getD vt) (rt?.getD rt) S)
      else
        match broadcastWidth S.length f.c.length with
        | none => .error .valueError
        | some W =>
          if f.base.stations.length ≠ W then .error .valueError
          else .ok (Feas.netFeasible rows f.base.magnitudes (bcast W f.c) (bcast W f.s)
                      (vt?.getD vt) (rt?.getD rt) (bcast W S))

/-- `Interface.is_feasible(load_currents, linear, violation_tolerance, relative_tolerance)`
    (interface.py:616-677): empty mapping ⇒ True; rows of different lengths ⇒
    `InvalidScheduleError`; else the mapping is laid out in the network's station order (zeros for
    stations that are not named, names that are not stations are ignored) and handed to the
    network. -/
def ifaceIsFeasible (f : FullNet K) (vt rt : K) (loads : List (String × List K)) (linear : Bool)
    (vt? rt? : Option K) : Except UseErr Bool :=
  match loads with
  | [] => .ok true
  | (_, r) :: rest =>
    if rest.all (fun p => p.2.length == r.length) then
      match f.isFeasible vt rt (Feas.densify f.base.stations loads r.length) linear vt? rt? with
      | .ok b => .ok b
      | .error e => .error (.net e)
    else .error .invalidSchedule

/-- `infrastructure_constraints_feasible(rates, interface.infrastructure_info(), linear, vt, rt)`
    (algorithms/utils.py:6-56 on interface.py:452-487): `InfrastructureInfo._validate` refuses
    station-indexed attributes of different lengths (ValueError); the check loops over the rows of
    the matrix (`0 × N` when the network has none), so without rows the answer is True whatever
    the shape of `rates`; otherwise `rows @ rates` needs one rate row per station. -/
def algFeasible (f : FullNet K) (S : List (List K)) (linear : Bool) (vt rt : K) : Except Err Bool :=
  if f.c.length ≠ f.base.stations.length ∨ f.voltages.length ≠ f.base.stations.length then
    .error .valueError
  else
    let rows := f.base.matrix.getD []
    if rows.isEmpty then .ok true
    else if S.length ≠ f.base.stations.length then .error .valueError
    else .ok (if linear then Feas.algLinear2 rows f.base.magnitudes vt rt S
              else Feas.algFeasible2 rows f.base.magnitudes f.c f.s vt rt S)

/-- what `Interface.get_constraints()` / `infrastructure_info()` show (interface.py:452-487,
    594-614): the station list, the matrix (no rows when the network has none), the limits and the
    names — the network's own containers, unless `_validate` refuses them. -/
def view (f : FullNet K) : Except Err (List String × List (List K) × List K × List String) :=
  if f.c.length ≠ f.base.stations.length ∨ f.voltages.length ≠ f.base.stations.length then
    .error .valueError
  else .ok (f.base.stations, f.base.matrix.getD [], f.base.magnitudes, f.base.index)

end
end FullNet

/-! ### save and resume -/

/-- The attribute dictionary of `ChargingNetwork._to_dict` (charging_network.py:546-584) as far as
    C12 reads it.  `_EVSEs` is a dict `{station_id: registry id}`: its KEY ORDER is the
    registration order and is all that records the order of the stations; the matrix, the limits,
    the names, `_voltages` and `_phase_angles` are plain arrays in that same order. -/
structure NetDict (K : Type) where
  evses : List (String × Nat)
  matrix : Option (List (List K))
  magnitudes : List K
  index : List String
  c : List K
  s : List K
  voltages : List K
  vt : K
  rt : K

/-- the network together with its two tolerances (constructor arguments, charging_network.py:42-55) -/
structure UNet (K : Type) where
  full : FullNet K
  vt : K
  rt : K

namespace UNet
variable {K : Type}

def init (vt rt : K) : UNet K := ⟨FullNet.init, vt, rt⟩

/-- `_to_dict`: `ids` numbers the EVSE objects (Python's `id(evse)`; any function will do) -/
def toDict (ids : String → Nat) (u : UNet K) : NetDict K :=
  { evses := u.full.base.stations.map (fun st => (st, ids st)),
    matrix := u.full.base.matrix, magnitudes := u.full.base.magnitudes, index := u.full.base.index,
    c := u.full.c, s := u.full.s, voltages := u.full.voltages, vt := u.vt, rt := u.rt }

/-- `_from_dict` (charging_network.py:586-640, with fixes/F19.diff: a matrix without rows keeps
    its `0 × N` shape): the stations are the keys of `_EVSEs` in the order of the dictionary. -/
def fromDict (d : NetDict K) : UNet K :=
  { full := { base := { stations := d.evses.map Prod.fst, matrix := d.matrix,
                        magnitudes := d.magnitudes, index := d.index },
              c := d.c, s := d.s, voltages := d.voltages },
    vt := d.vt, rt := d.rt }

/-- `ChargingNetwork.from_json(net.to_json())`.  The JSON text layer (`json.dumps` / `json.loads`
    keep the order of the keys of an object, `NpEncoder` writes arrays as nested lists) is trusted;
    C09 compares the text. -/
def resume (ids : String → Nat) (u : UNet K) : UNet K := fromDict (toDict ids u)

end UNet

/-! ### histories with uses -/

/-- a use of the network between two edits -/
inductive Use (K : Type) where
  /-- `ChargingNetwork.is_feasible` -/
  | feasible (S : List (List K)) (linear : Bool) (vt? rt? : Option K)
  /-- `Interface.is_feasible` -/
  | ifaceFeasible (loads : List (String × List K)) (linear : Bool) (vt? rt? : Option K)
  /-- `infrastructure_constraints_feasible` on `Interface.infrastructure_info()` -/
  | algFeasible (S : List (List K)) (linear : Bool) (vt rt : K)
  /-- `constraint_current` -/
  | query (S : List (List K)) (T : Nat) (names : Option (List String)) (times : Option (List Int))
      (linear : Bool)
  /-- `constraints_as_df()`, `Interface.get_constraints()`, `Interface.infrastructure_info()` -/
  | view
  /-- a simulation on the network object: one `is_feasible` per submitted schedule
      (simulator.py:273) -/
  | simulate (schedules : List (List (List K)))
  /-- `ChargingNetwork.from_json(net.to_json())`: the history continues on what comes back -/
  | resume (ids : String → Nat)

/-- an operation of a history: an edit (`FOp`) or a use -/
inductive HOp (K : Type) where
  | edit (o : FOp K)
  | use (u : Use K)

/-- what a use answers -/
inductive Answer (K : Type) where
  | bool (r : Except UseErr Bool)
  | currents (r : Except Err (List (List K) × List (List K)))
  | view (r : Except Err (List String × List (List K) × List K × List String))
  | bools (r : List (Except Err Bool))
  | edited (e : Option Err)
  | resumed

namespace UNet
section
variable {K : Type} [Add K] [Sub K] [Mul K] [Neg K] [LT K] [LE K] [DecidableLT K] [DecidableLE K]
  [OfNat K 0]

def liftErr {α : Type} : Except Err α → Except UseErr α
  | .ok a => .ok a
  | .error e => .error (.net e)

/-- the answer of a use -/
def answer (u : UNet K) : Use K → Answer K
  | .feasible S lin vt? rt? => .bool (liftErr (u.full.isFeasible u.vt u.rt S lin vt? rt?))
  | .ifaceFeasible loads lin vt? rt? => .bool (u.full.ifaceIsFeasible u.vt u.rt loads lin vt? rt?)
  | .algFeasible S lin vt rt => .bool (liftErr (u.full.algFeasible S lin vt rt))
  | .query S T names times lin =>
    if lin then
      .currents (match u.full.constraintCurrentLin S T names times with
        | .ok re => .ok (re, re.map (fun r => r.map (fun _ => 0)))
        | .error e => .error e)
    else .currents (u.full.constraintCurrent S T names times)
  | .view => .view u.full.view
  | .simulate scheds => .bools (scheds.map (fun S => u.full.isFeasible u.vt u.rt S false none none))
  | .resume _ => .resumed

/-- the object the history continues on after a use: the same one, or the resumed one -/
def afterUse (u : UNet K) : Use K → UNet K
  | .resume ids => u.resume ids
  | _ => u

def step (u : UNet K) : HOp K → UNet K × Answer K
  | .edit o => ({ u with full := (u.full.step o).1 }, .edited (u.full.step o).2)
  | .use x => (u.afterUse x, u.answer x)

def run (u : UNet K) (h : List (HOp K)) : UNet K := h.foldl (fun u o => (u.step o).1) u

def answers (u : UNet K) : List (HOp K) → List (Answer K)
  | [] => []
  | o :: os => (u.step o).2 :: answers (u.step o).1 os

end
end UNet

/-- the edits of a history, in order -/
def edits {K : Type} : List (HOp K) → List (FOp K)
  | [] => []
  | .edit o :: h => o :: edits h
  | .use _ :: h => edits h

end Acn.Network
