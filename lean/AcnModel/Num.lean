/-
  Numeric plumbing shared by every model.  NO Mathlib import below `AcnModel/`.

  Model functions are written once, polymorphic in the carrier `K`, using only core
  notation classes.  They are *executed* at `Float` by the drivers (correspondence with the
  Python implementation) and *reasoned about* at an arbitrary linear ordered field (or ℝ)
  in `AcnProofs/`.
-/
namespace Acn

/-- Exponential, supplied per carrier (`Float.exp`, `Real.exp`). -/
class HasExp (K : Type) where
  exp : K → K

instance : HasExp Float := ⟨Float.exp⟩

/-- `Float` has no `NatCast` in core; literals like `(1000 : Nat)` in the models need one. -/
instance : NatCast Float := ⟨Float.ofNat⟩

/-- Python's `min(a, b)`: the first argument wins ties (and unordered comparisons). -/
@[inline] def pyMin {K : Type} [LT K] [DecidableLT K] (a b : K) : K := if b < a then b else a

/-- Python's `max(a, b)`: the first argument wins ties. -/
@[inline] def pyMax {K : Type} [LT K] [DecidableLT K] (a b : K) : K := if a < b then b else a

/-- Python's `min([a, b, c])`. -/
@[inline] def pyMin3 {K : Type} [LT K] [DecidableLT K] (a b c : K) : K := pyMin (pyMin a b) c

/-- Python's `min([a, b, c, d])`. -/
@[inline] def pyMin4 {K : Type} [LT K] [DecidableLT K] (a b c d : K) : K :=
  pyMin (pyMin (pyMin a b) c) d

/-- `abs` written with the order only (so that it unfolds to `if` at every carrier). -/
@[inline] def absK {K : Type} [LT K] [DecidableLT K] [Neg K] [OfNat K 0] (a : K) : K :=
  if a < 0 then -a else a

/-- Sum of a list, left to right, starting from 0 (Python's `sum`, numpy's short sums). -/
def sumK {K : Type} [Add K] [OfNat K 0] (l : List K) : K := l.foldl (· + ·) 0

/-- Dot product of two lists (numpy `@` for a row and a vector), truncating to the shorter. -/
def dotK {K : Type} [Add K] [Mul K] [OfNat K 0] (a b : List K) : K :=
  sumK (List.zipWith (· * ·) a b)

end Acn
