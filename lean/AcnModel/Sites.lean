/-
  The predefined site networks (acnsim/network/sites/caltech_acn.py, jpl_acn.py, office001_acn.py)
  as data (`AcnModel/Gen/Sites.lean`, regenerated from the working tree on every run) plus

  * the numeric network they denote at a carrier `K` (`netOf`): dense constraint matrix, limits
    re-evaluated from the fitted formulas (canonical `cap · N/D [· √3]`) at ANY capacity, exact unit phasors of the three
    line-to-line angles written with `r = √3` (`r * r = 3` is all the theorems use);
  * feasibility through `Feas.netFeasible` (charging_network.py:486-541);
  * the structural predicates `topoOk` / `instOk` that `site_structure_*` decides on the data.

  Row conventions transcribed from the source (caltech_acn.py:85-103, jpl_acn.py:21-27,55-62,
  office001_acn.py:44-53):
      I_a = AB − CA,  I_b = BC − AB,  I_c = CA − BC          (secondary / panel line rows)
      I_pa = ¼(I_a − I_c),  I_pb = ¼(I_b − I_a),  I_pc = ¼(I_c − I_b)   (primary rows)
      AB at 30°, BC at −90°, CA at 150°;   secondary limit = cap·1000/3/120.
-/
import AcnModel.Feas
import AcnModel.Gen.Sites

namespace Acn.Sites
open Acn Acn.Gen.Sites

/-! ## data level (integers only) -/

/-- coefficient of column `j` in a sparse row, as (numerator, denominator) -/
def coeff (row : List (Nat × Int × Nat)) (j : Nat) : Int × Nat :=
  match row.lookup j with
  | some p => p
  | none => (0, 1)

def angAB : Int × Nat := (30, 1)
def angBC : Int × Nat := (-90, 1)
def angCA : Int × Nat := (150, 1)

/-- the angle is one of the three line-to-line angles -/
def lineAngle (a : Int × Nat) : Bool := a == angAB || a == angBC || a == angCA

/-- coefficient of an EVSE with angle `a` in `I_a = AB − CA` -/
def sgnA (a : Int × Nat) : Int := if a == angAB then 1 else if a == angCA then -1 else 0
/-- … in `I_b = BC − AB` -/
def sgnB (a : Int × Nat) : Int := if a == angBC then 1 else if a == angAB then -1 else 0
/-- … in `I_c = CA − BC` -/
def sgnC (a : Int × Nat) : Int := if a == angCA then 1 else if a == angBC then -1 else 0

def nStations (T : Topo) : Nat := T.stations.length
def angleOf (T : Topo) (j : Nat) : Int × Nat := T.angles.getD j (0, 1)
def rowOf (T : Topo) (i : Nat) : List (Nat × Int × Nat) := T.rows.getD i []
def limOf (T : Topo) (i : Nat) : Lim := T.lims.getD i .unknown

/-- the three rows are exactly `1_AB − 1_CA`, `1_BC − 1_AB`, `1_CA − 1_BC` on `tr.evses`, 0 elsewhere -/
def tripleOk (T : Topo) (tr : Triple) : Bool :=
  tr.evses.all (fun j => decide (j < nStations T)) && decide tr.evses.Nodup &&
  decide (tr.a < T.rows.length) && decide (tr.b < T.rows.length) && decide (tr.c < T.rows.length) &&
  (List.range (nStations T)).all fun j =>
    let e : Int := if tr.evses.contains j then 1 else 0
    coeff (rowOf T tr.a) j == (e * sgnA (angleOf T j), 1) &&
    coeff (rowOf T tr.b) j == (e * sgnB (angleOf T j), 1) &&
    coeff (rowOf T tr.c) j == (e * sgnC (angleOf T j), 1)

/-- normal form of an operation chain: `cap ↦ cap · N / D · (√3 if odd)`; `none` on a zero divisor -/
def normOps : List Op → Option (Int × Int × Bool)
  | [] => some (1, 1, false)
  | op :: rest =>
    match normOps rest with
    | none => none
    | some (N, D, odd) =>
      match op with
      | .mul n d => if d = 0 then none else some (N * n, D * d, odd)
      | .div n d => if n = 0 ∨ d = 0 then none else some (N * d, D * n, odd)
      | .mulSqrt3 => if odd then some (N * 3, D, false) else some (N, D, true)
      | .divSqrt3 => if odd then some (N, D, false) else some (N, D * 3, true)

/-- delta-wye turns ratio written in the site files (`1 / 4`, `n=4`) -/
def turns : Int := 4

/-- `turns · pri = x − y` column by column -/
def primaryOk (T : Topo) (pri x y : Nat) : Bool :=
  decide (pri < T.rows.length) &&
  (List.range (nStations T)).all fun j =>
    let p := coeff (rowOf T pri) j
    decide (0 < p.2) &&
    let a := coeff (rowOf T x) j
    let b := coeff (rowOf T y) j
    decide (turns * p.1 * (a.2 : Int) * (b.2 : Int) = (a.1 * (b.2 : Int) - b.1 * (a.2 : Int)) * (p.2 : Int))

/-- the capacity parameter and formula of a transformer: that of its `Secondary A` row -/
def xfmrCap (T : Topo) (x : Xfmr) : Option (Nat × List Op) :=
  match limOf T x.sec.a with
  | .ofCap k ops => some (k, ops)
  | _ => none

/-- secondary limit is `cap · 1000 / 3 / 120` (as a monomial), the same on the three rows; the primary
    limit is some positive multiple of the same capacity -/
def xfmrOk (T : Topo) (x : Xfmr) : Bool :=
  tripleOk T x.sec &&
  primaryOk T x.pa x.sec.a x.sec.c && primaryOk T x.pb x.sec.b x.sec.a && primaryOk T x.pc x.sec.c x.sec.b &&
  match xfmrCap T x with
  | none => false
  | some (k, ops) =>
    decide (k < T.capNames.length) &&
    limOf T x.sec.b == .ofCap k ops && limOf T x.sec.c == .ofCap k ops &&
    (match normOps ops with
     | some (N, D, odd) => !odd && decide (D ≠ 0) && decide (N * 360 = 1000 * D)
     | none => false) &&
    [x.pa, x.pb, x.pc].all fun i =>
      match limOf T i with
      | .ofCap k' ops' =>
        decide (k' = k) &&
        (match normOps ops' with
         | some (N, D, _) => decide (0 < N * D)
         | none => false)
      | _ => false

/-- rating of a literal limit -/
def constLim : Lim → Option (Int × Nat)
  | .const n d => some (n, d)
  | _ => none

/-- a panel: a line triple whose three rows carry the same literal rating -/
def panelRating (T : Topo) (p : Panel) : Option (Int × Nat) :=
  match constLim (limOf T p.lines.a) with
  | some q => if constLim (limOf T p.lines.b) == some q && constLim (limOf T p.lines.c) == some q
              then some q else none
  | none => none

def panelOk (T : Topo) (p : Panel) : Bool :=
  tripleOk T p.lines &&
  match panelRating T p with
  | some (n, d) => decide (0 < n) && decide (0 < d)
  | none => false

def podRating (T : Topo) (p : Pod) : Option (Int × Nat) := constLim (limOf T p.row)

/-- a pod: a 0/1 indicator row of EVSEs that all hang on the same line pair, literal rating -/
def podOk (T : Topo) (p : Pod) : Bool :=
  decide (p.row < T.rows.length) &&
  p.evses.all (fun j => decide (j < nStations T)) && decide p.evses.Nodup &&
  (match p.evses with
   | [] => false
   | j0 :: _ => p.evses.all fun j => angleOf T j == angleOf T j0) &&
  ((List.range (nStations T)).all fun j =>
    coeff (rowOf T p.row) j == ((if p.evses.contains j then 1 else 0), 1)) &&
  match podRating T p with
  | some (n, d) => decide (0 < n) && decide (0 < d)
  | none => false

/-- every constraint row has exactly one role -/
def roleRows (T : Topo) : List Nat :=
  (T.xfmrs.flatMap fun x => [x.sec.a, x.sec.b, x.sec.c, x.pa, x.pb, x.pc]) ++
  (T.panels.flatMap fun p => [p.lines.a, p.lines.b, p.lines.c]) ++ T.pods.map (·.row)

/-- The structural predicate of C16 (decided on the regenerated data). -/
def topoOk (T : Topo) : Bool :=
  decide (T.angles.length = nStations T) && decide (T.voltages.length = nStations T) &&
  decide (T.stations.Nodup) &&
  decide (T.conNames.length = T.rows.length) && decide (T.lims.length = T.rows.length) &&
  decide (0 < T.rows.length) &&
  -- every EVSE carries a line-to-line angle and the `voltage` argument of the factory
  T.angles.all lineAngle && T.voltages.all (· == T.nominalV) &&
  -- sparse rows are well formed
  T.rows.all (fun row => row.all fun e => decide (e.1 < nStations T) && decide (0 < e.2.2)) &&
  T.xfmrs.all (xfmrOk T) && T.panels.all (panelOk T) && T.pods.all (podOk T) &&
  -- every EVSE sits under exactly one transformer
  ((List.range (nStations T)).all fun j =>
    decide ((T.xfmrs.filter fun x => x.sec.evses.contains j).length = 1)) &&
  -- every row is a pod, a panel line, or a transformer row — exactly once
  ((List.range T.rows.length).all fun i => decide ((roleRows T).count i = 1))

/-! ## diagnostics: WHICH check of `topoOk` fails (driver / evidence; not used by the theorems) -/

def showQ (p : Int × Nat) : String := if p.2 == 1 then toString p.1 else toString p.1 ++ "/" ++ toString p.2

def conName (T : Topo) (i : Nat) : String := "'" ++ T.conNames.getD i ("#" ++ toString i) ++ "'"
def stName (T : Topo) (j : Nat) : String := T.stations.getD j ("#" ++ toString j)

/-- mismatches of one line row against `e_j · sgn(angle_j)` -/
def rowDiag (T : Topo) (evses : List Nat) (i : Nat) (sgn : Int × Nat → Int) (what : String) : List String :=
  if T.rows.length ≤ i then [s!"{what}: row index {i} does not exist"] else
  (List.range (nStations T)).filterMap fun j =>
    let e : Int := if evses.contains j then 1 else 0
    let want : Int × Nat := (e * sgn (angleOf T j), 1)
    if coeff (rowOf T i) j == want then none
    else some s!"{conName T i} ({what}): station {stName T j} at {showQ (angleOf T j)}° has coefficient {showQ (coeff (rowOf T i) j)}, expected {showQ want}"

def tripleDiag (T : Topo) (tr : Triple) : List String :=
  (if tr.evses.Nodup then [] else ["EVSE set has duplicates"]) ++
  rowDiag T tr.evses tr.a sgnA "I_a = AB − CA" ++ rowDiag T tr.evses tr.b sgnB "I_b = BC − AB" ++
  rowDiag T tr.evses tr.c sgnC "I_c = CA − BC"

def showLim : Lim → String
  | .const n d => showQ (n, d)
  | .ofCap k ops => match normOps ops with
    | some (N, D, odd) => s!"cap{k}·{N}/{D}" ++ (if odd then "·√3" else "")
    | none => s!"cap{k}·(invalid chain)"
  | .unknown => "unreadable"

def topoDiag (T : Topo) : List String :=
  (if T.angles.length = nStations T ∧ T.voltages.length = nStations T ∧ T.conNames.length = T.rows.length
      ∧ T.lims.length = T.rows.length ∧ 0 < T.rows.length then [] else ["array lengths do not match"]) ++
  (if T.stations.Nodup then [] else ["duplicate station ids"]) ++
  ((List.range (nStations T)).filterMap fun j =>
    if lineAngle (angleOf T j) then none
    else some s!"station {stName T j}: phase angle {showQ (angleOf T j)}° is not a line-to-line angle") ++
  ((List.range (nStations T)).filterMap fun j =>
    if T.voltages.getD j (0, 1) == T.nominalV then none
    else some s!"station {stName T j}: voltage {showQ (T.voltages.getD j (0, 1))} ≠ {showQ T.nominalV}") ++
  (T.xfmrs.flatMap fun x =>
    (tripleDiag T x.sec).map (s!"transformer '{x.name}': " ++ ·) ++
    ([(x.pa, x.sec.a, x.sec.c), (x.pb, x.sec.b, x.sec.a), (x.pc, x.sec.c, x.sec.b)].filterMap fun (p, a, c) =>
      if primaryOk T p a c then none
      else some s!"transformer '{x.name}': {conName T p} is not ¼({conName T a} − {conName T c})") ++
    (if xfmrOk T x || !(tripleOk T x.sec) then [] else
      [s!"transformer '{x.name}': limits {showLim (limOf T x.sec.a)}, {showLim (limOf T x.sec.b)}, {showLim (limOf T x.sec.c)} / primary {showLim (limOf T x.pa)}: secondary is not cap·1000/3/120 on all three rows (or a primary limit is not a positive multiple of the same capacity)"])) ++
  (T.panels.flatMap fun p =>
    (tripleDiag T p.lines).map (s!"panel '{p.name}': " ++ ·) ++
    (if (panelRating T p).isSome then [] else [s!"panel '{p.name}': the three line rows do not carry one literal rating"])) ++
  (T.pods.filterMap fun p =>
    if podOk T p then none
    else some s!"pod {conName T p.row}: not a 0/1 indicator of same-angle EVSEs with a literal rating (limit {showLim (limOf T p.row)})") ++
  ((List.range (nStations T)).filterMap fun j =>
    let k := (T.xfmrs.filter fun x => x.sec.evses.contains j).length
    if k = 1 then none else some s!"station {stName T j} is under {k} transformers") ++
  ((List.range T.rows.length).filterMap fun i =>
    let k := (roleRows T).count i
    if k = 1 then none else some s!"constraint {conName T i} has {k} roles (pod / panel line / transformer row)")

/-! ## limits of an executed instance against the fitted formulas (exact rationals) -/

def ratOf (p : Int × Nat) : Rat := mkRat p.1 p.2

def absRat (q : Rat) : Rat := if q < 0 then -q else q

/-- double-rounding allowance between a dumped limit and its formula: 2⁻⁴⁰ relative -/
def limEps : Rat := mkRat 1 1099511627776

def limMatches (caps : List (Int × Nat)) (lim : Lim) (dumped : Int × Nat) : Bool :=
  match lim with
  | .const n d => decide (ratOf dumped = mkRat n d)
  | .unknown => false
  | .ofCap k ops =>
    match normOps ops, caps[k]? with
    | some (N, D, odd), some cap =>
      let q : Rat := ratOf cap * mkRat N 1 / mkRat D 1
      if odd then decide (absRat (ratOf dumped * ratOf dumped - 3 * q * q) ≤ limEps * (3 * q * q))
      else decide (absRat (ratOf dumped - q) ≤ limEps * absRat q)
    | _, _ => false

def instOk (I : Inst) : Bool :=
  match topos[I.topo]? with
  | none => false
  | some T =>
    decide (I.caps.length = T.capNames.length) && decide (I.limits.length = T.lims.length) &&
    I.caps.all (fun c => decide (0 < c.1) && decide (0 < c.2)) &&
    (List.zip T.lims I.limits).all (fun (l, d) => limMatches I.caps l d) &&
    I.maxRates.all (fun m => decide (0 < m.1))

/-! ## the numeric network at a carrier `K` -/

section
variable {K : Type} [Add K] [Sub K] [Mul K] [Div K] [Neg K] [LT K] [LE K]
  [DecidableLT K] [DecidableLE K] [OfNat K 0] [OfNat K 1] [NatCast K]

def ofIntK (z : Int) : K := if z < 0 then -((z.natAbs : Nat) : K) else ((z.natAbs : Nat) : K)

def ratK (n : Int) (d : Nat) : K := ofIntK n / ((d : Nat) : K)

/-- one step of a limit formula, left to right (canonical form: one `.mul N D`, then `.mulSqrt3` if odd; the driver
    evaluates the source's own operation order when `Gen/SitesSrc.lean` has it) -/
def evalOp (r : K) (x : K) : Op → K
  | .mul n d => x * ratK n d
  | .div n d => x / ratK n d
  | .mulSqrt3 => x * r
  | .divSqrt3 => x / r

def evalOps (r : K) (cap : K) (ops : List Op) : K := ops.foldl (evalOp r) cap

/-- limit of a constraint at capacities `caps` (`r = √3`) -/
def limK (r : K) (caps : List K) : Lim → K
  | .const n d => ratK n d
  | .ofCap k ops => evalOps r (caps.getD k 0) ops
  | .unknown => 0

/-- `cos` of a line-to-line angle, `r = √3`:  cos 30° = r/2, cos(−90°) = 0, cos 150° = −r/2 -/
def cosK (r : K) (a : Int × Nat) : K :=
  if a == angAB then r / ratK 2 1 else if a == angCA then -(r / ratK 2 1) else 0

/-- `sin` of a line-to-line angle:  sin 30° = 1/2, sin(−90°) = −1, sin 150° = 1/2 -/
def sinK (a : Int × Nat) : K :=
  if a == angAB then ratK 1 2 else if a == angCA then ratK 1 2 else if a == angBC then -1 else 0

def denseRow (n : Nat) (row : List (Nat × Int × Nat)) : List K :=
  (List.range n).map fun j => ratK (coeff row j).1 (coeff row j).2

structure Net (K : Type) where
  M : List (List K)
  lims : List K
  c : List K
  s : List K

/-- the network a site factory builds, for capacities `caps` -/
def netOf (T : Topo) (r : K) (caps : List K) : Net K :=
  { M := T.rows.map (denseRow (nStations T)),
    lims := T.lims.map (limK r caps),
    c := T.angles.map (cosK r),
    s := T.angles.map sinK }

inductive SiteErr where
  | capCount | badAngle (j : Nat) | unknownLimit (i : Nat) | shape
  deriving Repr, DecidableEq

/-- `netOf`, refusing what the exact model does not cover (the real factory has no such error path:
    the guards mark where a mutated tree leaves the modelled class of networks) -/
def siteNet (T : Topo) (r : K) (caps : List K) : Except SiteErr (Net K) :=
  if caps.length ≠ T.capNames.length then .error .capCount
  else if T.angles.length ≠ nStations T ∨ T.lims.length ≠ T.rows.length then .error .shape
  else match (List.range T.angles.length).find? (fun j => !lineAngle (angleOf T j)) with
    | some j => .error (.badAngle j)
    | none =>
      match (List.range T.lims.length).find? (fun i =>
          match limOf T i with
          | .unknown => true
          | .ofCap k _ => decide (T.capNames.length ≤ k)
          | .const _ d => decide (d = 0)) with
      | some i => .error (.unknownLimit i)
      | none => .ok (netOf T r caps)

/-- `ChargingNetwork.is_feasible(S)` of the site network (tolerances `vt`, `rt`) -/
def feasible (T : Topo) (r vt rt : K) (caps : List K) (S : List (List K)) : Bool :=
  let N := netOf T r caps
  Feas.netFeasible N.M N.lims N.c N.s vt rt S

/-- Σ_{j∈E} x_j -/
def groupSum (E : List Nat) (x : List K) : K := sumK (E.map fun j => x.getD j 0)

/-- currents of period `t` -/
def period (S : List (List K)) (t : Nat) : List K := Feas.col S t

/-- the bound `limit + max(vt, rt·limit)` the network actually enforces on row `i` -/
def boundOf (T : Topo) (r vt rt : K) (caps : List K) (i : Nat) : K :=
  let l := limK r caps (limOf T i)
  l + Feas.tolOf vt rt l

/-- squared magnitude of the aggregate phasor current of constraint row `i` in period `t` -/
def aggSq (T : Topo) (r : K) (caps : List K) (i : Nat) (x : List K) : K :=
  let N := netOf T r caps
  let row := N.M.getD i []
  Feas.aggRe row x N.c * Feas.aggRe row x N.c + Feas.aggIm row x N.s * Feas.aggIm row x N.s

end
end Acn.Sites
