/-
  The simulator loop with a STATEFUL scheduler, and the sorted algorithms with the rampdown
  upper-bound estimator (`SimpleRampdown`) as such a scheduler.

  `Sim.run`'s scheduler parameter is a pure function of the `View`.  The real scheduler object lives
  across the whole `Simulator.run()` (simulator.py:112-141 calls `self.scheduler.run()` on the same
  object every time), and `SortedSchedulingAlgo` with `estimate_max_rate=True` owns a
  `SimpleRampdown` whose dict `upper_bounds` (upper_bound_estimator.py:102) is read and written in
  every `get_maximum_rates` (upper_bound_estimator.py:116-140) — i.e. the scheduler is a state
  machine `σ → View → Except EventCore.Err (Schedule × σ)`.  This file adds (nothing in `Sim.lean` changes):

    * `schedStageSt` / `bodySt` / `runSt` — `Sim.schedStage` / `Sim.body` / `Sim.run` with the
      scheduler state threaded from call to call.  The state moves on exactly when `scheduler.run()`
      returned (also when `_update_schedules` then raises: the estimator had already been written);
      when the scheduler raises, the run aborts and the state is not observed any more.
      `runSt` coincides with `Sim.run` for a scheduler that ignores the state
      (`AcnProofs/Lemmas/SimStRun.lean: runSt_const`).
    * `prevOf` — what `SimpleRampdown.get_maximum_rates` reads off the interface
      (upper_bound_estimator.py:116-117, 127-129):
        `prev_pilot = interface.last_applied_pilot_signals`  (interface.py:348-369) = `View.lastPilots`,
        `prev_rate  = interface.last_actual_charging_rate`   (interface.py:371-380) =
            `{ev.session_id: ev.current_charging_rate for ev in active_evs}`.
      Both are dicts built by comprehension (a later duplicate key overwrites), hence `dictGet`.
      `prev_rate[sid]` is only evaluated for `sid in prev_pilot`; both dicts range over the same
      `_active_evs`, so the key is present (`SimStRun.lean: prevOf_total`).
    * `sortedSchedSt` — `BaseAlgorithm.run` (base_algorithm.py:95-109) →
      `SortedSchedulingAlgo.schedule` (sorted_algorithms.py:301-318) / `RoundRobin.schedule`
      (sorted_algorithms.py:427-444): `infrastructure_info()`, `run_preprocessing`
      (sorted_algorithms.py:89-121, with `apply_upper_bound_estimate`, preprocessing.py:77-103, calling
      `get_maximum_rates` on the sessions left after `remove_finished_sessions` /
      `enforce_pilot_limit`), sort, allocation, `format_array_schedule`.  The per-call function is the
      existing `Sorted.scheduleCall … prev rd …`; its `Outcome.rd` is the estimator after the call.
-/
import AcnModel.SimSorted

namespace Acn.SimSortedRd
open Acn Acn.EventCore Acn.Sim Acn.Sorted

/-- `d[k]` / `k in d` for a dict built by a comprehension over the list (last duplicate wins) -/
def dictGet {V : Type} (d : List (String × V)) (k : String) : Option V := d.reverse.lookup k

section
variable {K : Type} [Add K] [Sub K] [Mul K] [Div K] [Neg K] [LT K] [LE K]
  [DecidableLT K] [DecidableLE K] [OfNat K 0] [OfNat K 1] [NatCast K] [HasExp K]

/-- `scheduler.run()` then `_update_schedules` (simulator.py:126-127) for a scheduler with state -/
def schedStageSt {σ : Type} (cfg : Cfg K) (sched : σ → View K → Except EventCore.Err (Schedule K × σ))
    (st : σ) (s : State K) : Except EventCore.Err (Pilots.Mat K × σ) :=
  if (activeEvs cfg s).any (fun e => !sessionInfoOk e) then .error .valueError else
  match sched st (view cfg s) with
  | .error e => .error e
  | .ok (sch, st') =>
    match Pilots.updateSchedules (cfg.stations.map (·.id)) s.pilots s.core.iter
        ((lastTs s.core.pending).map Int.toNat) sch with
    | .error e => .error (pilotsErr e)
    | .ok m => .ok (m, st')

/-- one trip round the `while` loop of `Simulator.run` (simulator.py:112-141), scheduler state threaded -/
def bodySt {σ : Type} (cfg : Cfg K) (sched : σ → View K → Except EventCore.Err (Schedule K × σ))
    (st : σ) (s : State K) : (State K × Option EventCore.Err) × σ :=
  match eventsStage cfg s with
  | (s1, some e) => ((s1, some e), st)
  | (s1, none) =>
    if needsSched cfg.maxRecompute s1.core then
      let s1' := { s1 with core := markInvoked s1.core }
      match schedStageSt cfg sched st s1' with
      | .error e => ((s1', some e), st)
      | .ok (m, st') => (applyStage cfg { s1' with pilots := m, core := markScheduled s1'.core }, st')
    else (applyStage cfg s1, st)

/-- `Simulator.run` with fuel and a stateful scheduler -/
def runSt {σ : Type} (cfg : Cfg K) (sched : σ → View K → Except EventCore.Err (Schedule K × σ)) :
    Nat → σ → State K → (State K × Option EventCore.Err) × σ
  | 0, st, s => ((s, none), st)
  | n + 1, st, s =>
    if guard s.core then
      match bodySt cfg sched st s with
      | ((s', none), st') => runSt cfg sched n st' s'
      | ((s', some e), st') => ((s', some e), st')
    else ((s, none), st)

/-- a stateful scheduler with its state frozen at `st`: a pure function of the view -/
def frozen {σ : Type} (sched : σ → View K → Except EventCore.Err (Schedule K × σ)) (st : σ) :
    View K → Except EventCore.Err (Schedule K) := fun v =>
  match sched st v with
  | .error e => .error e
  | .ok (sch, _) => .ok sch

/-- a pure scheduler as a stateful one that never touches the state -/
def lift {σ : Type} (sched : View K → Except EventCore.Err (Schedule K)) :
    σ → View K → Except EventCore.Err (Schedule K × σ) := fun st v =>
  match sched v with
  | .error e => .error e
  | .ok sch => .ok (sch, st)

/-- `session_id in prev_pilot` ⇒ `(prev_pilot[session_id], prev_rate[session_id])`
    (upper_bound_estimator.py:116-117, 127-129) -/
def prevOf (v : View K) : String → Option (K × K) := fun sid =>
  match dictGet v.lastPilots sid with
  | none => none
  | some pp =>
    match dictGet (v.active.map fun e => (e.session, e.rate)) sid with
    | some pr => some (pp, pr)
    | none => none        -- not reachable for `Sim.view` (`prevOf_total`); Python: KeyError

end

section
variable {K : Type} [Add K] [Sub K] [Mul K] [Div K] [Neg K] [LT K] [LE K]
  [DecidableLT K] [DecidableLE K] [OfNat K 0] [OfNat K 1] [NatCast K] [IntCast K] [HasExp K]

/-- `SortedSchedulingAlgo.schedule` / `RoundRobin.schedule` behind `BaseAlgorithm.run`, with the
    estimator object as the scheduler's state (`scfg.estimate` = `estimate_max_rate`; with `false`
    the state is neither read nor written) -/
def sortedSchedSt [HasCeilNat K] (net : SimSorted.NetInfo K) (inf : K) (cfg : Sim.Cfg K)
    (scfg : Config K) : Rampdown K → Sim.View K → Except EventCore.Err (Sim.Schedule K × Rampdown K) :=
  fun rd v =>
    let infra := SimSorted.infraOf inf cfg
    let raw := v.active.map (SimSorted.sessionOfEv inf v.iter)
    let o := scheduleCall (SimSorted.feasOf net) scfg infra cfg.period (v.iter : Int) (prevOf v) rd raw
    match o.result with
    | .error e => .error (SimSorted.errOf e)
    | .ok sch => .ok (formatArraySchedule infra sch, o.rd)

end
end Acn.SimSortedRd
