/-
  `run_preprocessing` and `schedule()` of the sorting-based algorithms with an ARBITRARY upper-bound
  estimator — any subclass of `UpperBoundEstimatorBase` (upper_bound_estimator.py:12-74) whose
  `get_maximum_rates(sessions)` returns any dict `session_id → bound`.

  `AcnModel/Sorted.lean` models the one estimator the package ships (`SimpleRampdown`, a state machine
  over calls, `preprocess` / `scheduleCall`).  The code itself does not care which estimator it is
  handed (sorted_algorithms.py:109-116, preprocessing.py:78-105):

      active_sessions = remove_finished_sessions(active_sessions, infrastructure, period)
      active_sessions = enforce_pilot_limit(active_sessions, infrastructure)        # FIRST the EVSE limit
      if self.estimate_max_rate:
          active_sessions = apply_upper_bound_estimate(self.max_rate_estimator, active_sessions)
      if self.uninterrupted_charging:
          active_sessions = apply_minimum_charging_rate(active_sessions, infrastructure, period)

      upper_bounds = ub_estimator.get_maximum_rates(active_sessions)               # ONE call, on the limited sessions
      for j, session in enumerate(new_sessions):
          session.max_rates = np.minimum(session.max_rates,
                                         upper_bounds.get(session.session_id, float("inf")))   # min, by SESSION id, absent = inf
          new_sessions[j] = reconcile_max_and_min(session)

  Here the estimator is a PARAMETER: `est l1 s` is `upper_bounds.get(s.session_id)` for the dict the
  estimator returned when handed the list `l1` — `none` when the key is absent (`inf`: no bound).  A
  dict keyed by session id is the instance `estOfDict`; the theorems quantify over every function
  (they do not even need the answer to depend on the session id only).  `Sorted.preprocess` /
  `Sorted.scheduleCall` are the instance "the dict of the rampdown estimator after its update"
  (`AcnProofs/Lemmas/SortedEst.lean: preprocess_eq_preprocessEst`, `scheduleCall_eq_scheduleCallEst`).
  Nothing in `Sorted.lean` changes.

  The estimator is assumed not to mutate the `SessionInfo` objects it is handed (it is a pure function
  of them, of its own state and of what the interface shows).
-/
import AcnModel.SimSortedRd

namespace Acn.Sorted
open Acn

section
variable {K : Type} [Add K] [Sub K] [Mul K] [Div K] [LT K] [LE K]
  [DecidableLT K] [DecidableLE K] [OfNat K 0] [NatCast K] [IntCast K]

/-- the loop of `apply_upper_bound_estimate` (preprocessing.py:96-103) for an arbitrary answer of the
    estimator: `np.minimum(max_rates, upper_bounds.get(session_id, inf))`, then
    `reconcile_max_and_min` (also when the key is absent) -/
def applyUpperBoundFn (est : Session K → Option K) (l : List (Session K)) : List (Session K) :=
  l.map fun s =>
    match est s with
    | some b => reconcile { s with maxRate := pyMin s.maxRate b }
    | none => reconcile s

/-- a dict `session_id → bound` (what `get_maximum_rates` returns) as an estimator answer:
    the lookup is by SESSION id (finding F6), an absent key is `none` -/
def estOfDict (d : List (String × K)) : Session K → Option K := fun s => d.lookup s.session

/-- what `get_maximum_rates` is handed: the unfinished sessions with `max_rates` already limited to
    the EVSE's maximum pilot (sorted_algorithms.py:109-112) -/
def estInput (infra : Infra K) (period : K) (l : List (Session K)) : List (Session K) :=
  enforcePilotLimit infra (removeFinished infra period l)

/-- `run_preprocessing` (sorted_algorithms.py:89-121) with an arbitrary estimator `est`
    (the list handed to `get_maximum_rates` ↦ session ↦ optional bound) -/
def preprocessEst (feas : List K → Bool) (cfg : Config K) (infra : Infra K) (period : K)
    (est : List (Session K) → Session K → Option K) (l : List (Session K)) : List (Session K) :=
  let l1 := estInput infra period l
  let l2 := if cfg.estimate then applyUpperBoundFn (est l1) l1 else l1
  if cfg.uninterrupted then applyMinimumRate feas infra period l2 else l2

structure OutcomeE (K : Type) where
  result : Except Err (List K)
  /-- the list `get_maximum_rates` was handed (empty when `get_station_index` raised) -/
  estIn : List (Session K)
  pre : List (Session K)
  order : List (Session K)
  trace : List (String × Nat × Bool)
  queueLeft : List (Session K) := []

/-- `SortedSchedulingAlgo.schedule` / `RoundRobin.schedule` up to `format_array_schedule`, with an
    arbitrary estimator -/
def scheduleCallEst [HasCeilNat K] (feas : List K → Bool) (cfg : Config K) (infra : Infra K)
    (period : K) (time : Int) (est : List (Session K) → Session K → Option K)
    (raw : List (Session K)) : OutcomeE K :=
  match resolve infra raw with
  | .error e => { result := .error e, estIn := [], pre := [], order := [], trace := [] }
  | .ok l =>
    let pre := preprocessEst feas cfg infra period est l
    let queue := sortSessions cfg.sort infra period time pre
    match cfg.algo with
    | .greedy =>
      { result := sortingAlgorithm feas cfg.fuel cfg.eps infra period queue,
        estIn := estInput infra period l, pre := pre, order := queue, trace := [] }
    | .roundRobin =>
      match roundRobin feas (rrLevels infra period cfg.inc) infra queue with
      | .error e => { result := .error e, estIn := estInput infra period l, pre := pre, order := queue,
                      trace := [] }
      | .ok st => { result := .ok st.sched, estIn := estInput infra period l, pre := pre, order := queue,
                    trace := st.trace.reverse, queueLeft := st.queue }

end
end Acn.Sorted

namespace Acn.SimSortedEst
open Acn Acn.EventCore Acn.Sim Acn.Sorted

section
variable {K : Type} [Add K] [Sub K] [Mul K] [Div K] [Neg K] [LT K] [LE K]
  [DecidableLT K] [DecidableLE K] [OfNat K 0] [OfNat K 1] [NatCast K] [IntCast K] [HasExp K]

/-- an arbitrary STATEFUL estimator object inside the simulator loop: what `get_maximum_rates`
    answers, and the object's next state, may depend on its current state, on everything the
    interface shows (the `View`: time, active EVs with their last rates, last applied pilots) and on
    the sessions it is handed -/
abbrev Estimator (σ K : Type) := σ → Sim.View K → List (Session K) → (Session K → Option K) × σ

/-- `BaseAlgorithm.run` → `schedule()` of the sorted algorithms with the estimator object as the
    scheduler's state (`SimSortedRd.runSt` threads it from call to call).  With
    `estimate_max_rate = False` the estimator is never called and its state stays. -/
def sortedSchedEst [HasCeilNat K] {σ : Type} (net : SimSorted.NetInfo K) (inf : K) (cfg : Sim.Cfg K)
    (scfg : Config K) (E : Estimator σ K) :
    σ → Sim.View K → Except EventCore.Err (Sim.Schedule K × σ) :=
  fun st v =>
    let infra := SimSorted.infraOf inf cfg
    let raw := v.active.map (SimSorted.sessionOfEv inf v.iter)
    let o := scheduleCallEst (SimSorted.feasOf net) scfg infra cfg.period (v.iter : Int)
      (fun l1 => (E st v l1).1) raw
    match o.result with
    | .error e => .error (SimSorted.errOf e)
    | .ok sch => .ok (formatArraySchedule infra sch, if scfg.estimate then (E st v o.estIn).2 else st)

/-- a stateless estimator that answers with a dict chosen by the current period: entry `(sid, seq)`
    of the table means "bound `seq[t mod len seq]` for session `sid` in period `t`" (`none` = key absent
    in that period).  Session ids that are not active, or not sessions at all, may be listed. -/
def tableDict (table : List (String × List (Option K))) (t : Nat) : List (String × K) :=
  table.filterMap fun p =>
    match p.2.getD (t % p.2.length) none with
    | some b => some (p.1, b)
    | none => none

def tableEstimator (table : List (String × List (Option K))) : Estimator Unit K :=
  fun st v _ => (estOfDict (tableDict table v.iter), st)

end
end Acn.SimSortedEst
