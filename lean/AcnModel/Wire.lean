/-
  Line protocol helpers for the drivers: one JSON object per line in, one per line out.
  Doubles travel as the unsigned 64-bit integer of their IEEE bit pattern, so that inputs
  reach the model exactly and outputs are reported exactly.
-/
import Lean.Data.Json

namespace Acn.Wire
open Lean

def fOfBits (n : Nat) : Float := Float.ofBits n.toUInt64
def bitsOfF (x : Float) : Nat := x.toBits.toNat

def jF (x : Float) : Json := Json.num (JsonNumber.fromNat (bitsOfF x))
def jFs (xs : List Float) : Json := Json.arr (xs.map jF).toArray
def jFss (xs : List (List Float)) : Json := Json.arr (xs.map jFs).toArray
def jB (b : Bool) : Json := Json.bool b
def jN (n : Nat) : Json := Json.num (JsonNumber.fromNat n)
def jI (n : Int) : Json := Json.num (JsonNumber.fromInt n)
def jS (s : String) : Json := Json.str s
def jOpt {α} (f : α → Json) : Option α → Json
  | none => Json.null
  | some a => f a
def jList {α} (f : α → Json) (l : List α) : Json := Json.arr (l.map f).toArray

def getNat (j : Json) (k : String) : Except String Nat := do
  let v ← j.getObjVal? k
  v.getNat?

def getInt (j : Json) (k : String) : Except String Int := do
  let v ← j.getObjVal? k
  v.getInt?

def getStr (j : Json) (k : String) : Except String String := do
  let v ← j.getObjVal? k
  v.getStr?

def getBool (j : Json) (k : String) : Except String Bool := do
  let v ← j.getObjVal? k
  v.getBool?

def asF (v : Json) : Except String Float := do
  let n ← v.getNat?
  pure (fOfBits n)

def getF (j : Json) (k : String) : Except String Float := do
  let v ← j.getObjVal? k
  asF v

def asArr (v : Json) : Except String (List Json) := do
  let a ← v.getArr?
  pure a.toList

def getArr (j : Json) (k : String) : Except String (List Json) := do
  let v ← j.getObjVal? k
  asArr v

def asFs (v : Json) : Except String (List Float) := do
  let a ← asArr v
  a.mapM asF

def getFs (j : Json) (k : String) : Except String (List Float) := do
  let v ← j.getObjVal? k
  asFs v

def getFss (j : Json) (k : String) : Except String (List (List Float)) := do
  let a ← getArr j k
  a.mapM asFs

/-- optional field: `null` or absent ↦ `none` -/
def getOpt {α} (j : Json) (k : String) (f : Json → Except String α) : Except String (Option α) :=
  match j.getObjVal? k with
  | .error _ => pure none
  | .ok Json.null => pure none
  | .ok v => do let a ← f v; pure (some a)

/-- Generic driver loop: each input line is parsed as JSON and handed to `handle`; the
    answer (or an error object) is printed on one line. -/
partial def loop (h : IO.FS.Stream) (handle : Json → Except String Json) : IO Unit := do
  let line ← h.getLine
  if line.isEmpty then return ()
  let out := match Json.parse line with
    | .error e => Json.mkObj [("protocol_error", Json.str e)]
    | .ok j => match handle j with
      | .error e => Json.mkObj [("protocol_error", Json.str e)]
      | .ok r => r
  IO.println out.compress
  loop h handle

def runDriver (handle : Json → Except String Json) : IO Unit := do
  loop (← IO.getStdin) handle

end Acn.Wire
