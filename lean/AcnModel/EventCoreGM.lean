/-
  `bodyGP` / `runGP` (`AcnModel/EventCoreGP.lean`) with scheduler and pilot stages that MUTATE the
  state carried next to the network (`σ`) and may raise half way — what `Simulator.run`
  (simulator.py:112-141) really does between the events and `post_charging_update`:

      events                                   `eventsStageG` (any queue, any network operations)
      scheduler.run(); _update_schedules       `sched : CoreG σ → σ × Option Err`   (if `needsSched`)
      _increase_width; update_pilots; _store…  `apply : CoreG σ → σ × Option Err`
      network.post_charging_update()           `post  : Nat → σ → σ × Option Err`   (period index)
      _iteration += 1                          `advance`

  A stage returns the state reached and the error, if it raised: the state keeps whatever had been
  mutated before the raise, and the run stops there.  `bodyGP` is the special case of stages that
  leave `σ` alone (`AcnProofs/Lemmas/EventCoreGM.lean: bodyGM_observers`).
-/
import AcnModel.EventCoreGP

namespace Acn.EventCore
open Acn

section
variable {σ : Type}

/-- simulator.py:132-141: pilots applied, rates stored, `post_charging_update`, `iteration += 1` -/
def finishGM (apply : CoreG σ → σ × Option Err) (post : Nat → σ → σ × Option Err) (g : CoreG σ) :
    CoreG σ × Option Err :=
  match apply g with
  | (n1, some e) => ({ g with net := n1 }, some e)
  | (n1, none) =>
    match post g.core.iter n1 with
    | (n2, some e) => ({ g with net := n2 }, some e)
    | (n2, none) => ({ core := advance g.core, net := n2 }, none)

/-- one trip round the `while` loop of `Simulator.run` -/
def bodyGM (ops : QOps) (net : NetOps σ) (post : Nat → σ → σ × Option Err) (cfg : Cfg)
    (sched apply : CoreG σ → σ × Option Err) (g : CoreG σ) : CoreG σ × Option Err :=
  match eventsStageG ops net cfg g with
  | (g1, some e) => (g1, some e)
  | (g1, none) =>
    if needsSched cfg.maxRecompute g1.core then
      match sched { g1 with core := markInvoked g1.core } with
      | (n1, some e) => ({ core := markInvoked g1.core, net := n1 }, some e)
      | (n1, none) => finishGM apply post { core := markScheduled (markInvoked g1.core), net := n1 }
    else finishGM apply post g1

/-- `Simulator.run` with fuel -/
def runGM (ops : QOps) (net : NetOps σ) (post : Nat → σ → σ × Option Err) (cfg : Cfg)
    (sched apply : CoreG σ → σ × Option Err) : Nat → CoreG σ → CoreG σ × Option Err
  | 0, g => (g, none)
  | n + 1, g =>
    if guard g.core then
      match bodyGM ops net post cfg sched apply g with
      | (g', none) => runGM ops net post cfg sched apply n g'
      | (g', some e) => (g', some e)
    else (g, none)

end
end Acn.EventCore
