/-
  RegistrySim — the concrete codec: a simulator state (`Acn.Sim.State`, plus the static `Cfg`) as the
  object store that `Simulator.to_json()` writes, class by class:

    Simulator._to_dict        simulator.py:351-427    network, event_queue, scalars, matrices,
                                                       ev_history {session: EV}, event_history [event]
    ChargingNetwork._to_dict  charging_network.py:547-583   _EVSEs {station: EVSE} (+ array attributes)
    BaseEVSE/EVSE/DeadbandEVSE/FiniteRatesEVSE._to_dict   evse.py:187-203, 296-304, 402-409, 501-507
                                                       _station_id, _current_pilot, _ev (the occupant or null)
    EV._to_dict               ev.py:155-177           static + dynamic scalars, _battery
    Battery / Linear2StageBattery._to_dict   battery.py:91-105, 350-358
    EventQueue._to_dict       event_queue.py:99-112   _queue [(timestamp, event)]
    Event / EVEvent._to_dict  event.py:60-69, 116-127  timestamp, event_type, precedence, ev

  Sharing: an EV is ONE object (`evId j`), referenced from its EVSE, from `ev_history`, from its
  pending Plugin/Unplug events and from the events in `event_history`.

  Ids are laid out arithmetically (`0` simulator, `1` network, `2` queue, EVSEs, then EV/battery pairs,
  pending events, past events) and the store is `range N ↦ objAt`, so `get` is a closed formula.
  Scalars are rendered by a `show`-function per type, tagged: "i:<int>", "b:<bool>", "s:<string>",
  "f:<number>", "m:<matrix>", "null", and "-" for values that are static configuration which the model
  does not track (tolerances, voltages, start time, scheduler name, …).  Attributes whose name starts with
  `_model_` do not exist in the real JSON: they carry model-only data (the tag that keeps recompute
  events distinguishable; the unused two-stage parameters the model keeps for an ideal battery) so that
  the codec is lossless.
-/
import AcnModel.Sim
import AcnModel.Registry

namespace Acn.RegistrySim
open Acn Acn.EventCore Acn.Sim Acn.Registry

variable {K : Type}

/-- first index of the EV with this session id -/
def evIdxFrom : List (Evse.Ev K) → String → Nat → Option Nat
  | [], _, _ => none
  | e :: es, sid, n => if e.session = sid then some n else evIdxFrom es sid (n + 1)

def evIdx (s : State K) (sid : String) : Option Nat := evIdxFrom s.evs sid 0

structure Layout where
  nSt : Nat
  nEv : Nat
  nP : Nat
  nH : Nat

def layout (cfg : Cfg K) (s : State K) : Layout :=
  { nSt := cfg.stations.length, nEv := s.evs.length, nP := s.core.pending.length, nH := s.core.eventHist.length }

def Layout.bE (l : Layout) : Nat := 3 + l.nSt
def Layout.bP (l : Layout) : Nat := l.bE + 2 * l.nEv
def Layout.bH (l : Layout) : Nat := l.bP + l.nP
def Layout.size (l : Layout) : Nat := l.bH + l.nH
def Layout.evId (l : Layout) (j : Nat) : Nat := l.bE + 2 * j
def Layout.battId (l : Layout) (j : Nat) : Nat := l.bE + 2 * j + 1

/-- how the scalars of each type are written -/
structure Show (K : Type) where
  num : K → String
  mat : Pilots.Mat K → String

def sI (n : Int) : Val := .scalar ("i:" ++ toString n)
def sN (n : Nat) : Val := .scalar ("i:" ++ toString n)
def sB (b : Bool) : Val := .scalar (if b then "b:true" else "b:false")
def sS (x : String) : Val := .scalar ("s:" ++ x)
def sNull : Val := .scalar "null"
def sON : Option Nat → Val
  | some m => sN m
  | none => sNull
def sOI : Option Int → Val
  | some u => sI u
  | none => sNull
def sStatic : Val := .scalar "-"
def sF (sh : Show K) (x : K) : Val := .scalar ("f:" ++ sh.num x)

/-- reference to the EV of a session (null when the session has no EV object: malformed state) -/
def evRefItem (l : Layout) (s : State K) (sid : String) : Item :=
  match evIdx s sid with
  | some j => .ref (l.evId j)
  | none => .scalar "null"

def evRefVal (l : Layout) (s : State K) (sid : String) : Val :=
  match evIdx s sid with
  | some j => .ref (l.evId j)
  | none => sNull

def simObj (sh : Show K) (cfg : Cfg K) (s : State K) : Obj :=
  let l := layout cfg s
  { cls := "Simulator",
    attrs := [("network", .ref 1), ("event_queue", .ref 2), ("scheduler", sStatic), ("start", sStatic),
              ("signals", sStatic), ("period", sF sh cfg.period),
              ("max_recompute", sON cfg.maxRecompute),
              ("verbose", sStatic), ("peak", sF sh s.peak), ("_iteration", sN s.core.iter),
              ("_resolve", sB s.core.resolve),
              ("_last_schedule_update", sOI s.core.lastUpd),
              ("schedule_history", sStatic),
              ("pilot_signals", .scalar ("m:" ++ sh.mat s.pilots)),
              ("charging_rates", .scalar ("m:" ++ sh.mat s.rates)),
              ("ev_history", .list (s.core.evHist.flatMap fun sid => [.scalar ("s:" ++ sid), evRefItem l s sid])),
              ("event_history", .list ((List.range l.nH).map fun h => .ref (l.bH + h)))] }

def netObj (cfg : Cfg K) : Obj :=
  { cls := "ChargingNetwork",
    attrs := [("violation_tolerance", sStatic), ("relative_tolerance", sStatic), ("constraint_matrix", sStatic),
              ("magnitudes", sStatic), ("_voltages", sStatic), ("_phase_angles", sStatic),
              ("constraint_index", sStatic), ("_station_ids_dict", sStatic), ("max_pilot_signals", sStatic),
              ("min_pilot_signals", sStatic), ("is_continuous", sStatic),
              ("_EVSEs", .list ((List.range cfg.stations.length).flatMap fun i =>
                  [.scalar ("s:" ++ ((cfg.stations.getD i ⟨"", .finite [], cfg.period⟩).id)), .ref (3 + i)])),
              ("allowable_rates", sStatic)] }

def queueObj (cfg : Cfg K) (s : State K) : Obj :=
  let l := layout cfg s
  { cls := "EventQueue",
    attrs := [("_timestep", sStatic),
              ("_queue", .list ((List.range l.nP).flatMap fun p =>
                  [.scalar ("i:" ++ toString ((s.core.pending.getD p default).ts)), .ref (l.bP + p)]))] }

def evseObj (sh : Show K) (cfg : Cfg K) (s : State K) (i : Nat) : Obj :=
  let l := layout cfg s
  let st := cfg.stations.getD i ⟨"", .finite [], cfg.period⟩
  let base : List (String × Val) :=
    [("_station_id", sS st.id), ("_current_pilot", sF sh (s.evsePilot.getD i cfg.period)), ("is_continuous", sStatic),
     ("_ev", match s.core.occ st.id with
             | some x => evRefVal l s x.id
             | none => sNull)]
  match st.kind with
  | .cont _ _ => { cls := "EVSE", attrs := base ++ [("_max_rate", sStatic), ("_min_rate", sStatic)] }
  | .deadband _ _ => { cls := "DeadbandEVSE", attrs := base ++ [("_max_rate", sStatic), ("_deadband_end", sStatic)] }
  | .finite _ => { cls := "FiniteRatesEVSE", attrs := base ++ [("allowable_rates", sStatic)] }

def defaultBatt (cfg : Cfg K) : Battery.Batt K :=
  { capacity := cfg.period, charge := cfg.period, init := cfg.period, maxPower := cfg.period, power := cfg.period,
    twoStage := false, noiseLevel := cfg.period, ts := cfg.period, cmode := .continuous }

def defaultEv (cfg : Cfg K) : Evse.Ev K :=
  { session := "", station := "", arrival := 0, departure := 0, estDeparture := 0, requested := cfg.period,
    delivered := cfg.period, rate := cfg.period, batt := defaultBatt cfg }

def evObjOf (sh : Show K) (l : Layout) (j : Nat) (e : Evse.Ev K) : Obj :=
  { cls := "EV",
    attrs := [("_arrival", sI e.arrival), ("_departure", sI e.departure), ("_session_id", sS e.session),
              ("_station_id", sS e.station), ("_requested_energy", sF sh e.requested),
              ("_estimated_departure", sI e.estDeparture), ("_energy_delivered", sF sh e.delivered),
              ("_current_charging_rate", sF sh e.rate), ("_battery", .ref (l.battId j))] }

def evObj (sh : Show K) (cfg : Cfg K) (s : State K) (j : Nat) : Obj :=
  evObjOf sh (layout cfg s) j (s.evs.getD j (defaultEv cfg))

def calcName : Battery.Calc → String
  | .continuous => "continuous"
  | .stepwise => "stepwise"

def battObjOf (sh : Show K) (b : Battery.Batt K) : Obj :=
  let base : List (String × Val) :=
    [("_max_power", sF sh b.maxPower), ("_current_charging_power", sF sh b.power),
     ("_current_charge", sF sh b.charge), ("_capacity", sF sh b.capacity), ("_init_charge", sF sh b.init)]
  if b.twoStage then
    { cls := "Linear2StageBattery",
      attrs := base ++ [("_noise_level", sF sh b.noiseLevel), ("_transition_soc", sF sh b.ts),
                        ("charge_calculation", sS (calcName b.cmode))] }
  else
    { cls := "Battery",
      attrs := base ++ [("_model_noise_level", sF sh b.noiseLevel), ("_model_transition_soc", sF sh b.ts),
                        ("_model_charge_calculation", sS (calcName b.cmode))] }

def battObj (sh : Show K) (cfg : Cfg K) (s : State K) (j : Nat) : Obj :=
  battObjOf sh (s.evs.getD j (defaultEv cfg)).batt

def eventObj (l : Layout) (s : State K) (e : Event) : Obj :=
  match e.kind with
  | .plugin => { cls := "PluginEvent",
                 attrs := [("timestamp", sI e.ts), ("event_type", sS e.kind.name), ("precedence", sStatic),
                           ("ev", evRefVal l s e.sess)] }
  | .unplug => { cls := "UnplugEvent",
                 attrs := [("timestamp", sI e.ts), ("event_type", sS e.kind.name), ("precedence", sStatic),
                           ("ev", evRefVal l s e.sess)] }
  | .recompute => { cls := "RecomputeEvent",
                    attrs := [("timestamp", sI e.ts), ("event_type", sS e.kind.name), ("precedence", sStatic),
                              ("_model_tag", sS e.sess)] }

/-- the object stored under id `i` -/
def objAt (sh : Show K) (cfg : Cfg K) (s : State K) (i : Nat) : Obj :=
  let l := layout cfg s
  if i = 0 then simObj sh cfg s
  else if i = 1 then netObj cfg
  else if i = 2 then queueObj cfg s
  else if i < l.bE then evseObj sh cfg s (i - 3)
  else if i < l.bP then
    (if (i - l.bE) % 2 = 0 then evObj sh cfg s ((i - l.bE) / 2) else battObj sh cfg s ((i - l.bE) / 2))
  else if i < l.bH then eventObj l s (s.core.pending.getD (i - l.bP) default)
  else eventObj l s (s.core.eventHist.getD (i - l.bH) default)

/-- `Simulator.to_json()`'s heap: every object of the simulator, root = 0 -/
def encode (sh : Show K) (cfg : Cfg K) (s : State K) : Store :=
  (List.range (layout cfg s).size).map fun i => (i, objAt sh cfg s i)

def root : Nat := 0

/-! ### decoding (`_from_dict`): references are followed through `g = Store.get`, nothing else of the store is used -/

/-- parsers of the tagged scalars (inverse of `Show` + the fixed renderings of ints and strings) -/
structure Read (K : Type) where
  num : String → Option K
  mat : String → Option (Pilots.Mat K)
  int : String → Option Int
  nat : String → Option Nat
  str : String → Option String

/-- process-level state that is not part of the JSON document: the scheduler-call log of the harness, the
    position in the (process-global) random stream, the occupancy log of the harness' network subclass -/
structure Ambient where
  invoked : List Nat
  noiseIdx : Nat
  occLog : List (List (Option String))

def attr (o : Obj) (k : String) : Option Val := o.attrs.lookup k
def scalarOf : Val → Option String
  | .scalar t => some t
  | _ => none
def refOf : Val → Option Nat
  | .ref i => some i
  | _ => none
def listOf : Val → Option (List Item)
  | .list l => some l
  | _ => none
def itemRef : Item → Option Nat
  | .ref i => some i
  | .scalar _ => none
def itemScalar : Item → Option String
  | .scalar t => some t
  | .ref _ => none

def getS (o : Obj) (k : String) : Option String := (attr o k).bind scalarOf
def getR (o : Obj) (k : String) : Option Nat := (attr o k).bind refOf
def getL (o : Obj) (k : String) : Option (List Item) := (attr o k).bind listOf

def rdBool (o : Obj) (k : String) : Option Bool :=
  (getS o k).bind fun t => if t = "b:true" then some true else if t = "b:false" then some false else none
def rdOptInt (rd : Read K) (o : Obj) (k : String) : Option (Option Int) :=
  (getS o k).bind fun t =>
    match rd.int t with
    | some n => some (some n)
    | none => if t = "null" then some none else none

def sequence {α : Type} : List (Option α) → Option (List α)
  | [] => some []
  | x :: xs =>
    match x, sequence xs with
    | some a, some as => some (a :: as)
    | _, _ => none

def calcOf (t : String) : Option Battery.Calc :=
  if t = "continuous" then some .continuous else if t = "stepwise" then some .stepwise else none

/-- Battery._from_dict / Linear2StageBattery._from_dict -/
def decodeBatt (rd : Read K) (g : Nat → Option Obj) (i : Nat) : Option (Battery.Batt K) := do
  let o ← g i
  let two ← if o.cls = "Linear2StageBattery" then some true else if o.cls = "Battery" then some false else none
  let maxPower ← (getS o "_max_power").bind rd.num
  let power ← (getS o "_current_charging_power").bind rd.num
  let charge ← (getS o "_current_charge").bind rd.num
  let capacity ← (getS o "_capacity").bind rd.num
  let init ← (getS o "_init_charge").bind rd.num
  let noiseLevel ← (getS o (if two then "_noise_level" else "_model_noise_level")).bind rd.num
  let ts ← (getS o (if two then "_transition_soc" else "_model_transition_soc")).bind rd.num
  let cmode ← ((getS o (if two then "charge_calculation" else "_model_charge_calculation")).bind rd.str).bind calcOf
  pure { capacity, charge, init, maxPower, power, twoStage := two, noiseLevel, ts, cmode }

/-- EV._from_dict: the battery is loaded through its reference -/
def decodeEv (rd : Read K) (g : Nat → Option Obj) (i : Nat) : Option (Evse.Ev K) := do
  let o ← g i
  let arrival ← (getS o "_arrival").bind rd.int
  let departure ← (getS o "_departure").bind rd.int
  let session ← (getS o "_session_id").bind rd.str
  let station ← (getS o "_station_id").bind rd.str
  let requested ← (getS o "_requested_energy").bind rd.num
  let estDeparture ← (getS o "_estimated_departure").bind rd.int
  let delivered ← (getS o "_energy_delivered").bind rd.num
  let rate ← (getS o "_current_charging_rate").bind rd.num
  let batt ← (getR o "_battery").bind (decodeBatt rd g)
  pure { session, station, arrival, departure, estDeparture, requested, delivered, rate, batt }

/-- Event._from_dict / EVEvent._from_dict: the session of an EV event is that of the referenced EV -/
def decodeEvent (rd : Read K) (g : Nat → Option Obj) (i : Nat) : Option Event := do
  let o ← g i
  let ts ← (getS o "timestamp").bind rd.int
  if o.cls = "RecomputeEvent" then
    let tag ← (getS o "_model_tag").bind rd.str
    pure ⟨ts, .recompute, tag⟩
  else
    let kind ← if o.cls = "PluginEvent" then some EvKind.plugin else if o.cls = "UnplugEvent" then some EvKind.unplug else none
    let eo ← (getR o "ev").bind g
    let sid ← (getS eo "_session_id").bind rd.str
    pure ⟨ts, kind, sid⟩

def stationIdxFrom : List (Station K) → String → Nat → Option Nat
  | [], _, _ => none
  | st :: rest, id, n => if st.id = id then some n else stationIdxFrom rest id (n + 1)

/-- the occupant of a station: EVSE → `_ev` → the EV's static fields -/
def decodeOcc (rd : Read K) (cfg : Cfg K) (g : Nat → Option Obj) (st : String) : Option Session := do
  let i ← stationIdxFrom cfg.stations st 0
  let o ← g (3 + i)
  let eo ← (getR o "_ev").bind g
  let id ← (getS eo "_session_id").bind rd.str
  let station ← (getS eo "_station_id").bind rd.str
  let arrival ← (getS eo "_arrival").bind rd.int
  let departure ← (getS eo "_departure").bind rd.int
  pure { id, station, arrival, departure }

/-- Simulator._from_dict -/
def decode (rd : Read K) (cfg : Cfg K) (amb : Ambient) (g : Nat → Option Obj) : Option (State K) := do
  let sim ← g root
  let net ← (getR sim "network").bind g
  let q ← (getR sim "event_queue").bind g
  let iter ← (getS sim "_iteration").bind rd.nat
  let resolve ← rdBool sim "_resolve"
  let lastUpd ← rdOptInt rd sim "_last_schedule_update"
  let peak ← (getS sim "peak").bind rd.num
  let pilots ← (getS sim "pilot_signals").bind rd.mat
  let rates ← (getS sim "charging_rates").bind rd.mat
  let evHist ← (getL sim "ev_history").bind fun l => sequence ((l.filterMap itemScalar).map rd.str)
  let eventHist ← (getL sim "event_history").bind fun l => sequence ((l.filterMap itemRef).map (decodeEvent rd g))
  let pending ← (getL q "_queue").bind fun l => sequence ((l.filterMap itemRef).map (decodeEvent rd g))
  let evseIds ← (getL net "_EVSEs").map fun l => l.filterMap itemRef
  let evsePilot ← sequence (evseIds.map fun i => (g i).bind fun o => (getS o "_current_pilot").bind rd.num)
  let bE := 3 + cfg.stations.length
  let evs ← sequence ((List.range cfg.evs.length).map fun j => decodeEv rd g (bE + 2 * j))
  pure { core := { iter, pending, occ := decodeOcc rd cfg g, resolve, lastUpd, eventHist, evHist,
                   invoked := amb.invoked },
         pilots, rates, peak, evs, evsePilot, noiseIdx := amb.noiseIdx, occLog := amb.occLog }

end Acn.RegistrySim
