/-
  Driver code for C07 on top of `WireSortedRd.handle` (unchanged): `schedule()` calls and whole
  simulations with an ARBITRARY upper-bound estimator (`AcnModel/SortedEst.lean`).

  A request with `"custom_est": true` (same format as `WireSorted`'s otherwise; `"ramp"` is ignored)
  carries, per call, the dict the implementation's estimator returned in that call —
      "est": [[session_id, bound bits], …]      (`null` / absent: `get_maximum_rates` was not called)
  — an INPUT of the model (the estimator is user code: an external call).  The answer per call is that
  of `WireSorted` (`err`, `schedule`, `dict`, `pre`, `order`, `trace`, `levels`, `queue_left`) computed by
  `Sorted.scheduleCallEst` with `est := estOfDict dict`, plus `est_in`: the session ids handed to the
  estimator with their `max_rates` (already limited by `enforce_pilot_limit`).
  With a `"simrun"` scenario and `"est_table": [[session_id, [bound bits | null, …]], …]` the answer's
  `"simrun"` is the run of `SimSortedRd.runSt` with `SimSortedEst.sortedSchedEst` and the table
  estimator (bound of period `t` = entry `t mod length`).
  Every other request is answered by `WireSortedRd.handle`.
-/
import AcnModel.WireSortedRd
import AcnModel.SortedEst

namespace Acn.WireSortedEst
open Lean Acn Acn.Wire Acn.Sorted

def parseDict (v : Json) : Except String (List (String × Float)) := do
  (← asArr v).mapM fun p => do
    match ← asArr p with
    | [s, b] => pure (← s.getStr?, ← asF b)
    | _ => throw "est entry"

def parseTable (v : Json) : Except String (List (String × List (Option Float))) := do
  (← asArr v).mapM fun p => do
    match ← asArr p with
    | [s, seq] =>
      let xs ← (← asArr seq).mapM fun x =>
        match x with
        | Json.null => pure (none : Option Float)
        | y => do pure (some (← asF y))
      pure (← s.getStr?, xs)
    | _ => throw "est_table entry"

def parseCfg (j : Json) : Except String (Config Float) := do
  let algo ← getStr j "algo"
  pure { algo := if algo == "rr" then .roundRobin else .greedy,
         sort := ← WireSorted.parseSort (← getStr j "sort"),
         uninterrupted := ← getBool j "uninterrupted", estimate := ← getBool j "estimate",
         inc := ← getF j "inc", eps := fOfBits Acn.Gen.greedyEpsBits, fuel := 2000 }

def handleCallsEst (j : Json) : Except String Json := do
  let ij ← j.getObjVal? "infra"
  let infra ← WireSorted.parseInfra ij
  let M ← getFss ij "M"
  let lims ← getFs ij "lims"
  let c ← getFs ij "cos"
  let s ← getFs ij "sin"
  let vt := fOfBits Acn.Gen.algAbsTolBits
  let rt := fOfBits Acn.Gen.algRelTolBits
  let feas : List Float → Bool := Acn.Feas.algFeasible M lims c s vt rt
  let period ← getF j "period"
  let cfg ← parseCfg j
  let mut outs : Array Json := #[]
  for cj in ← getArr j "calls" do
    let raw ← (← getArr cj "sessions").mapM WireSorted.parseSession
    let time ← getInt cj "time"
    let dict ← getOpt cj "est" parseDict
    let feasC ← match cj.getObjVal? "net" with
      | .ok nj => do
          let M' ← getFss nj "M"
          let l' ← getFs nj "lims"
          pure (Acn.Feas.algFeasible M' l' c s vt rt)
      | .error _ => pure feas
    -- `dict = none`: the implementation never reached `get_maximum_rates` in this call
    -- (estimate_max_rate off, or `get_station_index` raised before); the answer is then not consulted
    let o := scheduleCallEst feasC cfg infra period time (fun _ => estOfDict (dict.getD [])) raw
    let common : List (String × Json) :=
      [("pre", jList WireSorted.jSess o.pre),
       ("order", jList (fun (x : Session Float) => jS x.session) o.order),
       ("trace", jList (fun (t : String × Nat × Bool) => Json.arr #[jS t.1, jN t.2.1, jB t.2.2]) o.trace),
       ("levels", if cfg.algo == .roundRobin then
            jList (fun (x : Session Float) => Json.arr #[jS x.session, jFs (rrLevels infra period cfg.inc x)]) o.order
          else Json.null),
       ("queue_left", jList (fun (x : Session Float) => jS x.session) o.queueLeft),
       ("est_in", jList (fun (x : Session Float) => Json.arr #[jS x.session, jF x.maxRate]) o.estIn)]
    match o.result with
    | .error e => outs := outs.push (Json.mkObj (("err", jS (WireSorted.errName e)) :: common))
    | .ok sch =>
      outs := outs.push (Json.mkObj (("err", Json.null) :: ("schedule", jFs sch) ::
        ("dict", jList (fun (p : String × List Float) => Json.arr #[jS p.1, jFs p.2])
                  (formatArraySchedule infra sch)) :: common))
  -- whole simulation with the table estimator
  let sr ← match j.getObjVal? "simrun", ← getOpt j "est_table" parseTable with
    | .ok sj, some table =>
      if sj == Json.null then pure Json.null else do
        let net : SimSorted.NetInfo Float := { M, lims, cos := c, sin := s, vt, rt }
        let scfg ← parseSimCfg sj
        let r := SimSortedRd.runSt scfg
          (SimSortedEst.sortedSchedEst net infF scfg cfg (SimSortedEst.tableEstimator table))
          (EventCore.fuelFor scfg.core) () (Sim.init scfg)
        pure (jResult scfg r.1)
    | _, _ => pure Json.null
  pure (Json.mkObj [("calls", Json.arr outs), ("simrun", sr)])

def handle (j : Json) : Except String Json := do
  match j.getObjVal? "custom_est" with
  | .ok (Json.bool true) => handleCallsEst j
  | _ => WireSortedRd.handle j

end Acn.WireSortedEst
