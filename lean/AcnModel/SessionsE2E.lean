/-
  End to end: `acndata_events.generate_events` over the REAL client path

      generate_events → get_evs → DataClient(token).get_sessions_by_time(site, start, end)
                      → get_sessions (pagination over `requests.get`) → parse_dates → _convert_to_ev

  i.e. the composition of the client model of C20 (`AcnModel/DataClient.lean`, `HttpDate.lean`) with
  the converter model of C15 (`AcnModel/Sessions.lean`).  The transport (`fetch`) is a parameter.
  A raw session is the JSON document as `parse_dates` sees it (string / time-series / other fields)
  plus the one number the converter reads, `kWhDelivered`.

  Laziness is preserved: `get_sessions` is a generator and `get_evs` converts each document as
  it is yielded, so a failing conversion stops the pagination — `collect` with the composed
  conversion does exactly that.  `offset = _datetime_to_timestamp(start, period)` is evaluated
  before the first request (acndata_events.py:62-65).  No Mathlib.
-/
import AcnModel.DataClient
import AcnModel.Sessions

namespace Acn.SessionsE2E
open Acn Acn.HttpDate Acn.DataClient Acn.Sessions Acn.Evse

structure RawSession (K : Type) where
  fields : DataClient.Doc
  kWh : K

def findField (pd : PDoc) (k : String) : Option PVal :=
  match pd.find? (fun p => p.1 == k) with
  | some p => some p.2
  | none => none

/-- `d[k].timestamp()`: `KeyError` when the key is missing; a value that `parse_dates` did not turn
    into a datetime has no `.timestamp()` (Python: AttributeError — reported in the `valueError`
    class here; the harness does not generate such documents, C20 covers malformed dates). -/
def dateField (pd : PDoc) (k : String) : Except DataClient.Err Aware :=
  match findField pd k with
  | none => .error .keyError
  | some (.date a) => .ok a
  | some _ => .error .valueError

/-- `d["sessionID"]`, `d["spaceID"]` (strings that are not dates stay strings) -/
def strField (pd : PDoc) (k : String) : Except DataClient.Err String :=
  match findField pd k with
  | none => .error .keyError
  | some (.str s) => .ok s
  | some _ => .error .valueError

section
variable {K : Type} [Add K] [Sub K] [Mul K] [Div K] [Neg K] [LT K] [LE K]
  [DecidableLT K] [DecidableLE K] [OfNat K 0] [OfNat K 1] [NatCast K] [IntCast K]
  [HasExp K] [HasTrunc K]

/-- the document `_convert_to_ev` works on, read off a parsed ACN-Data document.  The keys are
    read in the order the converter reads them (connectionTime, disconnectTime, kWhDelivered,
    sessionID, spaceID). -/
def toDoc (pd : PDoc) (kWh : K) : Except DataClient.Err (Sessions.Doc K) :=
  match dateField pd "connectionTime" with
  | .error e => .error e
  | .ok c =>
    match dateField pd "disconnectTime" with
    | .error e => .error e
    | .ok d =>
      match strField pd "sessionID" with
      | .error e => .error e
      | .ok sid =>
        match strField pd "spaceID" with
        | .error e => .error e
        | .ok sp =>
          .ok { connect := ((c.instant : Int) : K), disconnect := ((d.instant : Int) : K), kWh,
                session := sid, space := sp }

def convErr : Sessions.Err → DataClient.Err
  | .valueError => .valueError
  | .zeroDivision => .valueError      -- unreachable: the period was checked on `start`
  | .recursion => .outOfFuel

/-- `parse_dates(s)` in the client, then `_convert_to_ev(s, …)` in `get_evs` -/
def convRaw (zones : String → Option Zone) (offset : Int) (period V maxPower : K)
    (maxLen : Option Int) (bp : BattParams K) (ff : Bool) (r : RawSession K) :
    Except DataClient.Err (Ev K) :=
  match parseDates zones r.fields with
  | .error e => .error e
  | .ok pd =>
    match toDoc pd r.kWh with
    | .error e => .error e
    | .ok d =>
      match convertDoc d offset period V maxPower maxLen bp ff with
      | .error e => .error (convErr e)
      | .ok ev => .ok ev

inductive Err
  | zeroDivision
  | client (e : DataClient.Err)

/-- `generate_events(token, site, start, end, period, voltage, max_rate, …)` up to the queue:
    the requested URLs, the EVs in the order they were produced, and how the generator ended
    (`stop = none`: the queue is built, one `PluginEvent(ev.arrival, ev)` per EV). -/
def generateEvents (zones : String → Option Zone) (base site : String) (start stop : Aware)
    (period V maxPower : K) (maxLen : Option Int) (bp : BattParams K) (ff : Bool)
    (fetch : String → Resp (RawSession K)) (fuel : Nat) : Except Err (Trace (Ev K)) :=
  match periodIndex ((start.instant : Int) : K) period with
  | .error _ => .error .zeroDivision
  | .ok offset =>
    match getSessions base site (timeQuery (some start) (some stop) none false) fetch
        (convRaw zones offset period V maxPower maxLen bp ff) fuel with
    | .error e => .error (.client e)
    | .ok tr => .ok tr

end
end Acn.SessionsE2E
