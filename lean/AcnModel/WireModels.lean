/-
  JSON codecs (Float carrier) for batteries, EVs and EVSEs, shared by the drivers.
-/
import AcnModel.Wire
import AcnModel.Evse

namespace Acn.Wire
open Lean Acn.Battery Acn.Evse

def infF : Float := 1.0 / 0.0

/-- `inf` on the wire becomes `none`. -/
def boundOfF (x : Float) : Bound Float := if x == infF then none else some x
def fOfBound : Bound Float → Float
  | none => infF
  | some x => x

def parseBatt (j : Json) : Except String (Except Battery.Err (Batt Float)) := do
  let two ← getBool j "two"
  let cap ← getF j "cap"
  let init ← getF j "init"
  let maxp ← getF j "maxp"
  if two then
    let noise ← getF j "noise"
    let ts ← getF j "ts"
    let cstr ← getStr j "calc"
    let c := if cstr == "stepwise" then Calc.stepwise else Calc.continuous
    pure (mkTwoStage cap init maxp noise ts c)
  else pure (mkIdeal cap init maxp)

def jBatt (b : Batt Float) : Json :=
  Json.mkObj [("charge", jF b.charge), ("power", jF b.power), ("cap", jF b.capacity),
              ("init", jF b.init), ("maxp", jF b.maxPower)]

def parseEv (j : Json) : Except String (Except Battery.Err (Ev Float)) := do
  let session ← getStr j "session"
  let station ← getStr j "station"
  let arrival ← getInt j "arrival"
  let departure ← getInt j "departure"
  let est ← getInt j "est"
  let requested ← getF j "requested"
  let bj ← j.getObjVal? "batt"
  let b ← parseBatt bj
  pure (b.map fun batt =>
    { session, station, arrival, departure, estDeparture := est, requested,
      delivered := 0, rate := 0, batt })

def jEv (e : Ev Float) : Json :=
  Json.mkObj [("session", jS e.session), ("station", jS e.station), ("delivered", jF e.delivered),
              ("rate", jF e.rate), ("batt", jBatt e.batt)]

def parseKind (j : Json) : Except String (Kind Float) := do
  let t ← getStr j "t"
  if t == "cont" then
    pure (.cont (← getF j "min") (boundOfF (← getF j "max")))
  else if t == "deadband" then
    pure (.deadband (← getF j "db") (boundOfF (← getF j "max")))
  else if t == "finite" then
    pure (.finite (normalize (← getFs j "rates")))
  else throw s!"unknown evse kind {t}"

def errName : Evse.Err → String
  | .invalidRate => "InvalidRate"
  | .stationOccupied => "StationOccupied"
  | .valueError => "ValueError"

end Acn.Wire
