/-
  JSON codec (Float carrier) for whole-simulation scenarios and results, shared by the drivers
  that run the `Sim` model (C01, and C02/C04/C05/C09/C10 which reuse it).

  request  {"stations":[{"id","kind":<kind_wire>,"V":bits}], "evs":[<ev_wire>], "recomputes":[[ts,tag]],
            "max_recompute":null|n, "period":bits, "noise":[bits],
            "sched":{"type":"empty"} |
                    {"type":"scripted","default":<sched>,"script":[{"t":n,"fail":bool,"sched":<sched>}]}}
           <sched> = [[station,[bits…]],…]   (dict insertion order)
  result   see `jResult`.
-/
import AcnModel.WireModels
import AcnModel.Sim
import AcnModel.Gen.Consts

namespace Acn.Wire
open Lean Acn Acn.EventCore Acn.Sim

def parseStation (j : Json) : Except String (Station Float) := do
  pure { id := ← getStr j "id", kind := ← parseKind (← j.getObjVal? "kind"), voltage := ← getF j "V" }

def parseSchedule (v : Json) : Except String (Schedule Float) := do
  let a ← asArr v
  a.mapM fun p => do
    let pr ← asArr p
    match pr with
    | [s, r] => pure (← s.getStr?, ← asFs r)
    | _ => throw "schedule entry must be [station, row]"

def parseRecompute (v : Json) : Except String (Int × String) := do
  match ← asArr v with
  | [t, g] => pure (← t.getInt?, ← g.getStr?)
  | _ => throw "recompute must be [ts, tag]"

def parseSimCfg (j : Json) : Except String (Sim.Cfg Float) := do
  let stations ← (← getArr j "stations").mapM parseStation
  let evs ← (← getArr j "evs").mapM fun e => do
    match ← parseEv e with
    | .ok ev => pure ev
    | .error _ => throw "battery constructor rejected the parameters"
  let recomputes ← (← getArr j "recomputes").mapM parseRecompute
  let mr ← getOpt j "max_recompute" (fun v => v.getNat?)
  let noise ← match j.getObjVal? "noise" with
    | .ok v => asFs v
    | .error _ => pure []
  pure { stations, evs, recomputes, maxRecompute := mr, period := ← getF j "period",
         atolCont := fOfBits Gen.evseAtolBits, atolDeadband := fOfBits Gen.deadbandAtolBits,
         atolFinite := fOfBits Gen.finiteAtolBits, fullEps := fOfBits Gen.fullyChargedEpsBits, noise }

/-- scheduler of the request (`sched` field) -/
def parseSched (j : Json) : Except String (View Float → Except Err (Schedule Float)) := do
  let t ← getStr j "type"
  if t == "empty" then pure emptySched
  else if t == "scripted" then
    let dflt ← match j.getObjVal? "default" with
      | .ok v => parseSchedule v
      | .error _ => pure []
    let script ← (← getArr j "script").mapM fun e => do
      let tt ← getNat e "t"
      let fail ← match e.getObjVal? "fail" with
        | .ok v => v.getBool?
        | .error _ => pure false
      if fail then pure (tt, (none : Option (Schedule Float)))
      else pure (tt, some (← parseSchedule (← e.getObjVal? "sched")))
    pure (scripted script dflt)
  else throw s!"unknown scheduler type {t}"

def jEvent (e : Event) : Json := Json.arr #[jI e.ts, jS e.kind.name, jS e.sess]

def jEvState (e : Evse.Ev Float) : Json :=
  Json.mkObj [("session", jS e.session), ("delivered", jF e.delivered), ("rate", jF e.rate),
              ("charge", jF e.batt.charge), ("power", jF e.batt.power)]

/-- the observable state of a simulator (final, or at the point where `run()` raised) -/
def jSimState (cfg : Sim.Cfg Float) (s : Sim.State Float) : List (String × Json) :=
  [("iter", jN s.core.iter),
   ("queue_empty", jB s.core.pending.isEmpty),
   ("pending", jList jEvent s.core.pending),
   ("resolve", jB s.core.resolve),
   ("last_upd", jOpt jI s.core.lastUpd),
   ("event_history", jList jEvent s.core.eventHist),
   ("ev_history", jList jS s.core.evHist),
   ("invoked", jList jN s.core.invoked),
   ("occ_final", jList (jOpt jS) (cfg.stations.map fun st => (s.core.occ st.id).map (·.id))),
   ("occ", jList (jList (jOpt jS)) s.occLog),
   ("pilots", jFss s.pilots.rows), ("pilots_width", jN s.pilots.width),
   ("rates", jFss s.rates.rows), ("rates_width", jN s.rates.width),
   ("peak", jF s.peak),
   ("evs", jList jEvState s.evs),
   ("evse_pilot", jFs s.evsePilot),
   ("noise_draws", jN s.noiseIdx)]

def jResult (cfg : Sim.Cfg Float) (r : Sim.State Float × Option Err) : Json :=
  Json.mkObj ([("err", jOpt (fun e => jS e.name) r.2),
               ("fuel_exhausted", jB (r.2.isNone && guard r.1.core))] ++ jSimState cfg r.1)

end Acn.Wire
