/-
  Proleptic Gregorian calendar arithmetic (what Python's `datetime.date` implements),
  used by the tariff model (C17) and the ACN-Data client model (C20).
  Pure `Int` arithmetic; `/` and `%` on `Int` are floor division / non-negative remainder
  for the positive literals used here, which is what `omega` reasons about.

  `daysFromCivil y m d` = days since 1970-01-01 (so `date(y,m,d).toordinal() - 719163`).
  The algorithms are the classical era/year-of-era/day-of-year decomposition.
-/
namespace Acn.Calendar

def isLeap (y : Int) : Bool := (y % 4 == 0 && y % 100 != 0) || y % 400 == 0

def daysInMonth (y m : Int) : Int :=
  if m == 2 then (if isLeap y then 29 else 28)
  else if m == 4 || m == 6 || m == 9 || m == 11 then 30
  else 31

/-- what `datetime.date(y, m, d)` accepts (year range of the `datetime` module) -/
def validDate (y m d : Int) : Bool :=
  decide (1 ≤ y) && decide (y ≤ 9999) && decide (1 ≤ m) && decide (m ≤ 12) &&
  decide (1 ≤ d) && decide (d ≤ daysInMonth y m)

/-- days since 1970-01-01 of the civil date `y-m-d` -/
def daysFromCivil (y m d : Int) : Int :=
  let y' := if m ≤ 2 then y - 1 else y
  let era := y' / 400
  let yoe := y' - era * 400                       -- [0, 399]
  let mp := if m ≤ 2 then m + 9 else m - 3        -- March = 0
  let doy := (153 * mp + 2) / 5 + d - 1           -- [0, 365]
  let doe := yoe * 365 + yoe / 4 - yoe / 100 + doy  -- [0, 146096]
  era * 146097 + doe - 719468

/-- inverse of `daysFromCivil`: (year, month, day) -/
def civilFromDays (z0 : Int) : Int × Int × Int :=
  let z := z0 + 719468
  let era := z / 146097
  let doe := z - era * 146097                     -- [0, 146096]
  let yoe := (doe - doe / 1460 + doe / 36524 - doe / 146096) / 365   -- [0, 399]
  let y := yoe + era * 400
  let doy := doe - (365 * yoe + yoe / 4 - yoe / 100)   -- [0, 365]
  let mp := (5 * doy + 2) / 153                   -- [0, 11]
  let d := doy - (153 * mp + 2) / 5 + 1           -- [1, 31]
  let m := if mp < 10 then mp + 3 else mp - 9     -- [1, 12]
  (if m ≤ 2 then y + 1 else y, m, d)

/-- Python's `date.weekday()`: Monday = 0 … Sunday = 6 (1970-01-01 was a Thursday = 3). -/
def weekday (days : Int) : Int := (days + 3) % 7

/-- day of the year, 1-based (`timetuple().tm_yday`) -/
def dayOfYear (y m d : Int) : Int := daysFromCivil y m d - daysFromCivil y 1 1 + 1

end Acn.Calendar
