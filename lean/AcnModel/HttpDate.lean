/-
  RFC-1123 dates and aware datetimes, as used by the ACN-Data client
  (`/repo/acnportal/acndata/utils.py`):

    http_date(dt)          = dt.astimezone(pytz.utc).strftime("%a, %d %b %Y %H:%M:%S GMT")   utils.py:5-12
    parse_http_date(ds,tz) = pytz.UTC.localize(strptime(ds, "%a, %d %b %Y %H:%M:%S GMT"))
                               .astimezone(tz)                                                utils.py:15-24

  An *instant* is a whole number of seconds since 1970-01-01T00:00:00Z (both functions work to
  the second: `strftime` drops microseconds).  A time zone is an arbitrary function
  `off : Instant → Int` giving the UTC offset in seconds in force at an instant (pytz's zone data
  is trusted; `Zone` below is the table form pytz itself uses).  An aware datetime is what Python
  stores: naive wall-clock fields plus the UTC offset.

  Strings are handled as `List Char`; the format has fixed width 29 in the supported domain
  (years 1000–9999: glibc's `%Y` does not pad smaller years, `datetime` stops at 9999).
  The parser accepts the RFC-1123 grammar with case-insensitive names (as `strptime`) in two
  shapes: the canonical 29-character form, and the 28-character form whose day of month is ONE
  digit (RFC 822/1123 `date = 1*2DIGIT month 2*4DIGIT`; CPython's `%d` is
  `3[0-1]|[1-2]\d|0[1-9]|[1-9]| [1-9]`, so "Wed, 1 Jan 2020 08:05:09 GMT" converts).
  OUTSIDE the model (measured on CPython 3.12, all of them ACCEPTED by `strptime`): a one-digit
  hour / minute / second (`%H` = `2[0-3]|[0-1]\d|\d`, likewise `%M`, `%S`); any run of one or more
  white-space characters (`\s+`, Unicode-aware: blank, TAB, LF, NBSP …) where the format has a
  blank — after the comma, around the month name, before the hour and before `GMT`; non-ASCII
  decimal digits where the pattern says `\d` (second digit of day / hour, both of minute…, the
  year).  The year is exactly four digits in both (`%Y` = `\d\d\d\d`: "202", "20200" are
  `ValueError`), there is no leading or trailing white space, and nothing but `GMT` (any case)
  is a zone.  No Mathlib.
-/
import AcnModel.Calendar

namespace Acn.HttpDate
open Acn.Calendar

/-- whole seconds since the epoch -/
abbrev Instant := Int

/-- naive broken-down time (the fields of a Python `datetime`, without microseconds) -/
structure Fields where
  y : Int
  mo : Int
  d : Int
  h : Int
  mi : Int
  s : Int
deriving DecidableEq, Repr

/-- `datetime.utcfromtimestamp`-style decomposition of a second count (floor semantics) -/
def fieldsOfSeconds (t : Int) : Fields :=
  let c := civilFromDays (t / 86400)
  let sod := t % 86400
  { y := c.1, mo := c.2.1, d := c.2.2, h := sod / 3600, mi := sod % 3600 / 60, s := sod % 60 }

/-- `calendar.timegm` of naive fields -/
def secondsOfFields (f : Fields) : Int :=
  daysFromCivil f.y f.mo f.d * 86400 + f.h * 3600 + f.mi * 60 + f.s

/-- what the `datetime` constructor accepts -/
def validFields (f : Fields) : Bool :=
  validDate f.y f.mo f.d && decide (0 ≤ f.h) && decide (f.h < 24) && decide (0 ≤ f.mi) &&
  decide (f.mi < 60) && decide (0 ≤ f.s) && decide (f.s < 60)

/-- aware datetime: wall-clock fields and the UTC offset (seconds) attached to them -/
structure Aware where
  loc : Fields
  off : Int
deriving DecidableEq, Repr

/-- the instant an aware datetime denotes (`dt.timestamp()`, to the second) -/
def Aware.instant (a : Aware) : Instant := secondsOfFields a.loc - a.off

/-- `tz.fromutc` / `astimezone(tz)`: the wall clock of zone `off` at instant `t` -/
def toZone (off : Instant → Int) (t : Instant) : Aware :=
  { loc := fieldsOfSeconds (t + off t), off := off t }

/-- pytz's table form of a zone: offset before the first transition, then ascending
    `(utc transition instant, offset from then on)`; `fromutc` takes the last transition `≤ t`
    (`bisect_right(...) - 1`, clamped at 0). -/
structure Zone where
  init : Int
  trans : List (Int × Int)
deriving Repr

def Zone.off (z : Zone) (t : Instant) : Int :=
  z.trans.foldl (fun acc p => if p.1 ≤ t then p.2 else acc) z.init

/-! ### names and digits -/

def wdName (w : Int) : Char × Char × Char :=
  if w == 0 then ('M', 'o', 'n') else if w == 1 then ('T', 'u', 'e')
  else if w == 2 then ('W', 'e', 'd') else if w == 3 then ('T', 'h', 'u')
  else if w == 4 then ('F', 'r', 'i') else if w == 5 then ('S', 'a', 't')
  else ('S', 'u', 'n')

def monName (m : Int) : Char × Char × Char :=
  if m == 1 then ('J', 'a', 'n') else if m == 2 then ('F', 'e', 'b')
  else if m == 3 then ('M', 'a', 'r') else if m == 4 then ('A', 'p', 'r')
  else if m == 5 then ('M', 'a', 'y') else if m == 6 then ('J', 'u', 'n')
  else if m == 7 then ('J', 'u', 'l') else if m == 8 then ('A', 'u', 'g')
  else if m == 9 then ('S', 'e', 'p') else if m == 10 then ('O', 'c', 't')
  else if m == 11 then ('N', 'o', 'v') else ('D', 'e', 'c')

/-- weekday from its abbreviated name, case-insensitively (`%a`) -/
def wdOfName (a b c : Char) : Option Int :=
  let k := [a.toLower, b.toLower, c.toLower]
  if k == ['m', 'o', 'n'] then some 0 else if k == ['t', 'u', 'e'] then some 1
  else if k == ['w', 'e', 'd'] then some 2 else if k == ['t', 'h', 'u'] then some 3
  else if k == ['f', 'r', 'i'] then some 4 else if k == ['s', 'a', 't'] then some 5
  else if k == ['s', 'u', 'n'] then some 6 else none

/-- month from its abbreviated name, case-insensitively (`%b`) -/
def monOfName (a b c : Char) : Option Int :=
  let k := [a.toLower, b.toLower, c.toLower]
  if k == ['j', 'a', 'n'] then some 1 else if k == ['f', 'e', 'b'] then some 2
  else if k == ['m', 'a', 'r'] then some 3 else if k == ['a', 'p', 'r'] then some 4
  else if k == ['m', 'a', 'y'] then some 5 else if k == ['j', 'u', 'n'] then some 6
  else if k == ['j', 'u', 'l'] then some 7 else if k == ['a', 'u', 'g'] then some 8
  else if k == ['s', 'e', 'p'] then some 9 else if k == ['o', 'c', 't'] then some 10
  else if k == ['n', 'o', 'v'] then some 11 else if k == ['d', 'e', 'c'] then some 12
  else none

/-- decimal digit `0..9` as a character -/
def digit (n : Int) : Char :=
  if n == 0 then '0' else if n == 1 then '1' else if n == 2 then '2' else if n == 3 then '3'
  else if n == 4 then '4' else if n == 5 then '5' else if n == 6 then '6' else if n == 7 then '7'
  else if n == 8 then '8' else '9'

def digitVal (c : Char) : Option Int :=
  if c == '0' then some 0 else if c == '1' then some 1 else if c == '2' then some 2
  else if c == '3' then some 3 else if c == '4' then some 4 else if c == '5' then some 5
  else if c == '6' then some 6 else if c == '7' then some 7 else if c == '8' then some 8
  else if c == '9' then some 9 else none

def num2 (a b : Char) : Option Int :=
  match digitVal a, digitVal b with
  | some x, some y => some (10 * x + y)
  | _, _ => none

def num4 (a b c d : Char) : Option Int :=
  match num2 a b, num2 c d with
  | some x, some y => some (100 * x + y)
  | _, _ => none

/-! ### format and parse -/

/-- `strftime("%a, %d %b %Y %H:%M:%S GMT")` of the UTC wall clock of instant `t`
    (faithful for years 1000–9999) -/
def formatChars (t : Instant) : List Char :=
  let f := fieldsOfSeconds t
  let w := wdName (weekday (t / 86400))
  let m := monName f.mo
  [w.1, w.2.1, w.2.2, ',', ' ', digit (f.d / 10), digit (f.d % 10), ' ', m.1, m.2.1, m.2.2, ' ',
   digit (f.y / 1000), digit (f.y / 100 % 10), digit (f.y / 10 % 10), digit (f.y % 10), ' ',
   digit (f.h / 10), digit (f.h % 10), ':', digit (f.mi / 10), digit (f.mi % 10), ':',
   digit (f.s / 10), digit (f.s % 10), ' ', 'G', 'M', 'T']

def formatRfc1123 (t : Instant) : String := String.ofList (formatChars t)

/-- the supported domain of `formatRfc1123`: UTC year in 1000..9999 -/
def inFormatDomain (t : Instant) : Bool :=
  decide (1000 ≤ (fieldsOfSeconds t).y) && decide ((fieldsOfSeconds t).y ≤ 9999)

/-- the fixed punctuation of the format (`GMT` matched case-insensitively, as `strptime` does) -/
def punctOk (c1 p1 p2 p3 p4 k1 k2 p5 g1 g2 g3 : Char) : Bool :=
  c1 == ',' && p1 == ' ' && p2 == ' ' && p3 == ' ' && p4 == ' ' && k1 == ':' && k2 == ':' &&
  p5 == ' ' && g1.toLower == 'g' && g2.toLower == 'm' && g3.toLower == 't'

/-- the canonical 29-character form: `strptime(s, "%a, %d %b %Y %H:%M:%S GMT")` followed by
    `pytz.UTC.localize`: `none` is `ValueError`.  The weekday name must be a weekday name but is
    not checked against the date (neither does `strptime`). -/
def parseCanon : List Char → Option Instant
  | [w1, w2, w3, c1, p1, d1, d2, p2, m1, m2, m3, p3, y1, y2, y3, y4, p4, h1, h2, k1, i1, i2, k2,
     s1, s2, p5, g1, g2, g3] =>
    if punctOk c1 p1 p2 p3 p4 k1 k2 p5 g1 g2 g3 then
      match wdOfName w1 w2 w3, num2 d1 d2, monOfName m1 m2 m3, num4 y1 y2 y3 y4, num2 h1 h2,
            num2 i1 i2, num2 s1 s2 with
      | some _, some d, some mo, some y, some h, some mi, some s =>
        let f : Fields := { y := y, mo := mo, d := d, h := h, mi := mi, s := s }
        if validFields f then some (secondsOfFields f) else none
      | _, _, _, _, _, _, _ => none
    else none
  | _ => none

/-- a 28-character stamp with the zero of a one-digit day of month put back
    (`"Wed, 1 Jan …"` ↦ `"Wed, 01 Jan …"`) -/
def padDay (l : List Char) : List Char := l.take 5 ++ '0' :: l.drop 5

/-- `strptime(s, "%a, %d %b %Y %H:%M:%S GMT")` + `pytz.UTC.localize` on the two shapes of the model:
    the canonical 29 characters, or 28 characters with a one-digit day of month (`%d` also matches
    `[1-9]`; a lone `0` is day 0 and is refused like `00`).  `none` is `ValueError`. -/
def parseChars (l : List Char) : Option Instant :=
  if l.length = 28 then parseCanon (padDay l) else parseCanon l

/-- `formatChars t` without the first digit of the day of month: for a day 01..09 the stamp an
    un-padding server sends (`"Wed, 1 Jan 2020 08:05:09 GMT"`) -/
def unpadChars (t : Instant) : List Char := (formatChars t).eraseIdx 5

def formatUnpadded (t : Instant) : String := String.ofList (unpadChars t)

def parseRfc1123 (s : String) : Option Instant := parseChars s.toList

/-- `http_date(dt)` (utils.py:5-12) -/
def httpDate (a : Aware) : String := formatRfc1123 a.instant

/-- `parse_http_date(ds, tz)` (utils.py:15-24); `none` = `ValueError` -/
def parseHttpDate (off : Instant → Int) (s : String) : Option Aware :=
  (parseRfc1123 s).map (toZone off)

end Acn.HttpDate
