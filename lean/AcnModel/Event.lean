/-
  Events of the simulator — acnportal/acnsim/events/event.py.
  An event is `(timestamp, kind, payload)`; the queue orders entries `(timestamp, event)` as
  Python tuples, i.e. by timestamp and then by `Event.__lt__` (= precedence `<`).
  Precedences are REGENERATED from the source (`Gen.Consts`).
  Shared by the queue model (C11), the run-loop model (C01/C05/C09) and the stochastic
  network model (C19).
-/
import AcnModel.Gen.Consts

namespace Acn

inductive EvKind | unplug | plugin | recompute
  deriving DecidableEq, Repr, Inhabited

/-- `precedence` attribute of the three event classes, from the working tree -/
def EvKind.prec : EvKind → Rat
  | .unplug => Gen.precUnplug
  | .plugin => Gen.precPlugin
  | .recompute => Gen.precRecompute

def EvKind.name : EvKind → String
  | .unplug => Gen.typeUnplug
  | .plugin => Gen.typePlugin
  | .recompute => Gen.typeRecompute

/-- `sess` identifies the EV of a plug-in / unplug event (its session id); for a recompute
    event it is an arbitrary tag so that events stay distinguishable. -/
structure Event where
  ts : Int
  kind : EvKind
  sess : String
  deriving DecidableEq, Repr, Inhabited

/-- `(ts₁, e₁) < (ts₂, e₂)` as Python compares the heap entries (event_queue.py:47,
    event.py:38-48): timestamp first, then `Event.__lt__`, i.e. strict precedence order. -/
def Event.keyLt (a b : Event) : Bool :=
  decide (a.ts < b.ts) || (decide (a.ts = b.ts) && decide (a.kind.prec < b.kind.prec))

/-- same key: neither is `<` the other -/
def Event.keyEq (a b : Event) : Bool := !a.keyLt b && !b.keyLt a

def Event.keyLe (a b : Event) : Bool := !b.keyLt a

end Acn
