/-
  Registry — the id-keyed object store behind `BaseSimObj.to_json` / `from_json`
  (acnportal/acnsim/base.py:271-426 `_to_registry`, 448-504 `_build_from_id`, 566-771
  `_from_registry`).

  A *store* maps object ids to `(class, attributes)`; an attribute value is a scalar (anything
  JSON-serialisable that holds no reference: numbers, strings, arrays, `None`, …), a reference to
  another object, or a list whose items are scalars or references (`_queue = [(ts, id), …]`,
  `ev_history = {session: id}`, `event_history = [id, …]`, `_EVSEs = {station: id}`; the dict /
  tuple shape is kept as scalar items between the references).

  `_to_registry` (dump) walks the live object graph: an object that is already in `context_dict`
  is not converted again (base.py:354); otherwise its `_to_dict` first converts the objects it
  refers to, in attribute order, and the object itself is entered AFTER them (base.py:361, 405).
  `_build_from_id` / `_from_registry` (load) walk the `context_dict` the same way with the
  `loaded_dict` memo (base.py:480, 694): unknown id ⇒ `KeyError` (base.py:483), children first
  (`_from_dict`), then `loaded_dict[obj_id] = obj` (base.py:503, 770).

  Both walks are the ONE function `visit` below.  The result is an association list in
  insertion order (Python dicts keep it); the identity of a loaded object is its entry, i.e. its
  position in that list: two references denote the same loaded object iff they are looked up
  under the same key, and an id that were entered twice would be two objects.

  Termination: the real code recurses without a guard (a cyclic graph overflows the Python stack);
  the model is fuelled, `dump`/`load` use `size + 1`, and `AcnProofs/Lemmas/Registry*.lean` prove that
  this is enough for every acyclic store (acyclicity given by a rank function).
-/
namespace Acn.Registry

abbrev Id := Nat

/-- an item of a list-valued attribute -/
inductive Item
  | scalar (s : String)
  | ref (i : Id)
  deriving DecidableEq, Repr, Inhabited

inductive Val
  | scalar (s : String)
  | ref (i : Id)
  | list (l : List Item)
  deriving DecidableEq, Repr, Inhabited

structure Obj where
  cls : String
  attrs : List (String × Val)
  deriving DecidableEq, Repr, Inhabited

abbrev Store := List (Id × Obj)

inductive Err
  | missing (i : Id)        -- `KeyError: Object with ID … not found in context_dict`
  | fuel                    -- recursion limit (cyclic graph)
  deriving DecidableEq, Repr, Inhabited

def Item.refs : Item → List Id
  | .scalar _ => []
  | .ref i => [i]

def Val.refs : Val → List Id
  | .scalar _ => []
  | .ref i => [i]
  | .list l => l.flatMap Item.refs

/-- the objects an object refers to, in the order in which `_to_dict` / `_from_dict` reach them -/
def Obj.refs (o : Obj) : List Id := o.attrs.flatMap fun a => a.2.refs

def Store.get (st : Store) (i : Id) : Option Obj := List.lookup i st

def Store.keys (st : Store) : List Id := st.map Prod.fst

/-- fold of `visit` over the references of one object (the body of `_to_dict` / `_from_dict`) -/
def visitList (v : Id → Store → Except Err Store) : List Id → Store → Except Err Store
  | [], ctx => .ok ctx
  | j :: js, ctx =>
    match v j ctx with
    | .error e => .error e
    | .ok ctx' => visitList v js ctx'

/-- `_to_registry` on the live graph / `_build_from_id` on the `context_dict`: memo check, lookup,
    children first, then the object itself is entered -/
def visit (st : Store) : Nat → Id → Store → Except Err Store
  | 0, _, _ => .error .fuel
  | f + 1, i, ctx =>
    if ctx.keys.contains i then .ok ctx          -- base.py:354 / 480
    else
      match st.get i with
      | none => .error (.missing i)               -- base.py:483
      | some o =>
        match visitList (visit st f) o.refs ctx with
        | .error e => .error e
        | .ok ctx' => .ok (ctx' ++ [(i, o)])      -- base.py:405 / 503

/-- `obj._to_registry()[0]["context_dict"]` for the object `root` of the heap `st` -/
def dump (st : Store) (root : Id) : Except Err Store := visit st (st.length + 1) root []

/-- `_from_registry` of the entry `root` of a `context_dict`: the `loaded_dict` -/
def load (ctx : Store) (root : Id) : Except Err Store := visit ctx (ctx.length + 1) root []

/-- the same walk WITHOUT the memo check (what the serialiser would do if it did not keep
    `context_dict` / `loaded_dict`): a shared object is entered once per reference.  Only used to
    show that the sharing theorem is not vacuous. -/
def visitNoMemo (st : Store) : Nat → Id → Store → Except Err Store
  | 0, _, _ => .error .fuel
  | f + 1, i, ctx =>
    match st.get i with
    | none => .error (.missing i)
    | some o =>
      match visitList (visitNoMemo st f) o.refs ctx with
      | .error e => .error e
      | .ok ctx' => .ok (ctx' ++ [(i, o)])

/-- the "address" of the loaded object for id `i`: its position in the `loaded_dict` -/
def addr (loaded : Store) (i : Id) : Option Nat :=
  let k := loaded.keys.idxOf i
  if k < loaded.length then some k else none

/-- roots-and-edges reachability in a store (`i` itself included) -/
inductive Reach (st : Store) : Id → Id → Prop
  | refl (i : Id) : Reach st i i
  | step {i j k : Id} {o : Obj} : st.get i = some o → j ∈ o.refs → Reach st j k → Reach st i k

end Acn.Registry
