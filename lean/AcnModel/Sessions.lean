/-
  Session generation — transcription of
    acnportal/acnsim/events/acndata_events.py   (`_datetime_to_timestamp`, `_convert_to_ev`,
                                                 `get_evs`, `generate_events`)
    acnportal/acnsim/events/stochastic_events.py (`StochasticEvents._convert_ev_matrix`,
                                                 `generate_events`)
    acnportal/acnsim/models/battery.py:381-477   (`batt_cap_fn`, `_get_init_cap`,
                                                 `delta_soc_from_init_soc`, `binsearch`)

  Written once, polymorphic in the carrier `K` (executed at `Float` by `Drivers/C15`,
  reasoned about over ordered fields / ℝ in `AcnProofs/C15`).  Python's `int(x)` (truncation
  toward zero) is supplied per carrier through `HasTrunc`, like `HasExp`.  Times are what
  `datetime.timestamp()` returns: seconds since the epoch, so the time zone of the datetime
  object is irrelevant by construction (the harness feeds zone-aware datetimes to the real code).
  External things are inputs: the documents the data client yields, the sample matrix the
  mixture sampler returns, a user supplied `capacity_fn`.
-/
import AcnModel.Evse
import AcnModel.Gen.Consts

namespace Acn

/-- Python's `int(x)` on a float: truncation toward zero. -/
class HasTrunc (K : Type) where
  trunc : K → Int

instance : HasTrunc Float := ⟨fun x => x.toInt64.toInt⟩
instance : IntCast Float := ⟨Float.ofInt⟩

namespace Sessions
open Acn Acn.Battery Acn.Evse

inductive Err
  | zeroDivision      -- `period == 0`
  | valueError        -- Battery constructor / "No feasible battery size found."
  | recursion         -- `binsearch` ran out of fuel (Python: RecursionError)
  deriving DecidableEq, Repr

def ofBatt {α : Type} : Except Battery.Err α → Except Err α
  | .ok a => .ok a
  | .error _ => .error .valueError

section
variable {K : Type} [Add K] [Sub K] [Mul K] [Div K] [Neg K] [LT K] [LE K]
  [DecidableLT K] [DecidableLE K] [OfNat K 0] [OfNat K 1] [NatCast K] [IntCast K]
  [HasExp K] [HasTrunc K]

/-- value of a regenerated rational constant in the carrier -/
def ratK (q : Rat) : K :=
  if q.num < 0 then -((q.num.natAbs : K) / (q.den : K)) else (q.num.natAbs : K) / (q.den : K)

/-! ### acndata_events.py:136-151 — datetime → period index -/

/-- `int(dt.timestamp() / (60 * period))` (the `round_up=False` path, the only one used).
    `secs` is `dt.timestamp()`. Python float division by zero raises. -/
def periodIndex (secs period : K) : Except Err Int :=
  if ¬ (period < 0) ∧ ¬ (0 < period) then .error .zeroDivision
  else .ok (HasTrunc.trunc (secs / ((60 : Nat) * period)))

/-! ### battery.py:381-477 — the two-stage capacity / initial charge fit -/

/-- `delta_soc_from_init_soc` (battery.py:428-439): SoC delivered in `T` periods at full rate
    starting from SoC `g`, with `m = max_dsoc`. -/
def deltaSocFrom (m T ts g : K) : K :=
  if T ≤ (ts - g) / m then m * T
  else 1 + HasExp.exp ((m * T + g - ts) / (ts - 1)) * (ts - 1) - g

/-- `binsearch` (battery.py:450-458) for a decreasing `f`; Python recursion becomes fuel. -/
def binsearch (f : K → K) (target tol : K) : Nat → K → K → Except Err K
  | 0, _, _ => .error .recursion
  | fuel + 1, lb, ub =>
    let mid := (lb + ub) / (2 : Nat)
    let val := f mid
    if absK (val - target) < tol then .ok mid
    else if 0 < val - target then binsearch f target tol fuel mid ub
    else binsearch f target tol fuel lb mid

/-- closed-form candidate of `_get_init_cap` (battery.py:413-421): returns `(δ, m, init_soc)` -/
def closedInitSoc (maxRate ts E T V P cap : K) : K × K × K :=
  let δ := E / cap
  let m := maxRate * V / (1000 : Nat) / cap / ((60 : Nat) / P)
  (δ, m, 1 + δ / (HasExp.exp (m * T / (ts - 1)) - 1))

/-- `_get_init_cap(battery_cap)` (battery.py:404-468): initial charge in kWh, or −1. -/
def getInitCap (maxRate ts tol : K) (fuel : Nat) (E T V P cap : K) : Except Err K :=
  let (δ, m, s0) := closedInitSoc maxRate ts E T V P cap
  if ts ≤ s0 then .ok (s0 * cap)
  else if deltaSocFrom m T ts 0 < δ then .ok (-1)
  else
    match binsearch (deltaSocFrom m T ts) δ tol fuel (ts - m * T) 1 with
    | .error e => .error e
    | .ok s => .ok (s * cap)

/-- the ladder loop of `batt_cap_fn` (battery.py:470-477) -/
def battCapFn (caps : List K) (maxRate ts tol : K) (fuel : Nat) (E T V P : K) : Except Err (K × K) :=
  match caps with
  | [] => .error .valueError
  | cap :: rest =>
    if cap < E then battCapFn rest maxRate ts tol fuel E T V P
    else
      match getInitCap maxRate ts tol fuel E T V P cap with
      | .error e => .error e
      | .ok init => if 0 ≤ init then .ok (cap, init) else battCapFn rest maxRate ts tol fuel E T V P

/-- recursion budget standing for CPython's default recursion limit -/
def pyFuel : Nat := 900

/-- `batt_cap_fn` with the constants of the working tree (`Gen.Consts`). -/
def battCapFnGen (E T V P : K) : Except Err (K × K) :=
  battCapFn (Gen.fitCaps.map ratK) (ratK Gen.fitMaxRate) (ratK Gen.fitTransitionSoc)
    (ratK Gen.fitTol) pyFuel E T V P

/-! ### battery construction from `battery_params` -/

/-- a `capacity_fn(energy, stay, voltage, period) → (capacity, init_charge)` -/
abbrev CapFn (K : Type) := K → K → K → K → Except Err (K × K)

inductive BattType | ideal | twoStage
  deriving DecidableEq, Repr

/-- `battery_params` (`None` is `{type: Battery}`); `kwargs` of the two-stage class with the
    constructor's defaults filled in by the caller. -/
structure BattParams (K : Type) where
  type : BattType
  capFn : Option (CapFn K)
  noise : K
  ts : K
  cmode : Calc

def defaultParams : BattParams K :=
  { type := .ideal, capFn := none, noise := 0, ts := ratK Gen.twoStageDefaultTs, cmode := .continuous }

/-- acndata_events.py:120-130 / stochastic_events.py:249-266 -/
def mkBattery (bp : BattParams K) (energy stay V period maxPower : K) : Except Err (Batt K) :=
  let capInit : Except Err (K × K) :=
    match bp.capFn with
    | some f => f energy stay V period
    | none => .ok (energy, 0)
  match capInit with
  | .error e => .error e
  | .ok (cap, init) =>
    match bp.type with
    | .ideal => ofBatt (mkIdeal cap init maxPower)
    | .twoStage => ofBatt (mkTwoStage cap init maxPower bp.noise bp.ts bp.cmode)

/-! ### acndata_events.py:82-133 — document → EV -/

structure Doc (K : Type) where
  connect : K          -- `d["connectionTime"].timestamp()`
  disconnect : K       -- `d["disconnectTime"].timestamp()`
  kWh : K
  session : String
  space : String

/-- departure after the `max_len` cap (acndata_events.py:105-106) -/
def capDeparture (arrival dep : Int) : Option Int → Int
  | some L => if L < dep - arrival then arrival + L else dep
  | none => dep

/-- `delivered_energy` (acndata_events.py:110-115) -/
def docEnergy (ff : Bool) (kWh maxPower period : K) (stay : Int) : K :=
  if ff then pyMin kWh (maxPower * (stay : K) * (period / (60 : Nat))) else kWh

def convertDoc (d : Doc K) (offset : Int) (period V maxPower : K) (maxLen : Option Int)
    (bp : BattParams K) (ff : Bool) : Except Err (Ev K) :=
  match periodIndex d.connect period, periodIndex d.disconnect period with
  | .error e, _ => .error e
  | _, .error e => .error e
  | .ok a0, .ok d0 =>
    let arrival := a0 - offset
    let departure := capDeparture arrival (d0 - offset) maxLen
    let stay := departure - arrival
    let energy := docEnergy ff d.kWh maxPower period stay
    match mkBattery bp energy (stay : K) V period maxPower with
    | .error e => .error e
    | .ok batt =>
      .ok { session := d.session, station := d.space, arrival, departure,
            estDeparture := departure, requested := energy, delivered := 0, rate := 0, batt }

/-- the loop of `get_evs` (acndata_events.py:66-79): the first failing document aborts the call -/
def convertDocs (docs : List (Doc K)) (offset : Int) (period V maxPower : K) (maxLen : Option Int)
    (bp : BattParams K) (ff : Bool) : Except Err (List (Ev K)) :=
  match docs with
  | [] => .ok []
  | d :: ds =>
    match convertDoc d offset period V maxPower maxLen bp ff with
    | .error e => .error e
    | .ok e =>
      match convertDocs ds offset period V maxPower maxLen bp ff with
      | .error x => .error x
      | .ok l => .ok (e :: l)

/-- `get_evs` (acndata_events.py:62-79) -/
def getEvs (start : K) (docs : List (Doc K)) (period V maxPower : K) (maxLen : Option Int)
    (bp : BattParams K) (ff : Bool) : Except Err (List (Ev K)) :=
  match periodIndex start period with
  | .error e => .error e
  | .ok offset => convertDocs docs offset period V maxPower maxLen bp ff

/-- `generate_events`: one `PluginEvent(sess.arrival, sess)` per EV -/
def pluginEvents (evs : List (Ev K)) : List (Int × String) := evs.map fun e => (e.arrival, e.session)

/-! ### stochastic_events.py:205-277 — sample matrix → EVs -/

structure Sample (K : Type) where
  arrival : K        -- hours since midnight of day 0
  duration : K       -- hours
  energy : K         -- kWh

/-- `if max_len is not None and duration > max_len: duration = max_len` (HOURS, DESIGN §8) -/
def sampleDur (d : K) : Option K → K
  | some L => if L < d then L else d
  | none => d

/-- One row. `none` = "Invalid session." (skipped).  NOTE (DESIGN §8): `max_len` caps the
    duration in HOURS, and the capacity fit is handed the duration in hours. -/
def convertSample (idx : Nat) (s : Sample K) (period V maxPower : K) (maxLen : Option K)
    (bp : BattParams K) (ff : Bool) : Except Err (Option (Ev K)) :=
  if ¬ (period < 0) ∧ ¬ (0 < period) then .error .zeroDivision
  else
    let pph := (60 : Nat) / period
    if s.arrival < 0 ∨ s.duration ≤ 0 ∨ s.energy ≤ 0 then .ok none
    else
      let duration := sampleDur s.duration maxLen
      -- `np.minimum(max_feasible, energy)`: the second operand unless the first is smaller
      let energy := if ff then pyMin s.energy (maxPower * duration) else s.energy
      let departure : Int := HasTrunc.trunc ((s.arrival + duration) * pph)
      let arrival : Int := HasTrunc.trunc (s.arrival * pph)
      match mkBattery bp energy duration V period maxPower with
      | .error e => .error e
      | .ok batt =>
        .ok (some { session := s!"session_{idx}", station := s!"station_{idx}", arrival, departure,
                    estDeparture := departure, requested := energy, delivered := 0, rate := 0, batt })

def convertMatrixFrom (i : Nat) (rows : List (Sample K)) (period V maxPower : K) (maxLen : Option K)
    (bp : BattParams K) (ff : Bool) : Except Err (List (Ev K)) :=
  match rows with
  | [] => .ok []
  | r :: rs =>
    match convertSample i r period V maxPower maxLen bp ff with
    | .error e => .error e
    | .ok o =>
      match convertMatrixFrom (i + 1) rs period V maxPower maxLen bp ff with
      | .error e => .error e
      | .ok l => .ok (match o with | some e => e :: l | none => l)

/-- `_convert_ev_matrix` -/
def convertMatrix (rows : List (Sample K)) (period V maxPower : K) (maxLen : Option K)
    (bp : BattParams K) (ff : Bool) : Except Err (List (Ev K)) :=
  if ¬ (period < 0) ∧ ¬ (0 < period) then .error .zeroDivision   -- `60 / period` before the loop
  else convertMatrixFrom 0 rows period V maxPower maxLen bp ff

/-- `generate_events` (stochastic_events.py:162-168): day `d`'s samples get `24·d` hours added -/
def shiftDays (days : List (List (Sample K))) : List (Sample K) :=
  (days.zipIdx.map fun (rows, d) =>
      rows.map fun s => { s with arrival := s.arrival + ((24 * d : Nat) : K) }).flatten

/-! ### charging the generated battery at full rate for the stay (used by `fit_exact`) -/

/-- `n` calls of `Battery.charge(pilot, V, period)` without noise; returns the final battery. -/
def chargeN (b : Batt K) (pilot V P : K) : Nat → Except Battery.Err (Batt K)
  | 0 => .ok b
  | n + 1 =>
    match Battery.charge b pilot V P 0 with
    | .error e => .error e
    | .ok (b', _) => chargeN b' pilot V P n

end
end Sessions
end Acn
