/-
  Constraint bookkeeping of `ChargingNetwork` and the `Current` algebra (property C12).

  Transcribes acnportal/acnsim/network/current.py (REPAIRED form, fix F8: a scalar multiple of a
  `Current` is a `Current`; `+`/`-` with a non-`Current` raise) and
  acnportal/acnsim/network/charging_network.py: `register_evse` (177-202), `constraints_as_df`
  (204-217), `add_constraint` (219-283), `remove_constraint` (285-301), `update_constraint`
  (303-324), `constraint_current` (430-484, phase angles 0, `linear=False`).

  Feasibility (`is_feasible`, phasors, the linear mode) is `AcnModel/Feas.lean` (C06), not here.
  pandas is modelled, not verified: `Series.add(fill_value=0)` = key union with missing ↦ 0,
  `concat`/`fillna(0)`/`reindex(columns=station_ids)` = re-indexing on the station list with
  fill 0 (coefficients are assumed finite, i.e. NaN-free).
-/
import AcnModel.Num

namespace Acn.Network
open Acn

/-- A `Current`: `pd.Series` indexed by station id, as an association list.  Every constructor
    and operator below yields distinct keys (`keys_nodup_*` in the proofs). -/
abbrev Current (K : Type) := List (String × K)

inductive Err | registration | keyError | axisError | indexError | valueError | typeError
  deriving DecidableEq, Repr

def errName : Err → String
  | .registration => "EVSERegistrationError"
  | .keyError => "KeyError"
  | .axisError => "AxisError"
  | .indexError => "IndexError"
  | .valueError => "ValueError"
  | .typeError => "TypeError"

namespace Current
variable {K : Type}

def keys (c : Current K) : List String := c.map Prod.fst

def hasKey (c : Current K) (s : String) : Bool := decide (s ∈ c.keys)

/-- coefficient of station `s`, 0 if absent (what `reindex`/`fillna(0)` read). -/
def coeff [OfNat K 0] : Current K → String → K
  | [], _ => 0
  | (k, v) :: r, s => if k = s then v else coeff r s

/-- `dict[k] = v`: overwrite in place, or append. -/
def dictInsert (k : String) (v : K) : Current K → Current K
  | [] => [(k, v)]
  | (k', v') :: r => if k' = k then (k', v) :: r else (k', v') :: dictInsert k v r

/-- current.py:28-29 `Current({...})` — the wire form may repeat a key; a Python dict keeps the
    first position and the last value. -/
def ofDict (items : List (String × K)) : Current K :=
  items.foldl (fun acc p => dictInsert p.1 p.2 acc) []

/-- current.py:32-33 `Current([ids])` = `{load_id: 1 for load_id in loads}`. -/
def ofList [OfNat K 1] (ids : List String) : Current K := ofDict (ids.map (fun s => (s, 1)))

/-- current.py:30-31 `Current("id")`. -/
def ofStr [OfNat K 1] (s : String) : Current K := [(s, 1)]

/-- current.py:36-39 `Current()`. -/
def empty : Current K := []

/-- current.py:55-56 `Current(self.add(other, fill_value=0))`: union of the keys, a missing
    side counts 0 (key order of the result is pandas' business and is not observable: see
    `row_indep_of_listing_order`). -/
def add [Add K] [OfNat K 0] (a b : Current K) : Current K :=
  a.map (fun p => (p.1, p.2 + coeff b p.1)) ++
    (b.filter (fun p => !hasKey a p.1)).map (fun p => (p.1, 0 + p.2))

/-- repaired `k * current` (`__rmul__`). -/
def smulL [Mul K] (k : K) (c : Current K) : Current K := c.map (fun p => (p.1, k * p.2))

/-- repaired `current * k` (`__mul__`). -/
def smulR [Mul K] (c : Current K) (k : K) : Current K := c.map (fun p => (p.1, p.2 * k))

/-- `-1 * other`, as `__sub__` computes it (current.py:71). -/
def neg [Mul K] [Neg K] [OfNat K 1] (c : Current K) : Current K := smulL (-(1 : K)) c

/-- current.py:63-71 `Current(self.add(-1 * other, fill_value=0))`. -/
def sub [Add K] [Mul K] [Neg K] [OfNat K 0] [OfNat K 1] (a b : Current K) : Current K :=
  add a (neg b)

end Current

/-- Expression trees over the `Current` algebra, as a user writes them. -/
inductive Expr (K : Type) where
  | lit (c : Current K)
  | add (l r : Expr K)
  | sub (l r : Expr K)
  | lmul (k : K) (e : Expr K)
  | rmul (e : Expr K) (k : K)

def Expr.eval {K : Type} [Add K] [Mul K] [Neg K] [OfNat K 0] [OfNat K 1] : Expr K → Current K
  | .lit c => c
  | .add l r => Current.add l.eval r.eval
  | .sub l r => Current.sub l.eval r.eval
  | .lmul k e => Current.smulL k e.eval
  | .rmul e k => Current.smulR e.eval k

/-- the same expression evaluated pointwise on one station's coefficient -/
def Expr.coeffAt {K : Type} [Add K] [Sub K] [Mul K] [OfNat K 0] (s : String) : Expr K → K
  | .lit c => Current.coeff c s
  | .add l r => l.coeffAt s + r.coeffAt s
  | .sub l r => l.coeffAt s - r.coeffAt s
  | .lmul k e => k * e.coeffAt s
  | .rmul e k => e.coeffAt s * k

/-- The network state C12 is about, exactly as the code keeps it: the keys of `_EVSEs` and the
    three parallel containers of charging_network.py:47-51 (`none` = `constraint_matrix is None`). -/
structure Net (K : Type) where
  stations : List String
  matrix : Option (List (List K))
  magnitudes : List K
  index : List String

namespace Net
variable {K : Type}

def init : Net K := ⟨[], none, [], []⟩

/-- a constraint row: the Current re-indexed on the station list, fill 0
    (charging_network.py:256-265, 279-281). -/
def row [OfNat K 0] (stations : List String) (c : Current K) : List K := stations.map c.coeff

/-- charging_network.py:192-202.  `_EVSEs[id] = evse`: a known id keeps its position. -/
def register (n : Net K) (s : String) : Net K × Option Err :=
  if n.matrix.isSome then (n, some .registration)
  else ({ n with stations := if s ∈ n.stations then n.stations else n.stations ++ [s] }, none)

/-- charging_network.py:233-242: default name `_const_<n>`, one `_v2` for a taken name. -/
def resolveName (index : List String) (name : Option String) : String :=
  let nm := match name with
    | some s => s
    | none => "_const_" ++ toString index.length
  if nm ∈ index then nm ++ "_v2" else nm

/-- charging_network.py:219-283. -/
def addConstraint [OfNat K 0] (n : Net K) (c : Current K) (limit : K) (name : Option String) :
    Net K × Option Err :=
  let nm := resolveName n.index name
  if c.keys.all (fun k => decide (k ∈ n.stations)) then
    -- 250: the limit is appended first
    let n1 := { n with magnitudes := n.magnitudes ++ [limit] }
    -- 253 constraints_as_df(): DataFrame(matrix, columns, index) needs as many names as rows
    let rows := n.matrix.getD []
    if rows.length ≠ n.index.length then (n1, some .valueError)
    else
      let r := row n.stations c
      if rows.length = 0 then
        -- 256-261: the first row makes the frame; its index is the new name alone
        ({ n1 with index := [nm], matrix := some [r] }, none)
      else
        -- 263-265: concat, fillna(0); 276-281
        ({ n1 with index := n.index ++ [nm], matrix := some (rows ++ [r]) }, none)
  else (n, some .keyError)

/-- charging_network.py:285-301.  `np.delete(None, i, axis=0)` is an `AxisError`. -/
def removeConstraint (n : Net K) (name : String) : Net K × Option Err :=
  if name ∈ n.index then
    let i := n.index.idxOf name
    match n.matrix with
    | none => (n, some .axisError)
    | some rows =>
      ({ n with matrix := some (rows.eraseIdx i), magnitudes := n.magnitudes.eraseIdx i,
                index := n.index.erase name }, none)
  else (n, some .keyError)

/-- charging_network.py:303-324: remove, then add under the new name.  NOT atomic: when the add
    raises (unknown station) the removal has already happened. -/
def updateConstraint [OfNat K 0] (n : Net K) (name : String) (c : Current K) (limit : K)
    (newName : Option String) : Net K × Option Err :=
  let nn := newName.getD name
  if name ∈ n.index then
    match n.removeConstraint name with
    | (n1, some e) => (n1, some e)
    | (n1, none) => n1.addConstraint c limit (some nn)
  else (n, some .keyError)

end Net

/-- The operations a history is made of.  A `Current` operand is any association list, in
    particular the value of any `Expr`. -/
inductive Op (K : Type) where
  | register (s : String)
  | add (c : Current K) (limit : K) (name : Option String)
  | remove (name : String)
  | update (name : String) (c : Current K) (limit : K) (newName : Option String)

namespace Net
variable {K : Type}

def step [OfNat K 0] (n : Net K) : Op K → Net K × Option Err
  | .register s => n.register s
  | .add c l nm => n.addConstraint c l nm
  | .remove nm => n.removeConstraint nm
  | .update nm c l nn => n.updateConstraint nm c l nn

/-- state after a history (a raising operation leaves whatever it had already done) -/
def run [OfNat K 0] (n : Net K) (ops : List (Op K)) : Net K :=
  ops.foldl (fun n o => (n.step o).1) n

/-- the exceptions raised along a history -/
def trace [OfNat K 0] (n : Net K) : List (Op K) → List (Option Err)
  | [] => []
  | o :: os => (n.step o).2 :: trace (n.step o).1 os

/-- numpy index normalisation along an axis of length `T` (negative indices wrap once). -/
def normIdx (T : Nat) (i : Int) : Option Nat :=
  if 0 ≤ i ∧ i < (T : Int) then some i.toNat
  else if -(T : Int) ≤ i ∧ i < 0 then some (i + (T : Int)).toNat
  else none

/-- `schedule_matrix[:, time_indices]` (charging_network.py:469-470): the selected columns. -/
def selTimes (T : Nat) : Option (List Int) → Option (List Nat)
  | none => some (List.range T)
  | some ts => ts.mapM (normIdx T)

/-- charging_network.py:458-465: positions of the requested names, in network order. -/
def constraintIndices (index : List String) : Option (List String) → List Nat
  | none => List.range index.length
  | some names => (index.zipIdx.filter (fun p => decide (p.1 ∈ names))).map (·.2)

/-- column `t` of a (rectangular) schedule matrix -/
def column [OfNat K 0] (sched : List (List K)) (t : Nat) : List K := sched.map (·.getD t 0)

/-- charging_network.py:430-484 with all phase angles 0 and `linear=False`:
    `constraint_matrix[constraint_indices] @ schedule_matrix[:, time_indices]`.
    `T` is the number of columns of the schedule (numpy arrays are rectangular). -/
def constraintCurrent [Add K] [Mul K] [OfNat K 0] (n : Net K) (sched : List (List K)) (T : Nat)
    (names : Option (List String)) (times : Option (List Int)) : Except Err (List (List K)) :=
  let idxs := constraintIndices n.index names
  match selTimes T times with
  | none => .error .indexError
  | some cols =>
    if sched.length ≠ n.stations.length then .error .valueError
    else
      match n.matrix with
      | none => .error .typeError
      | some rows =>
        match idxs.mapM (fun i => rows[i]?) with
        | none => .error .indexError
        | some sel => .ok (sel.map (fun r => cols.map (fun t => dotK r (column sched t))))

end Net

/-! ### The network together with the per-registration vectors `_phase_angles` / `_voltages`

  Additive layer (nothing above is changed; `SchedView.lean` builds on `Net`).  `register_evse`
  (charging_network.py:192-202) overwrites the dict entry of a known station id — the station list
  keeps its length — but ALWAYS appends to `_voltages` and `_phase_angles`.  After re-registering
  an id the vectors are longer than the station list. -/

structure FullNet (K : Type) where
  base : Net K
  c : List K          -- Re e^{iφ} per `register_evse` call (`np.exp(1j*deg2rad(_phase_angles))`)
  s : List K          -- Im e^{iφ}
  voltages : List K   -- `_voltages`

/-- operations with what `register_evse` is really given -/
inductive FOp (K : Type) where
  | register (id : String) (c s v : K)
  | add (cur : Current K) (limit : K) (name : Option String)
  | remove (name : String)
  | update (name : String) (cur : Current K) (limit : K) (newName : Option String)

def FOp.toOp {K : Type} : FOp K → Op K
  | .register id _ _ _ => .register id
  | .add c l nm => .add c l nm
  | .remove nm => .remove nm
  | .update nm c l nn => .update nm c l nn

namespace FullNet
variable {K : Type}

def init : FullNet K := ⟨Net.init, [], [], []⟩

/-- charging_network.py:192-202 -/
def register (f : FullNet K) (id : String) (c s v : K) : FullNet K × Option Err :=
  if f.base.matrix.isSome then (f, some .registration)
  else ({ base := (f.base.register id).1, c := f.c ++ [c], s := f.s ++ [s],
          voltages := f.voltages ++ [v] }, none)

def step [OfNat K 0] (f : FullNet K) : FOp K → FullNet K × Option Err
  | .register id c s v => f.register id c s v
  | .add cur l nm => ({ f with base := (f.base.addConstraint cur l nm).1 }, (f.base.addConstraint cur l nm).2)
  | .remove nm => ({ f with base := (f.base.removeConstraint nm).1 }, (f.base.removeConstraint nm).2)
  | .update nm cur l nn =>
    ({ f with base := (f.base.updateConstraint nm cur l nn).1 }, (f.base.updateConstraint nm cur l nn).2)

def run [OfNat K 0] (f : FullNet K) (ops : List (FOp K)) : FullNet K :=
  ops.foldl (fun f o => (f.step o).1) f

def trace [OfNat K 0] (f : FullNet K) : List (FOp K) → List (Option Err)
  | [] => []
  | o :: os => (f.step o).2 :: trace (f.step o).1 os

/-- the operation does not register an id that is already registered (a refused registration
    counts as harmless: it changes nothing) -/
def FreshOp (f : FullNet K) : FOp K → Prop
  | .register id _ _ _ => id ∉ f.base.stations ∨ f.base.matrix.isSome = true
  | _ => True

/-- no operation of the history re-registers a registered id -/
def FreshRun [OfNat K 0] (f : FullNet K) : List (FOp K) → Prop
  | [] => True
  | o :: os => FreshOp f o ∧ FreshRun (f.step o).1 os

/-- numpy broadcasting of `schedule_matrix.T * angle_coeffs` (shapes `(T', R)` and `(A,)`):
    the common width, or `none` (ValueError) -/
def broadcastWidth (R A : Nat) : Option Nat :=
  if R = A then some R else if R = 1 then some A else if A = 1 then some R else none

/-- row `j` of `(schedule_matrix.T * coeffs).T` at column `t` for one component (cos or sin) of
    the angle coefficients, with numpy's broadcasting of a single row / a single coefficient -/
def phasorEntry [Mul K] [OfNat K 0] (sched : List (List K)) (coeffs : List K) (j t : Nat) : K :=
  let x := (if sched.length = 1 then sched.headD [] else sched.getD j []).getD t 0
  let a := if coeffs.length = 1 then coeffs.headD 0 else coeffs.getD j 0
  x * a

/-- charging_network.py:430-484, `linear=False`, with the network's own phase angles:
    real and imaginary parts of `constraint_matrix[constraint_indices] @ phasor_schedule`.
    Order of the failures as in the code: column indexing (IndexError), broadcasting against the
    angle vector (ValueError), `None[...]` (TypeError), the matrix product's inner dimension
    (ValueError). -/
def constraintCurrent [Add K] [Mul K] [OfNat K 0] (f : FullNet K) (sched : List (List K)) (T : Nat)
    (names : Option (List String)) (times : Option (List Int)) :
    Except Err (List (List K) × List (List K)) :=
  let idxs := Net.constraintIndices f.base.index names
  match Net.selTimes T times with
  | none => .error .indexError
  | some cols =>
    match broadcastWidth sched.length f.c.length with
    | none => .error .valueError
    | some W =>
      match f.base.matrix with
      | none => .error .typeError
      | some rows =>
        if f.base.stations.length ≠ W then .error .valueError
        else
          match idxs.mapM (fun i => rows[i]?) with
          | none => .error .indexError
          | some sel =>
            let part := fun (coeffs : List K) => sel.map (fun r => cols.map (fun t =>
              dotK r ((List.range W).map (fun j => phasorEntry sched coeffs j t))))
            .ok (part f.c, part f.s)

end FullNet

/-! ### Specification: a plain list of constraints -/

structure Constraint (K : Type) where
  cur : Current K
  limit : K
  name : String

/-- What a user thinks a network is: the registered stations, whether a constraint was ever
    added, and the list of constraints. -/
structure Spec (K : Type) where
  stations : List String
  frozen : Bool
  cons : List (Constraint K)

namespace Spec
variable {K : Type}

def init : Spec K := ⟨[], false, []⟩

def names (sp : Spec K) : List String := sp.cons.map (·.name)

def register (sp : Spec K) (s : String) : Spec K × Option Err :=
  if sp.frozen then (sp, some .registration)
  else ({ sp with stations := if s ∈ sp.stations then sp.stations else sp.stations ++ [s] }, none)

def add (sp : Spec K) (c : Current K) (limit : K) (name : Option String) : Spec K × Option Err :=
  if ∀ k ∈ c.keys, k ∈ sp.stations then
    ({ sp with frozen := true, cons := sp.cons ++ [⟨c, limit, Net.resolveName sp.names name⟩] }, none)
  else (sp, some .keyError)

def remove (sp : Spec K) (name : String) : Spec K × Option Err :=
  if name ∈ sp.names then ({ sp with cons := sp.cons.eraseP (fun t => t.name = name) }, none)
  else (sp, some .keyError)

def update (sp : Spec K) (name : String) (c : Current K) (limit : K) (newName : Option String) :
    Spec K × Option Err :=
  if name ∈ sp.names then
    (sp.remove name).1.add c limit (some (newName.getD name))
  else (sp, some .keyError)

def step (sp : Spec K) : Op K → Spec K × Option Err
  | .register s => sp.register s
  | .add c l nm => sp.add c l nm
  | .remove nm => sp.remove nm
  | .update nm c l nn => sp.update nm c l nn

def run (sp : Spec K) (ops : List (Op K)) : Spec K := ops.foldl (fun sp o => (sp.step o).1) sp

def trace (sp : Spec K) : List (Op K) → List (Option Err)
  | [] => []
  | o :: os => (sp.step o).2 :: trace (sp.step o).1 os

end Spec

end Acn.Network
