/- GENERATED (fixed text) by harness/translate_code.py — do not edit.
   How Python objects are represented in the translations of STATEFUL methods (T1c, DESIGN §17):
   exception classes, heap entries `(timestamp, event)`, `dict` as an insertion-ordered association list,
   `max(xs, key=…)`, and the records standing for `ChargingNetwork` / `Simulator` objects. -/
import AcnModel.Evse
import AcnModel.Queue

namespace Acn.Gen.Code
open Acn

/-- the Python exception classes a translated method can raise.  `fuel` is NOT a Python outcome: the bound
    of a translated `while` loop was reached (the tie theorems name a fuel for which it is not). -/
inductive PyErr
  | IndexError | KeyError | ValueError | AttributeError | TypeError | ZeroDivisionError
  | StationOccupiedError | InvalidRateError | fuel
  deriving DecidableEq, Repr, Inhabited

/-- `heappop` of an empty list -/
def qErrToPy : QErr → PyErr
  | .indexError => .IndexError

/-- what `Battery.charge` raises -/
def battErrToPy : Battery.Err → PyErr
  | .valueError => .ValueError
  | .zeroDivision => .ZeroDivisionError

/-- the heap entry `(ts, event)` of `EventQueue._queue`; the model keeps the entry's timestamp in the event -/
def pyEntry (ts : Int) (e : Event) : Event := { e with ts := ts }
/-- `entry[1]` -/
def entryEvent (e : Event) : Event := e
/-- `entry[0]` -/
def entryTs (e : Event) : Int := e.ts

/-- `d[k]` / `k in d` / `d.get(k)` on a `dict` with `str` keys kept as an association list in insertion order -/
def dictGet? {β : Type} : List (String × β) → String → Option β
  | [], _ => none
  | (k', v) :: r, k => if k' = k then some v else dictGet? r k

/-- `d[k] = v`: a known key keeps its position, a new key is appended -/
def dictSet {β : Type} : List (String × β) → String → β → List (String × β)
  | [], k, v => [(k, v)]
  | (k', v') :: r, k, v => if k' = k then (k, v) :: r else (k', v') :: dictSet r k v

/-- `d.values()` -/
def dictValues {β : Type} (d : List (String × β)) : List β := d.map (·.2)

/-- `max(xs, key=f)`: the FIRST maximal element (`None` stands for the `ValueError` of an empty argument) -/
def pyMaxBy {α β : Type} [LT β] [DecidableLT β] (key : α → β) : List α → Option α
  | [] => none
  | x :: xs => some (xs.foldl (fun best y => if key best < key y then y else best) x)

/-- `[f(x) for x in xs if c(x)]` where `c` / `f` may raise: `f x = .ok none` drops the element -/
def pyComp {α β : Type} (f : α → Except PyErr (Option β)) : List α → Except PyErr (List β)
  | [] => .ok []
  | x :: xs =>
    match f x with
    | .error e => .error e
    | .ok o =>
      match pyComp f xs with
      | .error e => .error e
      | .ok r => .ok (match o with | some y => y :: r | none => r)

/-- `UnplugEvent(timestamp, ev)` -/
def pyUnplugEvent {K : Type} (ts : Int) (ev : Evse.Ev K) : Event := ⟨ts, .unplug, ev.session⟩

/-- a `ChargingNetwork`, as far as plug-in / unplug go: `_EVSEs` -/
structure PyNet (K : Type) where
  evses : List (String × Evse.Evse K)

/-- an event as `_process_event` sees it: the queue's event plus the `ev` attribute of Plugin / Unplug events -/
structure PyEvent (K : Type) where
  base : Event
  ev : Evse.Ev K

/-- a `Simulator`, as far as `_process_event` goes; `σ` is the network object, `τ` the event queue object -/
structure PySim (K σ τ : Type) where
  network : σ
  queue : τ
  evHistory : List (String × Evse.Ev K)
  resolve : Bool
  lastUpd : Option Int

end Acn.Gen.Code
