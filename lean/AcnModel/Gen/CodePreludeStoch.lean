/- GENERATED (fixed text) by harness/translate_code.py — do not edit.
   Representation of the objects of contrib/acnsim/network/stochastic_network.py in the translations of group
   StochOps (T1c, DESIGN §17): an EV whose `station_id` may be None, an EVSE holding such an EV, the network with its
   `waiting_queue` (an OrderedDict: association list in insertion order), and the OrderedDict / random operations. -/
import AcnModel.Gen.CodePrelude

namespace Acn.Gen.Code
open Acn

/-- `d.items()` -/
def dictItems {β : Type} (d : List (String × β)) : List (String × β) := d

/-- `del d[k]` (the caller has checked that the key is there) -/
def dictDel {β : Type} : List (String × β) → String → List (String × β)
  | [], _ => []
  | (k', v) :: r, k => if k' = k then r else (k', v) :: dictDel r k

/-- `OrderedDict.move_to_end(k)`: the entry of `k` leaves its position and is appended -/
def dictMoveToEnd {β : Type} (d : List (String × β)) (k : String) : List (String × β) :=
  match dictGet? d k with
  | none => d
  | some v => dictDel d k ++ [(k, v)]

/-- `OrderedDict.popitem(last=False)`: the OLDEST entry and the rest (`none`: KeyError of an empty dict) -/
def dictPopFirst? {β : Type} : List (String × β) → Option ((String × β) × List (String × β))
  | [] => none
  | kv :: r => some (kv, r)

/-- `dict.popitem()` / `OrderedDict.popitem(last=True)`: the NEWEST entry and the rest -/
def dictPopLast? {β : Type} (d : List (String × β)) : Option ((String × β) × List (String × β)) :=
  match d.getLast? with
  | none => none
  | some kv => some (kv, d.dropLast)

/-- `random.choice(xs)` is `xs[randbelow(len(xs))]` (IndexError for an empty sequence); the draw is the INPUT `ρ`,
    any natural number, reduced modulo the length -/
def pyChoice {α : Type} (ρ : Nat) (xs : List α) : Except PyErr α :=
  match xs[ρ % xs.length]? with
  | none => .error .IndexError
  | some x => .ok x

/-- an `EV` as far as the stochastic network goes: `station_id` may be None (waiting) -/
structure PyStEv (K : Type) where
  session : String
  station : Option String
  requested : K
  delivered : K

/-- a `BaseEVSE` holding such an EV -/
structure PyStEvse (K : Type) where
  station : String
  ev : Option (PyStEv K)
  pilot : K

/-- a `StochasticNetwork`: `_EVSEs`, `waiting_queue`, the constructor flag and the three counters -/
structure PyStNet (K : Type) where
  evses : List (String × PyStEvse K)
  waiting : List (String × PyStEv K)
  earlyDeparture : Bool
  swaps : Nat
  neverCharged : Nat
  earlyUnplug : Nat

end Acn.Gen.Code
