/-
  Ignored-type events (C05) — `Simulator.run` over an event queue that ALSO holds events of a type
  `_process_event` has no branch for: the base class `acnsim.Event` (event_type "", precedence inf) and
  user subclasses of it (own `event_type`, any precedence).  What the code does with such an event
  (simulator.py:112-116, 203-226; event_queue.py:72-85):

  * it sits in the heap like any other entry, so `event_queue.empty()` is false while it is queued and the
    `while` loop of `run()` keeps going up to its timestamp;
  * `get_current_events(t)` pops it in the first period `t` with `timestamp ≤ t` (period 0 for a negative
    timestamp), it is appended to `event_history`, and `_process_event` falls through its `if/elif` chain:
    `_resolve`, `_last_schedule_update`, the network, `ev_history` and the queue are left alone.

  So the period body is the body of `EventCore.lean` / `Sim.lean` UNCHANGED (their `eventHist` is then the
  sub-list of `event_history` made of plug-in / unplug / recompute entries) and the only thing that
  changes is the loop condition: `guardI ign` below.  An additive companion of `EventCore.lean`,
  `Sim.lean` and `SchedView.lean`; nothing there is changed.  (The widths of the pilot / rate matrices
  follow `get_last_timestamp()` over the real queue during a run; the model widens them by the known
  events only.  Both arrive at the same final shape when the run ends normally — the last period widens
  to `iteration + 1` — which is what the correspondence compares.)
-/
import AcnModel.SchedView

namespace Acn.EventCore
open Acn

/-- is an ignored-type event with one of the timestamps `ign` still queued at the head of period `t`
    of a run that started in period 0?  The event with timestamp `ts` is popped in period `max ts 0`. -/
def ignoredPending (ign : List Int) (t : Nat) : Bool :=
  ign.any fun ts => t == 0 || decide ((t : Int) ≤ ts)

/-- `not self.event_queue.empty() or self._resolve` (simulator.py:112) when the queue also holds
    ignored-type events with the timestamps `ign` -/
def guardI (ign : List Int) (c : Core) : Bool := guard c || ignoredPending ign c.iter

/-- the loop of `run()` under an arbitrary continuation test `g` (same fuel / abort rule as `run`) -/
def runG (g : Core → Bool) (cfg : Cfg) (sched apply : Core → Option Err) : Nat → Core → Core × Option Err
  | 0, c => (c, none)
  | n + 1, c =>
    if g c then
      match body cfg sched apply c with
      | (c', none) => runG g cfg sched apply n c'
      | (c', some e) => (c', some e)
    else (c, none)

/-- `run()` over a queue that also holds ignored-type events with the timestamps `ign` -/
def runI (cfg : Cfg) (sched apply : Core → Option Err) (ign : List Int) : Nat → Core → Core × Option Err :=
  runG (guardI ign) cfg sched apply

/-- enough fuel for such a run -/
def fuelForI (cfg : Cfg) (ign : List Int) : Nat := max (fuelFor cfg) ((ign.foldl max 0).toNat + 3)

end Acn.EventCore

namespace Acn.Sim
open Acn Acn.EventCore

section
variable {K : Type} [Add K] [Sub K] [Mul K] [Div K] [Neg K] [LT K] [LE K]
  [DecidableLT K] [DecidableLE K] [OfNat K 0] [OfNat K 1] [NatCast K] [HasExp K]

/-- `Simulator.run` (full model) under an arbitrary continuation test -/
def runG (g : Core → Bool) (cfg : Cfg K) (sched : View K → Except Err (Schedule K)) : Nat → State K → State K × Option Err
  | 0, s => (s, none)
  | n + 1, s =>
    if g s.core then
      match body cfg sched s with
      | (s', none) => runG g cfg sched n s'
      | (s', some e) => (s', some e)
    else (s, none)

/-- the views handed out along `runG` -/
def runViewsG (g : Core → Bool) (cfg : Cfg K) (sched : View K → Except Err (Schedule K)) : Nat → State K → List (View K)
  | 0, _ => []
  | n + 1, s =>
    if g s.core then
      match body cfg sched s with
      | (s', none) => (handedView cfg s).toList ++ runViewsG g cfg sched n s'
      | (_, some _) => (handedView cfg s).toList
    else []

/-- `Simulator.run` over a queue that also holds ignored-type events with the timestamps `ign` -/
def runI (cfg : Cfg K) (sched : View K → Except Err (Schedule K)) (ign : List Int) : Nat → State K → State K × Option Err :=
  runG (guardI ign) cfg sched

def runViewsI (cfg : Cfg K) (sched : View K → Except Err (Schedule K)) (ign : List Int) : Nat → State K → List (View K) :=
  runViewsG (guardI ign) cfg sched

end
end Acn.Sim
