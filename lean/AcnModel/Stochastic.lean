/-
  StochasticNetwork — acnportal/contrib/acnsim/network/stochastic_network.py (class
  `StochasticNetwork`), its base `ChargingNetwork.plugin` (acnsim/network/charging_network.py:326-349),
  `EVSE.plugin/unplug` (acnsim/models/evse.py:155-186) and the part of the simulator that drives
  them (`Simulator.run` / `_process_event`, acnsim/simulator.py:112-141, 207-230).

  The random draw `random.choice(available_spots)` (stochastic_network.py:53) is an INPUT:
  `cs k` is the k-th draw of the run, read as an index into the free list in the code's own
  order (`_EVSEs` insertion order), reduced modulo its length (so every stream of naturals is a
  valid stream of draws and the theorems hold for every seed).  `EV.fully_charged` (ev.py:110-112)
  is an abstract Boolean supplied per period.

  Real state: `stations`, `occ`, `waiting`, `ev ·.station`, the three counters.
  Ghost state (never read by an operation; it only records what happened so that the theorems
  can be stated): `arrived / departed / plugged / queued / early`, `arrivals` (= key order of
  `Simulator.ev_history`, simulator.py:224) and `draws` (number of `random.choice` calls).
  No Mathlib here.
-/
import AcnModel.Event

namespace Acn.Stoch

abbrev Station := String
abbrev Sess := String

inductive Err
  | keyError          -- "Station … not found."
  | stationOccupied   -- EVSE.plugin on an occupied EVSE
  deriving DecidableEq, Repr, Inhabited

def Err.name : Err → String
  | .keyError => "KeyError"
  | .stationOccupied => "StationOccupied"

/-- per-EV record: `station` is `ev.station_id` (mutable, `none` = Python `None`) -/
structure EvRec where
  station : Option Station
  arrived : Bool := false    -- plug-in event processed
  departed : Bool := false   -- unplug event processed
  plugged : Bool := false    -- has been attached to an EVSE at some point
  queued : Bool := false     -- was put into the waiting queue at arrival
  early : Bool := false      -- was unplugged by post_charging_update
  deriving DecidableEq, Repr, Inhabited

structure Net where
  stations : List Station            -- keys of `_EVSEs`, registration order
  earlyDeparture : Bool              -- constructor flag
  occ : Station → Option Sess        -- `_EVSEs[st].ev` (session id)
  waiting : List Sess                -- keys of `waiting_queue` (OrderedDict), head first
  ev : Sess → EvRec
  arrivals : List Sess := []         -- ghost: keys of `Simulator.ev_history`
  swaps : Nat := 0
  neverCharged : Nat := 0
  earlyUnplug : Nat := 0
  draws : Nat := 0                   -- ghost: calls of random.choice so far

def Net.init (stations : List Station) (early : Bool) (st0 : Sess → Option Station) : Net :=
  { stations, earlyDeparture := early, occ := fun _ => none, waiting := [],
    ev := fun x => { station := st0 x } }

def Net.setOcc (s : Net) (st : Station) (o : Option Sess) : Net :=
  { s with occ := fun t => if t = st then o else s.occ t }

def Net.modEv (s : Net) (x : Sess) (f : EvRec → EvRec) : Net :=
  { s with ev := fun y => if y = x then f (s.ev y) else s.ev y }

/-- `available_evses()` (stochastic_network.py:27-29) -/
def Net.free (s : Net) : List Station := s.stations.filter (fun st => (s.occ st).isNone)

/-- `super().plugin(ev)`: ChargingNetwork.plugin (charging_network.py:345-348) looks up
    `ev.station_id`, then EVSE.plugin (evse.py:168-174) refuses an occupied EVSE. -/
def Net.attach (s : Net) (x : Sess) : Except Err Net :=
  match (s.ev x).station with
  | none => .error .keyError
  | some st =>
    if st ∈ s.stations then
      match s.occ st with
      | none => .ok ((s.setOcc st (some x)).modEv x (fun r => { r with plugged := true }))
      | some _ => .error .stationOccupied
    else .error .keyError

/-- `StochasticNetwork.plugin` (stochastic_network.py:51-61).  `waiting_queue[id] = ev;
    move_to_end(id)` is `erase x ++ [x]` on the key list. -/
def Net.plugin (cs : Nat → Nat) (s : Net) (x : Sess) : Except Err Net :=
  match s.free with
  | [] =>
    .ok { s.modEv x (fun r => { r with station := none, queued := true }) with
          waiting := s.waiting.erase x ++ [x] }
  | f :: fs =>
    -- random.choice: index `cs draws` into the free list (the default of getD is never used)
    let st := (f :: fs).getD (cs s.draws % (fs.length + 1)) f
    ({ s.modEv x (fun r => { r with station := some st }) with draws := s.draws + 1 }).attach x

/-- `if len(self.waiting_queue) > 0:` block of unplug (stochastic_network.py:91-95): the head of
    the queue (`popitem(last=False)`) gets the station that has just been freed -/
def Net.admitNext (s : Net) (st : Station) : Except Err Net :=
  match s.waiting with
  | [] => .ok s
  | y :: w => do
    let s2 : Net := { s.modEv y (fun r => { r with station := some st }) with waiting := w }
    let s3 ← s2.attach y
    pure { s3 with swaps := s3.swaps + 1 }

/-- `StochasticNetwork.unplug(station_id, session_id)` (stochastic_network.py:75-97), with a
    session id (the simulator always passes one). -/
def Net.unplug (s : Net) (st? : Option Station) (x : Sess) : Except Err Net :=
  if x ∈ s.waiting then
    .ok { s with waiting := s.waiting.erase x, neverCharged := s.neverCharged + 1 }
  else
    match st? with
    | none => .error .keyError
    | some st =>
      if st ∈ s.stations then
        match s.occ st with
        | none => .ok s                                -- `pass`
        | some z =>
          if x = z then (s.setOcc st none).admitNext st -- EVSE.unplug, then the swap
          else .ok s                                   -- another EV sits there: nothing happens
      else .error .keyError

/-- the list comprehension of post_charging_update (stochastic_network.py:102-106), in
    `_EVSEs` order; `full x` is `ev.fully_charged` at that moment -/
def Net.fullyCharged (s : Net) (full : Sess → Bool) : List Sess :=
  s.stations.filterMap (fun st =>
    match s.occ st with
    | some x => if full x then some x else none
    | none => none)

/-- loop body of post_charging_update (stochastic_network.py:107-110) -/
def Net.earlyStep (s : Net) (x : Sess) : Except Err Net :=
  if s.waiting.isEmpty then pure s
  else do
    let s1 ← s.unplug (s.ev x).station x
    pure ({ s1 with earlyUnplug := s1.earlyUnplug + 1 }.modEv x (fun r => { r with early := true }))

def Net.post (s : Net) (full : Sess → Bool) : Except Err Net :=
  if s.earlyDeparture then (s.fullyCharged full).foldlM Net.earlyStep s else pure s

/-- `Simulator._process_event` (simulator.py:219-233): the unplug uses the EV's CURRENT
    `station_id`; `ev_history[session_id] = ev` keeps the first insertion position. -/
def Net.processEvent (cs : Nat → Nat) (s : Net) (e : Event) : Except Err Net :=
  match e.kind with
  | .plugin => do
    let s1 ← s.plugin cs e.sess
    pure { s1.modEv e.sess (fun r => { r with arrived := true }) with
           arrivals := if e.sess ∈ s1.arrivals then s1.arrivals else s1.arrivals ++ [e.sess] }
  | .unplug => do
    let s1 ← s.unplug (s.ev e.sess).station e.sess
    pure (s1.modEv e.sess (fun r => { r with departed := true }))
  | .recompute => pure s

/-- what happens to the network during a run, flattened: an event is processed, or a period
    ends (`post_charging_update` with that period's `fully_charged` predicate) -/
inductive Step
  | ev (e : Event)
  | post (full : Sess → Bool)

def Net.step (cs : Nat → Nat) (s : Net) : Step → Except Err Net
  | .ev e => s.processEvent cs e
  | .post full => s.post full

def Net.run (cs : Nat → Nat) (s : Net) (steps : List Step) : Except Err Net :=
  steps.foldlM (Net.step cs) s

/-- the events among the steps, in order -/
def evProj : List Step → List Event
  | [] => []
  | .ev e :: r => e :: evProj r
  | .post _ :: r => evProj r

/-- `Simulator.run` for `n` periods from period `t` (simulator.py:112-141): pop every pending
    event with timestamp ≤ t (event_queue.py:77-80; `evs` is the key-sorted remaining history),
    process them in order, then (scheduler, pilots, charging — not in this model)
    `post_charging_update`. -/
def simSteps (full : Nat → Sess → Bool) : Nat → Nat → List Event → List Step
  | _, 0, _ => []
  | t, n + 1, evs =>
    let due := evs.takeWhile (fun e => decide (e.ts ≤ (t : Int)))
    let rest := evs.dropWhile (fun e => decide (e.ts ≤ (t : Int)))
    due.map Step.ev ++ Step.post (full t) :: simSteps full (t + 1) n rest

/-- the loop runs while the queue is non-empty, i.e. through the period of the last event -/
def horizon (evs : List Event) : Nat :=
  (evs.foldl (fun (m : Int) (e : Event) => max m (e.ts + 1)) 0).toNat

/-! ### sessions and the simulator's protocol -/

structure Session where
  id : Sess
  arrival : Int
  departure : Int
  deriving DecidableEq, Repr, Inhabited

def Session.plugEv (s : Session) : Event := { ts := s.arrival, kind := .plugin, sess := s.id }
def Session.unplugEv (s : Session) : Event := { ts := s.departure, kind := .unplug, sess := s.id }

/-- every event the simulator will process for these sessions: PluginEvent(arrival) from the
    generator, UnplugEvent(departure) added when the plug-in is processed (simulator.py:225) -/
def expected (ss : List Session) : List Event := ss.flatMap (fun s => [s.plugEv, s.unplugEv])

/-- Well-formed history of a run over the sessions `ss`: distinct session ids, arrival <
    departure, and `h` is the expected events in SOME key-sorted order (timestamp, then
    Unplug < Plugin: the heap's contract; the order among equal keys is left open). -/
def wellFormedB (ss : List Session) (h : List Event) : Bool :=
  decide (ss.map (·.id)).Nodup && ss.all (fun s => decide (s.arrival < s.departure)) &&
  decide (h.Pairwise (fun a b => a.keyLe b = true)) && h.isPerm (expected ss)

/-! ### observation (driver) -/

structure Snapshot where
  occ : List (Station × Option Sess)
  waiting : List Sess
  stationOf : List (Sess × Option Station)
  swaps : Nat
  neverCharged : Nat
  earlyUnplug : Nat
  draws : Nat

def Net.snapshot (s : Net) (sessions : List Sess) : Snapshot :=
  { occ := s.stations.map (fun st => (st, s.occ st)), waiting := s.waiting,
    stationOf := sessions.map (fun x => (x, (s.ev x).station)),
    swaps := s.swaps, neverCharged := s.neverCharged, earlyUnplug := s.earlyUnplug, draws := s.draws }

end Acn.Stoch
