/-
  The analysis functions — `acnportal/acnsim/analysis/__init__.py` and
  `ChargingNetwork.constraint_current` (acnsim/network/charging_network.py:430-484).

  TWO sets of definitions:

  * `spec*`  — written from the STATEMENT of property C18: a value per (name, period) given as a
    sum over station indices / a ratio / a maximum.  No list surgery: only `ent R i t`
    (entry of the recorded trajectory) and sums over `List.range`.
  * the others — TRANSCRIPTIONS of what the code computes: numpy reductions along an axis,
    vector–matrix products accumulated row by row, selection of matrix rows by a list of
    positions obtained by filtering `constraint_index`, a dict comprehension pairing a second,
    independently filtered list of names with the rows BY POSITION, fancy column indexing.

  `AcnProofs/C18.lean` proves that the second set equals the first for every simulation
  result.  The driver executes both at `Float`.

  A simulation result, as far as the analysis functions read it:
    `R`      charging_rates, rows = stations (network order), each of width `T`
    `V`      network._voltages            `c`,`s`  cos / sin of network._phase_angles
    `M`      network.constraint_matrix    `names`  network.constraint_index
    `evs`    ev_history values (requested, delivered)
  Complex numbers are pairs (re, im).  `sqrt` is a parameter (Float.sqrt in the driver; an
  arbitrary function in the theorems, which never need a property of it).
-/
import AcnModel.Num

namespace Acn.Analysis
open Acn

/-- the exceptions the code can raise on these paths -/
inductive Err | indexError | keyError | valueError | zeroDivision | typeError
  deriving DecidableEq, Repr

def Err.name : Err → String
  | .indexError => "IndexError"
  | .keyError => "KeyError"
  | .valueError => "ValueError"
  | .zeroDivision => "ZeroDivision"
  | .typeError => "TypeError"

abbrev Matrix (K : Type) := List (List K)

section
variable {K : Type} [Add K] [Sub K] [Mul K] [Div K] [LT K] [DecidableLT K] [OfNat K 0] [NatCast K]

/-- entry `(i, t)` of a row-major matrix (0 outside) -/
def ent (R : Matrix K) (i t : Nat) : K := (R.getD i []).getD t 0

/-! ## numpy building blocks (code level) -/

def zerosV (T : Nat) : List K := List.replicate T 0
def addV (a b : List K) : List K := List.zipWith (· + ·) a b
def scaleV (v : K) (row : List K) : List K := row.map (v * ·)

/-- `A.sum(axis=0)` for a `(n, T)` array: the rows are added up one after the other. -/
def colSums (T : Nat) (A : Matrix K) : List K := A.foldl addV (zerosV T)

/-- `v @ B` / `v.T.dot(B)` for a vector `v` (n) and a `(n, T)` array `B`. -/
def vecMat (T : Nat) (v : List K) (B : Matrix K) : List K :=
  (List.zip v B).foldl (fun acc p => addV acc (scaleV p.1 p.2)) (zerosV T)

/-- `A @ B` -/
def matMul (T : Nat) (A B : Matrix K) : Matrix K := A.map (fun a => vecMat T a B)

/-- order-only zero test (NaN counts as "zero": every NaN case below is a 0/0) -/
def isZero (x : K) : Bool := !(decide (x < 0)) && !(decide (0 < x))

/-! ## aggregate_current / aggregate_power  (analysis/__init__.py:6-27) -/

/-- line 15: `sim.charging_rates.sum(axis=0)` -/
def aggregateCurrent (T : Nat) (R : Matrix K) : List K := colSums T R

/-- line 27: `sim.network._voltages.T.dot(sim.charging_rates) / 1000` -/
def aggregatePower (T : Nat) (V : List K) (R : Matrix K) : List K :=
  (vecMat T V R).map (· / ((1000 : Nat) : K))

/-! ## ChargingNetwork.constraint_current  (charging_network.py:456-484, linear=False) -/

/-- lines 458-465: positions `i` of `constraint_index` whose name is in `constraints`
    (`None` = all).  Order and multiplicity of the request are irrelevant here. -/
def constraintIndices (names : List String) (req : Option (List String)) : List Nat :=
  match req with
  | some r => (List.range names.length).filter (fun i => r.contains (names.getD i ""))
  | none => List.range names.length

/-- numpy index normalisation for an axis of length `T`: `-T ≤ i < T`, negatives wrap. -/
def normIdx (T : Nat) (i : Int) : Option Nat :=
  if 0 ≤ i then (if i.toNat < T then some i.toNat else none)
  else (if (-i).toNat ≤ T then some (T - (-i).toNat) else none)

/-- lines 469-470: `schedule_matrix[:, time_indices]` (IndexError when out of bounds);
    returns the new matrix and its width. -/
def selectCols (R : Matrix K) (T : Nat) (ti : Option (List Int)) : Except Err (Matrix K × Nat) :=
  match ti with
  | none => .ok (R, T)
  | some l =>
    match l.mapM (normIdx T) with
    | none => .error .indexError
    | some l' => .ok (R.map (fun row => l'.map (fun t => row.getD t 0)), l'.length)

/-- lines 478-481: `(schedule_matrix.T * angle_coeffs).T`, one real component:
    row `j` of the schedule times `c_j`. -/
def phasorPart (S : Matrix K) (c : List K) : Matrix K :=
  List.zipWith (fun row cj => row.map (· * cj)) S c

/-- `self.constraint_matrix[constraint_indices]` (IndexError when a position is past the end) -/
def selectRows (M : Matrix K) (idxs : List Nat) : Except Err (Matrix K) :=
  if idxs.all (· < M.length) then .ok (idxs.map (fun i => M.getD i [])) else .error .indexError

/-- the whole function: one row per selected constraint (in `constraint_index` order), each a
    list over the selected periods of `(re, im)`. -/
def constraintCurrent (names : List String) (M : Matrix K) (c s : List K) (R : Matrix K) (T : Nat)
    (req : Option (List String)) (ti : Option (List Int)) : Except Err (List (List (K × K))) :=
  match selectCols R T ti with
  | .error e => .error e
  | .ok (S, T') =>
    match selectRows M (constraintIndices names req) with
    | .error e => .error e
    | .ok Msel =>
      .ok (List.zipWith List.zip (matMul T' Msel (phasorPart S c)) (matMul T' Msel (phasorPart S s)))

/-! ## analysis.constraint_currents  (analysis/__init__.py:43-59) -/

/-- Python dict built from `(key, value)` pairs in order: a later binding replaces an earlier one. -/
def dictGet {α : Type} : List (String × α) → String → Option α
  | [], _ => none
  | (k', v) :: rest, k =>
    match dictGet rest k with
    | some w => some w
    | none => if k' == k then some v else none

/-- lines 53-57: the names of `constraint_index` that were requested, in index order -/
def selectedNames (names : List String) (req : List String) : List String :=
  names.filter (fun n => req.contains n)

/-- line 59: `{constraint_ids[i]: currents_list[i] for i in range(len(constraint_ids))}` -/
def dictComp {α : Type} (ids : List String) (cur : List α) : Except Err (List (String × α)) :=
  if ids.length ≤ cur.length then .ok (ids.zip cur) else .error .indexError

/-- complex-valued result (the code's `return_magnitudes=True` — the flag is inverted, DESIGN §8).
    `ti = none` is what analysis.py passes; other values model a caller that pairs
    `network.constraint_current(..., time_indices=…)` with the names the same way. -/
def constraintCurrentsComplex (names : List String) (M : Matrix K) (c s : List K) (R : Matrix K)
    (T : Nat) (req : Option (List String)) (ti : Option (List Int)) :
    Except Err (List (String × List (K × K))) :=
  match constraintCurrent names M c s R T (some (req.getD names)) ti with
  | .error e => .error e
  | .ok cur => dictComp (selectedNames names (req.getD names)) cur

/-- `np.abs` of a complex number -/
def cabs (sqrt : K → K) (z : K × K) : K := sqrt (z.1 * z.1 + z.2 * z.2)

/-- magnitudes (the code's default, `return_magnitudes=False`) -/
def constraintCurrentsMag (sqrt : K → K) (names : List String) (M : Matrix K) (c s : List K)
    (R : Matrix K) (T : Nat) (req : Option (List String)) (ti : Option (List Int)) :
    Except Err (List (String × List K)) :=
  match constraintCurrent names M c s R T (some (req.getD names)) ti with
  | .error e => .error e
  | .ok cur => dictComp (selectedNames names (req.getD names)) (cur.map (fun row => row.map (cabs sqrt)))

/-! ## energy metrics  (analysis/__init__.py:62-115) -/

structure Ev (K : Type) where
  requested : K
  delivered : K

def totalRequested (evs : List (Ev K)) : K := sumK (evs.map (·.requested))
def totalDelivered (evs : List (Ev K)) : K := sumK (evs.map (·.delivered))

/-- lines 71-73 (division by a zero total: ZeroDivisionError / non-finite, reported as one class) -/
def proportionDelivered (evs : List (Ev K)) : Except Err K :=
  if isZero (totalRequested evs) then .error .zeroDivision
  else .ok (totalDelivered evs / totalRequested evs)

/-- ev.py:107 -/
def remaining (e : Ev K) : K := e.requested - e.delivered

/-- lines 112-115: strict `<` as in the source -/
def demandsMet (evs : List (Ev K)) (thr : K) : Except Err K :=
  if evs.isEmpty then .error .zeroDivision
  else .ok (((evs.filter (fun e => decide (remaining e < thr))).length : K) / (evs.length : K))

/-! ## NEMA current unbalance  (analysis/__init__.py:163-167) -/

/-- `np.max(currents, axis=0)` for a non-empty stack of rows -/
def colMax (rows : Matrix K) : List K :=
  match rows with
  | [] => []
  | r :: rs => rs.foldl (List.zipWith pyMax) r

/-- `(max - mean) / mean`; `none` stands for the NaN numpy produces for 0/0 -/
def unbalance (mx mean : K) : Option K := if isZero mean then none else some ((mx - mean) / mean)

/-- `[currents_dict[phase] for phase in phase_ids]` (line 164): KeyError on a missing id -/
def lookupAll {α : Type} (d : List (String × α)) : List String → Except Err (List α)
  | [] => .ok []
  | p :: ps =>
    match dictGet d p with
    | none => .error .keyError
    | some r =>
      match lookupAll d ps with
      | .ok rs => .ok (r :: rs)
      | .error e => .error e

/-- the whole function. `phaseIds` is any list (the docstring says three); a missing id is a
    KeyError (line 164), an empty list a ValueError (`np.vstack([])`). -/
def nemaUnbalance (sqrt : K → K) (names : List String) (M : Matrix K) (c s : List K) (R : Matrix K)
    (T : Nat) (phaseIds : List String) : Except Err (List (Option K)) :=
  match constraintCurrentsMag sqrt names M c s R T (some phaseIds) none with
  | .error e => .error e
  | .ok d =>
    match lookupAll d phaseIds with
    | .error e => .error e
    | .ok rows =>
      if rows.isEmpty then .error .valueError
      else
        let mean := (colSums T rows).map (· / ((rows.length : Nat) : K))
        .ok (List.zipWith unbalance (colMax rows) mean)

/-- `current_unbalance` (analysis/__init__.py:137-146): the deprecated keyword `type=` (when not
    `None`) REPLACES `unbalance_type`; the only accepted value is the string "NEMA" (case-sensitive),
    anything else is a ValueError. -/
def currentUnbalance (sqrt : K → K) (names : List String) (M : Matrix K) (c s : List K) (R : Matrix K)
    (T : Nat) (phaseIds : List String) (unbalanceType : String) (typ : Option String) :
    Except Err (List (Option K)) :=
  if typ.getD unbalanceType == "NEMA" then nemaUnbalance sqrt names M c s R T phaseIds
  else .error .valueError

/-! ## costs  (analysis/__init__.py:186-188, 210-212) -/

/-- lines 180-185 / 204-209: the tariff the cost functions use.  `arg` is the `tariff=` argument;
    `signals` is `sim.signals` — `none` when the Simulator was built without `signals=` (the attribute is
    `None` then and `"tariff" in None` is a TypeError), `some d` for a dict, `d` its `"tariff"` entry. -/
def pickTariff {α : Type} (arg : Option α) (signals : Option (Option α)) : Except Err α :=
  match arg with
  | some t => .ok t
  | none =>
    match signals with
    | none => .error .typeError
    | some (some t) => .ok t
    | some none => .error .valueError

/-- line 188: `np.array(energy_costs).dot(agg) * (sim.period / 60)`; `prices` is the vector
    `tariff.get_tariffs(sim.start, len(agg), sim.period)` (an input: C17 owns the tariff). -/
def energyCost (prices : List K) (T : Nat) (V : List K) (R : Matrix K) (period : K) : Except Err K :=
  let agg := aggregatePower T V R
  if prices.length = agg.length then .ok (dotK prices agg * (period / ((60 : Nat) : K)))
  else .error .valueError

/-- `np.max` of a 1-D array (ValueError on an empty one) -/
def listMax (l : List K) : Except Err K :=
  match l with
  | [] => .error .valueError
  | x :: xs => .ok (xs.foldl pyMax x)

/-- line 212: `dc * np.max(agg)`; `dc = tariff.get_demand_charge(sim.start)` is an input -/
def demandCharge (dc : K) (T : Nat) (V : List K) (R : Matrix K) : Except Err K :=
  match listMax (aggregatePower T V R) with
  | .error e => .error e
  | .ok m => .ok (dc * m)

/-! ## datetimes_array  (analysis/__init__.py:239-245) -/

/-- minutes on the time axis: `start + period * i` for `i in range(iteration)` -/
def datetimes (start period : K) (iters : Nat) : List K :=
  (List.range iters).map (fun (i : Nat) => start + period * ((i : Nat) : K))

/-! ## the STATEMENT-level definitions (first principles) -/

/-- Σ over the stations of the recorded rate in period `t` -/
def specAggCurrent (R : Matrix K) (t : Nat) : K :=
  sumK ((List.range R.length).map (fun i => ent R i t))

/-- Σ V_i · r_i(t) / 1000  [kW] -/
def specAggPower (V : List K) (R : Matrix K) (t : Nat) : K :=
  sumK ((List.range R.length).map (fun i => V.getD i 0 * ent R i t)) / ((1000 : Nat) : K)

/-- one component of the aggregate phasor current of a constraint row:
    Σ_j a_j · (r_j(t) · cos φ_j)  (resp. sin) -/
def specPhasorPart (row : List K) (c : List K) (R : Matrix K) (t : Nat) : K :=
  sumK ((List.range R.length).map (fun j => row.getD j 0 * (ent R j t * c.getD j 0)))

/-- THE ROW WITH THAT NAME: walk `constraint_index` and the matrix rows together -/
def rowNamed : List String → Matrix K → String → Option (List K)
  | n :: ns, r :: rs, name => if n == name then some r else rowNamed ns rs name
  | _, _, _ => none

/-- aggregate phasor current under constraint `name` in period `t` -/
def specConstraintCurrent (names : List String) (M : Matrix K) (c s : List K) (R : Matrix K)
    (name : String) (t : Nat) : Option (K × K) :=
  (rowNamed names M name).map (fun row => (specPhasorPart row c R t, specPhasorPart row s R t))

/-- NEMA: (max |I| − mean |I|) / mean |I| over three magnitudes -/
def specNema (a b cc : K) : Option K :=
  let mean := (a + b + cc) / ((3 : Nat) : K)
  if isZero mean then none else some ((pyMax (pyMax a b) cc - mean) / mean)

/-- Σ_t price_t · (P_t · period/60)  [$] -/
def specEnergyCost (prices : List K) (T : Nat) (V : List K) (R : Matrix K) (period : K) : K :=
  sumK ((List.range T).map (fun t => prices.getD t 0 * (specAggPower V R t * (period / ((60 : Nat) : K)))))

end
end Acn.Analysis
