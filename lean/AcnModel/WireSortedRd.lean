/-
  Driver code for C07 on top of `WireSorted.handle` (shared with C08, unchanged): whole simulations
  WITH the rampdown estimator.  For a request with `"estimate": true` and a `"simrun"` scenario the
  answer's `"simrun"` field is the run of `SimSortedRd.runSt` — the simulator model with the modelled
  sorted algorithm AND its `SimpleRampdown` object as a stateful scheduler (`SimSortedRd.sortedSchedSt`,
  estimator created as in `SimpleRampdown.__init__`: thresholds / increment from `"ramp"`, empty dict) —
  in the `WireSim.jResult` format, plus `"rd_bounds"`: the estimator's dict after the run.
  Everything else is `WireSorted.handle`'s answer.
-/
import AcnModel.WireSorted
import AcnModel.SimSortedRd

namespace Acn.WireSortedRd
open Lean Acn Acn.Wire Acn.Sorted

def simRunSt (j : Json) : Except String (Option Json) := do
  let algo ← getStr j "algo"
  if algo == "uncontrolled" then return none
  if !(← getBool j "estimate") then return none
  match j.getObjVal? "simrun" with
  | .error _ => pure none
  | .ok Json.null => pure none
  | .ok sj =>
    let ij ← j.getObjVal? "infra"
    let net : SimSorted.NetInfo Float :=
      { M := ← getFss ij "M", lims := ← getFs ij "lims", cos := ← getFs ij "cos", sin := ← getFs ij "sin",
        vt := fOfBits Acn.Gen.algAbsTolBits, rt := fOfBits Acn.Gen.algRelTolBits }
    let rj ← j.getObjVal? "ramp"
    let cfg : Config Float :=
      { algo := if algo == "rr" then .roundRobin else .greedy,
        sort := ← WireSorted.parseSort (← getStr j "sort"),
        uninterrupted := ← getBool j "uninterrupted", estimate := true,
        inc := ← getF j "inc", eps := fOfBits Acn.Gen.greedyEpsBits, fuel := 2000 }
    let rd0 : Rampdown Float :=
      { upTh := ← getF rj "up", downTh := ← getF rj "down", upInc := ← getF rj "inc", bounds := [] }
    let scfg ← parseSimCfg sj
    let r := SimSortedRd.runSt scfg (SimSortedRd.sortedSchedSt net infF scfg cfg)
      (EventCore.fuelFor scfg.core) rd0 (Sim.init scfg)
    pure (some ((jResult scfg r.1).setObjVal! "rd_bounds"
      (jList (fun (p : String × Float) => Json.arr #[jS p.1, jF p.2]) r.2.bounds)))

def handle (j : Json) : Except String Json := do
  let base ← WireSorted.handle j
  match ← simRunSt j with
  | none => pure base
  | some sr => pure (base.setObjVal! "simrun" sr)

end Acn.WireSortedRd
