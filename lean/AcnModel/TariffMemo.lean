/-
  C17, growth: a MEMO of the selected schedule.

  `/repo` has no such cache: `_get_tariff_schedule` filters the schedule list on every call
  (tou_tariff.py:94-108).  The model below is the obvious optimisation — remember the schedule selected for
  a key computed from the datetime, in the tariff object, across calls and across years — with the key as
  a PARAMETER, so that the theorems of `AcnProofs/C17.lean` can say exactly which keys keep the cache
  invisible (`memo_transparent`: those that determine (month, day, weekday)) and exhibit the histories on
  which a key of (month, day) only, or of the day of the month only, returns another day's schedule.
  A fast path inside `get_tariffs` ("the last element is on the same day as the first, so one schedule
  serves the whole vector") is the same thing with a cache that lives for one call.
-/
import AcnModel.Tariff

namespace Acn.Tariff
open Acn Acn.Calendar

section memo
variable {K κ : Type} [DecidableEq κ]

/-- key ↦ the schedule that was selected when the key was first seen (only successful selections are
    remembered: a raise leaves the cache as it is) -/
abbrev Cache (K κ : Type) := List (κ × Schedule K)

/-- `_get_tariff_schedule` behind a cache keyed by `key (fields of the datetime)` -/
def selectMemo (key : Fields → κ) (l : List (Schedule K)) (c : Cache K κ) (f : Fields) :
    Except Err (Schedule K) × Cache K κ :=
  match c.lookup (key f) with
  | some s => (.ok s, c)
  | none =>
    match selectSchedule l f.md f.wd with
    | .ok s => (.ok s, (key f, s) :: c)
    | .error e => (.error e, c)

/-- one query to the tariff object -/
inductive Query
  | rate (f : Fields)      -- get_tariff
  | demand (f : Fields)    -- get_demand_charge
  deriving DecidableEq, Repr

def Query.fields : Query → Fields
  | .rate f => f
  | .demand f => f

variable [LT K] [DecidableLT K]

/-- what is computed from the selected schedule -/
def answerOf (q : Query) (r : Except Err (Schedule K)) : Except Err K :=
  match q with
  | .rate f => r.bind (fun sch => lookup sch.tariffs (targetHour f.h f.m f.s).toRat)
  | .demand _ => r.map (fun sch => sch.demand)

/-- the answer without any cache (= `getTariff` / `getDemand` on the fields) -/
def answerPlain (l : List (Schedule K)) (q : Query) : Except Err K :=
  answerOf q (selectSchedule l q.fields.md q.fields.wd)

/-- a history of queries against ONE tariff object with a cache: the answers, and the cache afterwards -/
def runMemo (key : Fields → κ) (l : List (Schedule K)) : Cache K κ → List Query → List (Except Err K) × Cache K κ
  | c, [] => ([], c)
  | c, q :: qs =>
    let r := selectMemo key l c q.fields
    let rest := runMemo key l r.2 qs
    (answerOf q r.1 :: rest.1, rest.2)

/-- the same history without a cache -/
def runPlain (l : List (Schedule K)) (qs : List Query) : List (Except Err K) :=
  qs.map (answerPlain l)

/-- the queries `get_tariffs(start, n, step)` makes -/
def vecQueries (startUs : Int) (n : Nat) (stepUs : Int) : List Query :=
  (List.range n).map (fun (t : Nat) => Query.rate (fieldsOf ((startUs + (t : Int) * stepUs) / 1000000)))

end memo

/-! ### the two keys of the seeded bugs, and a sound one -/

/-- (month, day): forgets the weekday, i.e. the year -/
def keyMonthDay (f : Fields) : Nat × Nat := f.md
/-- day of the month only ("same `.day`, so same day") -/
def keyDayOfMonth (f : Fields) : Nat := f.md.2
/-- (month, day, weekday): everything `_get_tariff_schedule` reads -/
def keyFull (f : Fields) : (Nat × Nat) × Nat := (f.md, f.wd)
/-- the date itself -/
def keyDate (f : Fields) : Int × (Nat × Nat) × Nat := (f.year, f.md, f.wd)

end Acn.Tariff
