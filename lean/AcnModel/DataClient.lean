/-
  The ACN-Data API client (`/repo/acnportal/acndata/data_client.py`), without the network:
  `requests.get` / `requests.head` are a *parameter* (`fetch`, `head`) of the model.

    get_sessions          data_client.py:24-69     site check, URL, pagination by `_links.next`
    count_sessions        data_client.py:71-97
    get_sessions_by_time  data_client.py:99-136    condition strings with `http_date`
    parse_dates           utils.py:27-45           in-place conversion of a document

  A query is kept structured (`List (Key × String)`) until it is rendered, so that "which
  parameters are sent" is a statement about a list, not about substrings.  Python exceptions are
  a small enum; a generator that dies half-way is a `Trace` with the items yielded so far and the
  exception that ended it.  No Mathlib.
-/
import AcnModel.HttpDate

namespace Acn.DataClient
open Acn.HttpDate

/-- exceptions that can leave the client -/
inductive Err
  | valueError          -- invalid site; malformed time-series timestamp
  | keyError            -- payload without `_items` / `_links`; document without `timezone`; header missing
  | jsonError           -- body is not JSON
  | unknownTz           -- `pytz.UnknownTimeZoneError`
  | transport           -- the transport itself raised (connection error, harness cut-off)
  | outOfFuel           -- model only: more pages than fuel (a `next` cycle never ends in Python)
deriving DecidableEq, Repr

def Err.name : Err → String
  | .valueError => "ValueError"
  | .keyError => "KeyError"
  | .jsonError => "JSONDecodeError"
  | .unknownTz => "UnknownTimeZoneError"
  | .transport => "Transport"
  | .outOfFuel => "OutOfFuel"

/-! ### pagination -/

/-- the `_links` part of a payload -/
inductive Next
  | last                    -- `_links` present, no `next`
  | next (href : String)    -- `_links.next.href`
  | broken                  -- `_links` missing (or `next` without `href`): `KeyError` after the items
deriving DecidableEq, Repr

structure Page (α : Type) where
  items : List α
  next : Next
deriving DecidableEq, Repr

/-- what one HTTP GET gives the client -/
inductive Resp (α : Type)
  | page (p : Page α)
  | fail (e : Err)          -- `r.json()` raised, or the payload has no `_items`, or transport error
deriving DecidableEq, Repr

/-- what an observer of the generator sees: the URLs requested, the items yielded, and how it
    ended (`none` = exhausted normally) -/
structure Trace (β : Type) where
  urls : List String
  items : List β
  stop : Option Err
deriving DecidableEq, Repr

/-- `for s in payload["_items"]: parse_dates(s); yield s` — stops at the first failing conversion -/
def yieldAll {α β : Type} (conv : α → Except Err β) : List α → List β × Option Err
  | [] => ([], none)
  | a :: as =>
    match conv a with
    | .error e => ([], some e)
    | .ok b => let r := yieldAll conv as; (b :: r.1, r.2)

/-- the `while True` loop of `get_sessions` (data_client.py:58-69), fuelled -/
def collect {α β : Type} (base : String) (fetch : String → Resp α) (conv : α → Except Err β) :
    Nat → String → Trace β
  | 0, _ => { urls := [], items := [], stop := some .outOfFuel }
  | fuel + 1, url =>
    match fetch url with
    | .fail e => { urls := [url], items := [], stop := some e }
    | .page p =>
      match yieldAll conv p.items with
      | (bs, some e) => { urls := [url], items := bs, stop := some e }
      | (bs, none) =>
        match p.next with
        | .last => { urls := [url], items := bs, stop := none }
        | .broken => { urls := [url], items := bs, stop := some .keyError }
        | .next h =>
          let r := collect base fetch conv fuel (base ++ h)
          { urls := url :: r.urls, items := bs ++ r.items, stop := r.stop }

/-! ### query construction -/

inductive Key
  | where_ | project | sort | maxResults | limit
deriving DecidableEq, Repr

def Key.name : Key → String
  | .where_ => "where"
  | .project => "project"
  | .sort => "sort"
  | .maxResults => "max_results"
  | .limit => "limit"

structure Query where
  cond : Option String
  project : Option String
  sort : Option String
  timeseries : Bool

def optArg (k : Key) : Option String → List (Key × String)
  | none => []
  | some v => [(k, v)]

/-- `args` of `get_sessions` (data_client.py:48-55), in order -/
def params (q : Query) : List (Key × String) :=
  optArg .where_ q.cond ++ optArg .project q.project ++ optArg .sort q.sort ++
    [(.maxResults, if q.timeseries then "1" else "100")]

/-- `"?" + "&".join(args) if len(args) > 0 else ""` -/
def render (ps : List (Key × String)) : String :=
  if ps.isEmpty then "" else "?" ++ "&".intercalate (ps.map fun p => p.1.name ++ "=" ++ p.2)

def validSite (site : String) : Bool := site == "caltech" || site == "jpl" || site == "office001"

def endpoint (site : String) (timeseries : Bool) : String :=
  "sessions/" ++ site ++ (if timeseries then "/ts/" else "")

def sessionsUrl (base site : String) (q : Query) : String :=
  base ++ endpoint site q.timeseries ++ render (params q)

/-- `get_sessions` consumed to the end: `ValueError` before any request for an unknown site -/
def getSessions {α β : Type} (base site : String) (q : Query) (fetch : String → Resp α)
    (conv : α → Except Err β) (fuel : Nat) : Except Err (Trace β) :=
  if validSite site then .ok (collect base fetch conv fuel (sessionsUrl base site q))
  else .error .valueError

/-- `args` of `count_sessions` (data_client.py:90-93) -/
def countParams (cond : Option String) : List (Key × String) :=
  optArg .where_ cond ++ [(.limit, "1")]

def countUrl (base site : String) (cond : Option String) : String :=
  base ++ "sessions/" ++ site ++ render (countParams cond)

/-- `count_sessions`: one HEAD request, the `x-total-count` header (`none` = header missing);
    returns the URL requested as well -/
def countSessions (base site : String) (cond : Option String) (head : String → Option String) :
    Except Err (String × Except Err String) :=
  if validSite site then
    let u := countUrl base site cond
    .ok (u, match head u with | some v => .ok v | none => .error .keyError)
  else .error .valueError

/-! ### the time-window wrapper -/

/-- the clauses of `get_sessions_by_time` (data_client.py:126-132); `minEnergy` is Python's
    `str(min_energy)` (float formatting is trusted) -/
def timeClauses (start stop : Option Aware) (minEnergy : Option String) : List String :=
  (match start with | none => [] | some a => ["connectionTime >= \"" ++ httpDate a ++ "\""]) ++
  (match stop with | none => [] | some a => ["connectionTime <= \"" ++ httpDate a ++ "\""]) ++
  (match minEnergy with | none => [] | some e => ["kWhDelivered > " ++ e])

def timeCond (start stop : Option Aware) (minEnergy : Option String) : String :=
  " and ".intercalate (timeClauses start stop minEnergy)

/-- the query `get_sessions_by_time(count=False)` hands to `get_sessions`: the condition is always
    passed (an empty string when no bound is given), sorted by `connectionTime` -/
def timeQuery (start stop : Option Aware) (minEnergy : Option String) (timeseries : Bool) : Query :=
  { cond := some (timeCond start stop minEnergy), project := none, sort := some "connectionTime",
    timeseries := timeseries }

/-! ### documents (`parse_dates`) -/

/-- the JSON value kinds `parse_dates` distinguishes -/
inductive Val
  | str (s : String)
  | ts (stamps : List String)      -- a dict with a `timestamps` list of strings
  | other                          -- null, numbers, lists, dicts without `timestamps`
deriving Repr

inductive PVal
  | str (s : String)               -- a string that is not an RFC-1123 date stays a string
  | date (a : Aware)
  | ts (stamps : List Aware)
  | other
deriving Repr

abbrev Doc := List (String × Val)
abbrev PDoc := List (String × PVal)

def lookupStr (d : Doc) (k : String) : Option Val :=
  match d.find? (fun p => p.1 == k) with
  | some p => some p.2
  | none => none

def parseStamps (off : Instant → Int) : List String → Except Err (List Aware)
  | [] => .ok []
  | s :: ss =>
    match parseHttpDate off s with
    | none => .error .valueError
    | some a =>
      match parseStamps off ss with
      | .error e => .error e
      | .ok as => .ok (a :: as)

def parseFields (off : Instant → Int) : Doc → Except Err PDoc
  | [] => .ok []
  | (k, v) :: rest =>
    let pv : Except Err PVal :=
      match v with
      | .str s => (match parseHttpDate off s with | some a => .ok (.date a) | none => .ok (.str s))
      | .ts l => (match parseStamps off l with | .ok as => .ok (.ts as) | .error e => .error e)
      | .other => .ok .other
    match pv with
    | .error e => .error e
    | .ok x =>
      match parseFields off rest with
      | .error e => .error e
      | .ok r => .ok ((k, x) :: r)

/-- `parse_dates(doc)`: the zone is looked up from `doc["timezone"]` (`KeyError` when absent,
    `UnknownTimeZoneError` when pytz does not know it); every string field that parses as an
    RFC-1123 date becomes an aware datetime in that zone, every `timestamps` list is converted
    (a malformed stamp raises `ValueError`). -/
def parseDates (zones : String → Option Zone) (d : Doc) : Except Err PDoc :=
  match lookupStr d "timezone" with
  | some (.str name) =>
    match zones name with
    | none => .error .unknownTz
    | some z => parseFields z.off d
  | some _ => .error .unknownTz
  | none => .error .keyError

end Acn.DataClient
