/-
  The whole run loop with the StochasticNetwork: `Acn.EventCore.runG` (sim-core's loop over an
  arbitrary queue and network, AcnModel/EventCoreG.lean) instantiated with the C19 network model,
  with the per-period `post_charging_update` call of `Simulator.run` (simulator.py:139) through the
  `post` hook of `bodyGP` / `runGP` (AcnModel/EventCoreGP.lean; `post` only touches the network,
  `advance` only the iteration counter, so running it after `bodyG`'s `advance` is the same as
  running it before; it is given the period index of the iteration it belongs to).

  The choice stream `cs` and the per-period `fully_charged` inputs `full` are parameters; the
  number of draws made so far is part of the network state (`Net.draws`).
-/
import AcnModel.EventCoreGP
import AcnModel.Stochastic

namespace Acn.Stoch
open Acn Acn.EventCore

def convErr : Stoch.Err → EventCore.Err
  | .keyError => .keyError
  | .stationOccupied => .stationOccupied

def liftOp (s : Net) (r : Except Stoch.Err Net) : Net × Option EventCore.Err :=
  match r with
  | .ok s' => (s', none)
  | .error e => (s, some (convErr e))

/-- `network.plugin(ev)` / `network.unplug(ev.station_id, ev.session_id)` as the loop calls them
    (`Net.processEvent` is `_process_event` on the network side; the station argument of unplug
    is the EV's CURRENT station id, the pre-assigned `Session.station` is only the initial id) -/
def stochasticNet (cs : Nat → Nat) : NetOps Net where
  plugin := fun s x => liftOp s (s.processEvent cs (EventCore.plugEv x))
  unplug := fun s x => liftOp s (s.processEvent cs (EventCore.unplugEv x))

/-- `post_charging_update` of period `t` -/
def stochasticPost (full : Nat → Sess → Bool) (t : Nat) (s : Net) : Net × Option EventCore.Err :=
  liftOp s (s.post (full t))

/-- the network the loop starts with: the initial `station_id` of each EV is the session's
    pre-assigned station -/
def net0 (cfg : Cfg) (early : Bool) : Net :=
  Net.init cfg.stations early (fun id => (findSession cfg id).map (·.station))

end Acn.Stoch
