/-
  The whole run loop with the StochasticNetwork: `Acn.EventCore.runG` (sim-core's loop over an
  arbitrary queue and network, AcnModel/EventCoreG.lean) instantiated with the C19 network model,
  plus the per-period `post_charging_update` call of `Simulator.run` (simulator.py:139) that
  `bodyG` has no hook for: `bodyGP` = `bodyG`, then `post` on the network state.
  (`post` only touches the network, `advance` only the iteration counter, so running it after
  `bodyG`'s `advance` is the same as running it before; it is given the period index of the
  iteration it belongs to.)

  The choice stream `cs` and the per-period `fully_charged` inputs `full` are parameters; the
  number of draws made so far is part of the network state (`Net.draws`).
-/
import AcnModel.EventCoreG
import AcnModel.Stochastic

namespace Acn.Stoch
open Acn Acn.EventCore

def convErr : Stoch.Err → EventCore.Err
  | .keyError => .keyError
  | .stationOccupied => .stationOccupied

def liftOp (s : Net) (r : Except Stoch.Err Net) : Net × Option EventCore.Err :=
  match r with
  | .ok s' => (s', none)
  | .error e => (s, some (convErr e))

/-- `network.plugin(ev)` / `network.unplug(ev.station_id, ev.session_id)` as the loop calls them
    (`Net.processEvent` is `_process_event` on the network side; the station argument of unplug
    is the EV's CURRENT station id, the pre-assigned `Session.station` is only the initial id) -/
def stochasticNet (cs : Nat → Nat) : NetOps Net where
  plugin := fun s x => liftOp s (s.processEvent cs (EventCore.plugEv x))
  unplug := fun s x => liftOp s (s.processEvent cs (EventCore.unplugEv x))

/-- `post_charging_update` of period `t` -/
def stochasticPost (full : Nat → Sess → Bool) (t : Nat) (s : Net) : Net × Option EventCore.Err :=
  liftOp s (s.post (full t))

section
variable {σ : Type}

/-- one trip round the loop including `self.network.post_charging_update()` -/
def bodyGP (ops : QOps) (net : NetOps σ) (post : Nat → σ → σ × Option EventCore.Err) (cfg : Cfg)
    (sched apply : CoreG σ → Option EventCore.Err) (g : CoreG σ) : CoreG σ × Option EventCore.Err :=
  match bodyG ops net cfg sched apply g with
  | (g', some e) => (g', some e)
  | (g', none) =>
    match post g.core.iter g'.net with
    | (n', none) => ({ g' with net := n' }, none)
    | (n', some e) => ({ g' with net := n' }, some e)

def runGP (ops : QOps) (net : NetOps σ) (post : Nat → σ → σ × Option EventCore.Err) (cfg : Cfg)
    (sched apply : CoreG σ → Option EventCore.Err) : Nat → CoreG σ → CoreG σ × Option EventCore.Err
  | 0, g => (g, none)
  | n + 1, g =>
    if EventCore.guard g.core then
      match bodyGP ops net post cfg sched apply g with
      | (g', none) => runGP ops net post cfg sched apply n g'
      | (g', some e) => (g', some e)
    else (g, none)

end

/-- the network the loop starts with: the initial `station_id` of each EV is the session's
    pre-assigned station -/
def net0 (cfg : Cfg) (early : Bool) : Net :=
  Net.init cfg.stations early (fun id => (findSession cfg id).map (·.station))

end Acn.Stoch
