/-
  The whole run loop with the StochasticNetwork: `Acn.EventCore.runG` (sim-core's loop over an
  arbitrary queue and network, AcnModel/EventCoreG.lean) instantiated with the C19 network model,
  with the per-period `post_charging_update` call of `Simulator.run` (simulator.py:139) through the
  `post` hook of `bodyGP` / `runGP` (AcnModel/EventCoreGP.lean; `post` only touches the network,
  `advance` only the iteration counter, so running it after `bodyG`'s `advance` is the same as
  running it before; it is given the period index of the iteration it belongs to).

  The choice stream `cs` and the per-period `fully_charged` inputs `full` are parameters; the
  number of draws made so far is part of the network state (`Net.draws`).
-/
import AcnModel.EventCoreGP
import AcnModel.Stochastic

namespace Acn.Stoch
open Acn Acn.EventCore

def convErr : Stoch.Err → EventCore.Err
  | .keyError => .keyError
  | .stationOccupied => .stationOccupied

def liftOp (s : Net) (r : Except Stoch.Err Net) : Net × Option EventCore.Err :=
  match r with
  | .ok s' => (s', none)
  | .error e => (s, some (convErr e))

/-- `network.plugin(ev)` / `network.unplug(ev.station_id, ev.session_id)` as the loop calls them
    (`Net.processEvent` is `_process_event` on the network side; the station argument of unplug
    is the EV's CURRENT station id, the pre-assigned `Session.station` is only the initial id) -/
def stochasticNet (cs : Nat → Nat) : NetOps Net where
  plugin := fun s x => liftOp s (s.processEvent cs (EventCore.plugEv x))
  unplug := fun s x => liftOp s (s.processEvent cs (EventCore.unplugEv x))

/-- `post_charging_update` of period `t` -/
def stochasticPost (full : Nat → Sess → Bool) (t : Nat) (s : Net) : Net × Option EventCore.Err :=
  liftOp s (s.post (full t))

/-- the network the loop starts with: the initial `station_id` of each EV is the session's
    pre-assigned station -/
def net0 (cfg : Cfg) (early : Bool) : Net :=
  Net.init cfg.stations early (fun id => (findSession cfg id).map (·.station))

/-! ### `fully_charged` computed inside the run (energy ledger) instead of supplied

  `Simulator.run` charges the plugged-in EVs (`update_pilots` → `EVSE.set_pilot` → `EV.charge`,
  simulator.py:136-138) immediately before `post_charging_update`, and nothing in between touches
  the network; so the charging stage of period `t` is modelled inside the `post` hook, on a ledger
  state `L` carried next to the network state.  `charge` may be ANY function of the period, the
  network state (who is plugged where) and the ledger — any scheduler, pilot matrix and battery
  law; `full` reads `EV.fully_charged` off the ledger. -/

structure Ledger (L : Type) where
  charge : Nat → Net → L → L
  full : L → Sess → Bool

def stochasticNetL {L : Type} (cs : Nat → Nat) : NetOps (Net × L) where
  plugin := fun s x => ((((stochasticNet cs).plugin s.1 x).1, s.2), ((stochasticNet cs).plugin s.1 x).2)
  unplug := fun s x => ((((stochasticNet cs).unplug s.1 x).1, s.2), ((stochasticNet cs).unplug s.1 x).2)

def stochasticPostL {L : Type} (led : Ledger L) (t : Nat) (s : Net × L) : (Net × L) × Option EventCore.Err :=
  let l' := led.charge t s.1 s.2
  (((liftOp s.1 (s.1.post (led.full l'))).1, l'), (liftOp s.1 (s.1.post (led.full l'))).2)

/-- the ledger of `EV` (ev.py:100-112): energy delivered so far per session; an EV that sits on a
    station receives `rate t net delivered x` in period `t` (whatever the scheduler and the battery
    make of it, possibly looking at the ledger), and is fully charged when `requested - delivered ≤ eps` (`not (remaining_demand > 1e-3)`) -/
def energyLedger {K : Type} [Add K] [Sub K] [LT K] [DecidableLT K] (requested : Sess → K)
    (rate : Nat → Net → (Sess → K) → Sess → K) (eps : K) : Ledger (Sess → K) where
  charge := fun t s d x =>
    if s.stations.any (fun st => s.occ st == some x) then d x + rate t s d x else d x
  full := fun d x => !decide (eps < requested x - d x)

end Acn.Stoch
