import AcnModel.Num
import AcnModel.Wire
